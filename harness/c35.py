"""C35 — header collections behave as a case-insensitive ordered multimap
(mitmproxy/coretypes/multidict.py, mitmproxy/http.py Headers, mitmproxy/net/http/http1/read.py _read_headers).

Case kinds
  seq : {"kind":"seq","init":[[name_hex,value_hex],..],"ops":[[op,t,s,args..],..]}  operation sequence on real Headers
        objects (object 0 = Headers(init); `cp` creates further objects); after EVERY op the return value and the
        `fields` tuples of all objects are recorded.
  rt  : {"kind":"rt","fields":[[n,v],..]}  bytes(Headers(fields)) -> h11 line extraction -> _read_headers
  rd  : {"kind":"rd","lines":[hex,..]}     _read_headers on arbitrary lines (error branches)
"""
import itertools, re
from common.check import PropertyCheck, hx, unhx, Skip
from mitmproxy.http import Headers
from mitmproxy.net.http.http1 import read as h1read
from mitmproxy.http import _native as http_native, _always_bytes as http_always_bytes
from h11._receivebuffer import ReceiveBuffer
from mitmproxy.coretypes.multidict import MultiDict, MultiDictView

MAXOBJ = 3
# op -> argument shape after [op, t, s]:  k = key hex, v = value hex, V = list of value hex, i = int, u = object index,
# m = 0/1 (multi flag), P = list of [k,v]
SHAPES = {
    "gi": "k", "ge": "k", "ga": "k", "co": "k", "si": "kv", "sa": "kV", "di": "k", "ad": "kv", "in": "ikv",
    "it": "", "ln": "", "eq": "u", "cp": "", "im": "", "is": "", "ks": "m", "vs": "m", "po": "k", "pi": "",
    "sd": "kv", "cl": "", "up": "P", "by": "",
}
# kind "view": the sibling classes that share _MultiDict's code (MultiDict, MultiDictView) — str keys and values,
# exact-key comparison, first-value lookup.  op -> argument shape (k/v = `u<code points>`, V = list, i = int)
VSHAPES = {"ga": "k", "gi": "k", "di": "k", "si": "kv", "ad": "kv", "in": "ikv", "sa": "kV", "it": "", "ln": ""}
VTARGETS = ("holder", "multidict", "query", "cookies")
MUTATORS = ("si", "sa", "di", "ad", "in", "po", "pi", "sd", "cl", "up", "cp")
QUERIES = ("gi", "ge", "ga", "co", "it", "ln", "eq", "im", "is", "ks", "vs", "by")

NAMES = [b"a", b"A", b"b", b"B", b"Set-Cookie", b"set-cookie", b"SET-COOKIE"]
NAMES_X = NAMES + [b"Content-Length", b"x-\xc3\xa9", b"X-\xc3\x89", b"\xff", b"", b"a b", b"k:", b"@", b"[", b"`", b"{", b"Z", b"z"]
VALUES = [b"1", b"2", b"3"]
VALUES_X = VALUES + [b"", b"x, y", b"v\xff", b" sp ", b"a=b; c", b"\xc3\xa9"]

# lead/continuation bytes at every validity boundary of utf-8 (overlong, surrogates, > U+10FFFF), plus ASCII
UTF8_EDGE = [0x2c, 0x41, 0x7f, 0x80, 0x8f, 0x90, 0x9f, 0xa0, 0xbf, 0xc0, 0xc1, 0xc2, 0xc3, 0xdf, 0xe0, 0xe1, 0xec, 0xed, 0xee, 0xef,
             0xf0, 0xf1, 0xf3, 0xf4, 0xf5, 0xff]
TCHAR = set(b"!#$%&'*+-.^_`|~0123456789abcdefghijklmnopqrstuvwxyzABCDEFGHIJKLMNOPQRSTUVWXYZ")
PYWS = b" \t\r\n"


def canon(n: bytes) -> bytes:
    """ASCII lower-casing, spelled out (reference for the oracle; not the code under test)"""
    return bytes(c + 32 if 65 <= c <= 90 else c for c in n)


def nat(b: bytes, s):
    return b.decode("utf-8", "surrogateescape") if s else b


def tob(x) -> bytes:
    return x if isinstance(x, bytes) else x.encode("utf-8", "surrogateescape")


def arg_obj(x: str, s):
    """the Python object passed for a text argument of a case: `u<code points>` = that very str (may be unencodable);
    otherwise hex of bytes, passed as bytes (s=0) or as the str `_native` would give (s=1)"""
    if x.startswith("u"): return uncps(x[1:])
    return nat(unhx(x), s)


def arg_bytes(x: str):
    """bytes the argument stands for, or None when `_always_bytes` must raise UnicodeEncodeError"""
    if not x.startswith("u"): return unhx(x)
    try:
        return uncps(x[1:]).encode("utf-8", "surrogateescape")
    except UnicodeEncodeError:
        return None


def valid_field(n: bytes, v: bytes) -> bool:
    """RFC 7230 field: token name; value of VCHAR / obs-text / SP / HTAB without leading/trailing SP/HTAB"""
    return (len(n) > 0 and all(c in TCHAR for c in n)
            and all(c == 9 or 0x20 <= c <= 0x7e or c >= 0x80 for c in v)
            and (not v or (v[0] not in b" \t" and v[-1] not in b" \t")))


# ---- canonical rendering (must agree token by token with lean/Driver/C35.lean) -----------------------------------
def cps(x: str) -> str: return ".".join("%x" % ord(c) for c in x) if x else "-"
def uncps(t: str) -> str: return "" if t == "-" else "".join(chr(int(w, 16)) for w in t.split("."))
def r_text(x):
    """a value the API returned (or an argument): str as its code points, bytes as hex — the type is observable"""
    return "u" + cps(x) if isinstance(x, str) else "b" + hx(x)
def U(b: bytes) -> str:
    """reference rendering of the str the API returns for stored bytes (CPython's own codec, for the oracle only)"""
    return "u" + cps(b.decode("utf-8", "surrogateescape"))
def untext(t: str):
    return uncps(t[1:]) if t[0] == "u" else unhx(t[1:])
def r_list(xs): return " ".join(["list", str(len(xs))] + [r_text(x) for x in xs])
def r_pairs(ps): return " ".join(["pairs", str(len(ps))] + [r_text(x) for p in ps for x in p])
def sfold(vs): return ", ".join(v.decode("utf-8", "surrogateescape") for v in vs)
def r_fields(fs): return " ".join([str(len(fs))] + [hx(x) for f in fs for x in f])
def r_state(objs): return "S " + str(len(objs)) + "".join(" / " + r_fields(o.fields) for o in objs)


def parse_step(s):
    """inverse of the rendering: (ret tokens, [fields of every object])"""
    ret, _, st = s.partition(" S ")
    parts = st.split(" / ")
    objs = []
    for p in parts[1:]:
        t = p.split(" ")
        objs.append([(unhx(t[1 + 2 * i]), unhx(t[2 + 2 * i])) for i in range(int(t[0]))])
    return ret.split(" "), objs


def fold(vs): return b", ".join(vs)


class Check(PropertyCheck):
    prop = "C35"
    design_ref = "§5 C35"
    level_text = ("Lean theorems about the executable model of _MultiDict/Headers on fields : List (Bytes x Bytes), for ALL "
                  "field lists, keys, values and operation sequences (induction). Byte level: run_refines (every operation "
                  "sequence on a store of header objects yields the same return values and fields as the abstract ordered "
                  "multimap keyed by asciiLower(name)); the laws getAll_setAll, getAll_setAll_other, getItem_setItem, "
                  "untouched_order_and_spelling (+ _insert), del_removes_all_only, len_eq_distinct, "
                  "iter_first_occurrence_spelling, insert_at, add_at_end, copy_creates_equal_object, copy_independent, "
                  "items_total, clear_empties, eq_iff; touched fields: touched_spelling (reused positions keep their old "
                  "spelling, created fields carry the caller's), fresh_spelling, spelling_not_invented. str/bytes boundary "
                  "(transcribed utf-8 + surrogateescape codec): native_roundtrip (_always_bytes(_native(b)) = b for EVERY byte "
                  "string), encode_fold, api_items, api_state, api_unicode_error_no_change, api_returns (every str a Headers "
                  "call returns denotes the byte-level result of the lowered operation) and api_run_refines (for every call "
                  "sequence with str or bytes arguments that raises no UnicodeEncodeError, the trace of returned strs and of "
                  "all objects' fields is the abstract multimap's trace; api_returns_total / api_run_refines_total: the same "
                  "without the well-formedness hypothesis, aop_wf; api_update_partial). Decoder: nativeRange_eq_native — CPython's "
                  "range-based surrogateescape error handling, transcribed with utf8_decode's control flow, yields the same str as "
                  "the byte-at-a-time decoder for every byte string (nativeRange_roundtrip). Shared _MultiDict code: "
                  "headers_is_multidict_instance (the tied Headers model IS the generic _MultiDict at _kconv=lower, "
                  "_reduce_values=join), multidict_laws / multidict_iter_len_insert / multidict_fresh_key (the laws for ANY _kconv, "
                  "hence MultiDict and MultiDictView), view_carries_over and view_run_refines (any call history on a MultiDictView "
                  "equals the history on a free-standing MultiDict, PROVIDED getter(setter(fs)) = fs), view_run_refines_inv (the law "
                  "is only needed on an invariant the calls preserve) and request_cookies_view_refines (request.cookies over ANY "
                  "Cookie header values, any history of calls whose new keys are cookie names: the fields stay inside the class "
                  "C34's cookie codec round-trips, so the view IS a MultiDict on the parsed cookies; its two hypotheses are C34's "
                  "theorems), request_cookies_view_refines_closed (the same with the hypotheses discharged, audited by this check), "
                  "cookieRun_is_view_run (the function the `viewc` driver op executes is Gen.View.runOps with the cookie lens) and "
                  "viewc_is_multidict (what the viewc tie compares equals a MultiDict started with the given cookies). Constructor: ctor_typeerror_iff (TypeError exactly when a name "
                  "or value in `fields` is not bytes). HTTP/1: "
                  "parsed_headers_roundtrip / reparse_stable (no validity hypothesis: whatever _read_headers accepts, obs-fold "
                  "included, re-serialises and re-parses to itself) and http1_roundtrip(_general): for every field "
                  "list with non-empty colon-free LF-free names not starting with SP/HTAB and LF-free values without "
                  "leading/trailing SP/HTAB/CR/LF (a superset of RFC-valid fields) _read_headers(lines(bytes(h))) returns "
                  "exactly the fields. The model (API layer incl. Headers(fields, **kwargs), codec, parser) is tied to the real "
                  "code by running identical call sequences and comparing every returned str code point by code point, every "
                  "exception class and all fields tuples after every step; kind `view` drives real MultiDict, MultiDictView over a "
                  "plain parent, request.query and request.cookies against the generic model (request.cookies against the composed "
                  "model generic _MultiDict + C34 cookie codec, Cookie header values compared too); kind `ctor` drives "
                  "Headers(fields, **kwargs) with str/bytes fields.")
    level_note = ("Oracle shape: the seq/view laws are checked step by step against the implementation's OWN previously "
                  "observed fields (P := fields after the previous step, starting from the input-given initial fields) - sound by "
                  "induction over the steps since every observed state has itself been checked, but the expected value of step k is "
                  "a function of the implementation's output of step k-1, not of the inputs alone; the input-only prediction of the "
                  "whole trace is the model's (the tie). The rt/ctor/str clauses derive their expectation from the case alone. "
                  "trusted: Lean kernel; the model/implementation tie is differential (exhaustive over a 13-mutator alphabet up to "
                  "depth 3 quick / 4 thorough, codec exhaustive on all 1-byte and all <=3-byte strings over the utf-8 boundary "
                  "alphabet, random beyond). The decoder exists in two transcriptions, byte-at-a-time (`native`) and CPython's "
                  "range-based control flow (`nativeRange`); their equality is PROVED, and both are compared with the real _native "
                  "on every str case; that `nativeRange` matches CPython's C source is a hand transcription (validated). "
                  "h11's blank-line search in ReceiveBuffer.maybe_extract_lines is outside the model; only its split-on-LF / "
                  "strip-CR step is modelled (splitLines) and compared with the real h11 output (cases whose block contains a "
                  "premature blank line compare the serialised bytes only; they are counted as rt:premature-blank and never "
                  "arise for valid fields). MutableMapping mixins are modelled as their CPython definitions. Spelling of "
                  "TOUCHED fields: the statement constrains untouched fields only; the oracle reads 'preserves the spelling' as "
                  "'no field carries a spelling that was neither stored under that name before nor passed by the caller' "
                  "(catches seed c35-1) and leaves their position free; the exact placement is proved about the model "
                  "(touched_spelling) and enforced by the tie. Calls with unencodable str arguments are outside the statement: "
                  "the oracle demands UnicodeEncodeError and unchanged fields, the model predicts the partial effect of update. "
                  "MultiDictView: the generic _MultiDict model is now tied at _kconv = id on MultiDict, a MultiDictView over a plain "
                  "parent (arbitrary str keys/values), request.query and request.cookies. For request.cookies the getter/setter law "
                  "is C34's proved cookie round trip: request_cookies_view_refines states the two C34 theorems as hypotheses, "
                  "request_cookies_view_refines_closed discharges them with Lemmas/C35CookieCodec.lean, a verbatim copy of the "
                  "cookie sections of Props/C34.lean (proofs about Model/C34.lean only), so that this check builds and axiom-audits "
                  "the closed theorem without importing another property's proof file that is still edited; the cookie "
                  "transcription itself (Model/C34.lean) is tied to mitmproxy.net.http.cookies by C34's check and, for the values "
                  "used here, by the viewc cases (Cookie header strings compared). For request.query the law stays a hypothesis: urllib's urlencode/parse_qsl are not "
                  "transcribed (the query cases use alphanumeric keys/values, compared with the identity-parent model). The `view` "
                  "oracle applies the multimap laws with exact keys; this is the sibling classes' contract, not a clause of C35's "
                  "statement. Response.cookies (values are (value, attrs) tuples) and urlencoded_form/multipart_form views are not "
                  "driven here (C34).")
    technique = ("Lean 4 proof (refinement to an abstract ordered multimap at byte and at str/API level, induction over fields/op "
                 "sequences; utf-8/surrogateescape codec round trip) + exhaustive/random call-sequence correspondence with the "
                 "real Headers class, _native/_always_bytes and _read_headers")
    rule = ("seq cases: every sequence of <=3 (quick) / <=4 (thorough) mutating ops from a 13-op alphabet over names {a,A,b}, "
            "two start states, followed by a full query probe; then random sequences of <=12 calls over all 23 operations, "
            "names differing only in case / non-ASCII / malformed utf-8 / empty, up to 3 objects related by copy, arguments passed as "
            "bytes, as the str _native gives, or as arbitrary str incl. lone surrogates; 15% constructed with **kwargs. "
            "str/enc cases: all 1-byte strings, all 2- and 3-byte strings over the utf-8 boundary alphabet, random soups; code "
            "point lists around every encoder boundary. rt cases: RFC-valid field lists (70%), single-byte mutations (20%), "
            "raw (10%). rd cases: random line lists incl. empty lines, continuation lines, missing colon. view cases (own random "
            "stream, 1 in 10): every <=2-mutator sequence from a 9-op alphabet on each of MultiDict / MultiDictView(holder) / "
            "request.query / request.cookies, then random histories of <=8 calls; ctor cases (1 in 40): fields with str or bytes "
            "entries, optional kwargs. distinct = distinct "
            "case; non-trivial = at least one mutating op or kwargs (seq) / non-empty input (others).")
    budget = {"quick": 23000, "thorough": 660000}
    time_budget = {"quick": 15, "thorough": 420}
    fingerprints = [
        "mitmproxy.coretypes.multidict:_MultiDict.__getitem__", "mitmproxy.coretypes.multidict:_MultiDict.__setitem__",
        "mitmproxy.coretypes.multidict:_MultiDict.__delitem__", "mitmproxy.coretypes.multidict:_MultiDict.__iter__",
        "mitmproxy.coretypes.multidict:_MultiDict.__len__", "mitmproxy.coretypes.multidict:_MultiDict.__eq__",
        "mitmproxy.coretypes.multidict:_MultiDict.get_all", "mitmproxy.coretypes.multidict:_MultiDict.set_all",
        "mitmproxy.coretypes.multidict:_MultiDict.add", "mitmproxy.coretypes.multidict:_MultiDict.insert",
        "mitmproxy.coretypes.multidict:_MultiDict.keys", "mitmproxy.coretypes.multidict:_MultiDict.values",
        "mitmproxy.coretypes.multidict:_MultiDict.items", "mitmproxy.coretypes.multidict:MultiDict.__init__",
        "mitmproxy.coretypes.multidict:MultiDict.get_state", "mitmproxy.coretypes.multidict:MultiDict.from_state",
        "mitmproxy.coretypes.serializable:Serializable.copy",
        "mitmproxy.http:Headers.__init__", "mitmproxy.http:Headers._reduce_values", "mitmproxy.http:Headers._kconv",
        "mitmproxy.http:Headers.__bytes__", "mitmproxy.http:Headers.__delitem__", "mitmproxy.http:Headers.__iter__",
        "mitmproxy.http:Headers.get_all", "mitmproxy.http:Headers.set_all", "mitmproxy.http:Headers.insert",
        "mitmproxy.http:Headers.items", "mitmproxy.http:_native", "mitmproxy.http:_always_bytes",
        "mitmproxy.utils.strutils:always_bytes",
        "mitmproxy.coretypes.multidict:MultiDict._reduce_values", "mitmproxy.coretypes.multidict:MultiDict._kconv",
        "mitmproxy.coretypes.multidict:MultiDictView.__init__", "mitmproxy.coretypes.multidict:MultiDictView._kconv",
        "mitmproxy.coretypes.multidict:MultiDictView._reduce_values", "mitmproxy.coretypes.multidict:MultiDictView.fields",
        "mitmproxy.http:Request._get_cookies", "mitmproxy.http:Request._set_cookies",
        "mitmproxy.http:Request._get_query", "mitmproxy.http:Request._set_query",
        "mitmproxy.net.http.http1.read:_read_headers",
    ]
    trusted_base = ["CPython bytes.lower/strip/split/join, tuple slicing and collections.abc.MutableMapping mixins as the "
                    "primitives the model transcribes",
                    "h11 ReceiveBuffer.maybe_extract_lines: blank-line search assumed to cut at the terminating empty line "
                    "(checked per case; its split/strip step is modelled)"]
    parallel = True

    def setup(self, tier):
        # the quick tier is faster in-process (20 000 cases take ~5 s); the fork pool only pays off for the thorough tier
        self.parallel = (tier == "thorough")
        self.selftest()

    def selftest(self):
        """audit of every abstain branch (AssertionError here ends the run as infrastructure failure, never as a pass):
        no generated case may be skipped or lose an operation, every case has a model line, and the oracle must
        reject hand-made wrong observations in the classes where it makes reduced demands."""
        from common.prng import Rng
        rng = Rng(424242)
        for i in range(400):
            c = self._rand_seq(rng) if i % 4 else (self._rt(rng) if i % 8 else self._rd(rng))
            if i % 5 == 0: c = self._view_case(rng)
            if c["kind"] == "seq":
                assert len(self._norm_ops(c)) == len(c["ops"]), ("generated op dropped", c)
            self.impl(c)                                # a Skip would propagate and end the run
            assert self.model_lines(c), ("no model line", c)
        st = lambda fs: "S 1 / " + r_fields(fs)
        xa = [["782d61", "30"]]
        sa = {"kind": "seq", "init": xa, "ops": [["sa", 0, 0, "582d41", ["31", "32"]]]}
        good = ["none " + st([(b"x-a", b"1"), (b"X-A", b"2")])]
        bad = ["none " + st([(b"x-a", b"1"), (b"x-a", b"2")])]                       # seed c35-1
        assert not self.oracle(sa, good) and self.oracle(sa, bad), "touched-spelling clause"
        gi = {"kind": "seq", "init": [["61", "ff"]], "ops": [["gi", 0, 0, "41"]]}
        assert not self.oracle(gi, ["val udcff " + st([(b"a", b"\xff")])])
        assert self.oracle(gi, ["val uff " + st([(b"a", b"\xff")])]), "a wrongly decoded str must be rejected"
        assert self.oracle(gi, ["val bff " + st([(b"a", b"\xff")])]), "bytes where the API returns str must be rejected"
        un = {"kind": "seq", "init": [["61", "31"]], "ops": [["si", 0, 0, "ud800", "32"]]}
        assert not self.oracle(un, ["unicodeerror " + st([(b"a", b"1")])])
        assert self.oracle(un, ["none " + st([(b"a", b"1")])]), "unencodable key: anything but UnicodeEncodeError is rejected"
        assert self.oracle(un, ["unicodeerror " + st([(b"a", b"2")])]), "UnicodeEncodeError must not change fields"
        ok = {"kind": "seq", "init": [["61", "31"]], "ops": [["si", 0, 0, "41", "32"]]}
        assert self.oracle(ok, ["unicodeerror " + st([(b"a", b"1")])]), "spurious UnicodeEncodeError is rejected"
        rt = {"kind": "rt", "fields": [["61", "31"]]}
        assert self.oracle(rt, {"bytes": "613a20310d0a", "lines": None, "res": None}), "valid fields: abstained round trip is a failure"

    # ------------------------------------------------------------------ generation
    def _small_alphabet(self):
        ks = [b"a", b"A", b"b"]
        al = []
        for k in ks:
            al.append(["si", 0, 0, hx(k), hx(b"9")])
            al.append(["di", 0, 0, hx(k)])
        al.append(["sa", 0, 0, hx(b"A"), [hx(b"7"), hx(b"8")]])
        al.append(["sa", 0, 1, hx(b"a"), []])
        al.append(["sa", 0, 0, hx(b"B"), [hx(b"7"), hx(b"8"), hx(b"6")]])
        al.append(["ad", 0, 1, hx(b"A"), hx(b"5")])
        al.append(["in", 0, 0, 1, hx(b"b"), hx(b"4")])
        al.append(["in", 0, 0, -1, hx(b"a"), hx(b"4")])
        al.append(["pi", 0, 0])
        return al

    def _probe(self, t=0):
        p = []
        for k in (b"a", b"B"):
            p.append(["gi", t, 1, hx(k)]); p.append(["ga", t, 0, hx(k)])
        p += [["co", t, 0, hx(b"A")], ["it", t, 0], ["ln", t, 0], ["is", t, 0], ["by", t, 0]]
        return p

    def _small_scope(self, depth):
        al = self._small_alphabet()
        inits = [[], [[hx(b"a"), hx(b"1")], [hx(b"B"), hx(b"2")], [hx(b"A"), hx(b"3")], [hx(b"b"), hx(b"4")]]]
        probe = self._probe()
        for d in range(0, depth + 1):
            for init in inits:
                for seq in itertools.product(al, repeat=d):
                    yield {"kind": "seq", "init": init, "ops": [list(o) for o in seq] + probe}

    def _utf8ish(self, rng, n):
        """byte soup around the utf-8 validity boundaries"""
        return bytes(rng.pick(UTF8_EDGE) if rng.chance(0.8) else rng.getrandbits(8) for _ in range(n))

    def _rand_cps(self, rng):
        pool = [0x61, 0x41, 0x2c, 0x20, 0x7f, 0x80, 0xe9, 0x7ff, 0x800, 0xd7ff, 0xd800, 0xdbff, 0xdc00, 0xdc7f, 0xdc80, 0xdcc3, 0xdca9,
                0xdcff, 0xdd00, 0xdfff, 0xe000, 0xffff, 0x10000, 0x1f600, 0x10ffff]
        return ".".join("%x" % rng.pick(pool) for _ in range(rng.randint(1, 4)))

    def _rand_name(self, rng):
        if rng.chance(0.75): return rng.pick(NAMES)
        if rng.chance(0.8): return rng.pick(NAMES_X)
        return rng.bytes_(rng.randint(0, 3))

    def _rand_value(self, rng):
        if rng.chance(0.7): return rng.pick(VALUES)
        if rng.chance(0.8): return rng.pick(VALUES_X)
        return rng.bytes_(rng.randint(0, 4))

    def _rand_op(self, rng, nobj):
        t = rng.randrange(nobj)
        s = rng.randint(0, 1)
        if rng.chance(0.55):
            o = rng.pick(MUTATORS)
            if o == "cp" and nobj >= MAXOBJ: o = "si"
        else:
            o = rng.pick(QUERIES)
        op = [o, t, s]
        for c in SHAPES[o]:
            if c in "kv" and rng.chance(0.04): op.append("u" + self._rand_cps(rng))        # an arbitrary str, maybe unencodable
            elif c in "kv" and rng.chance(0.08): op.append(hx(self._utf8ish(rng, rng.randint(1, 4))))
            elif c == "k": op.append(hx(self._rand_name(rng)))
            elif c == "v": op.append(hx(self._rand_value(rng)))
            elif c == "V": op.append([hx(self._rand_value(rng)) for _ in range(rng.pick([0, 1, 1, 2, 2, 3, 4]))])
            elif c == "i": op.append(rng.randint(-7, 7) if rng.chance(0.9) else rng.pick([-100, 100, 2 ** 40, -2 ** 40]))
            elif c == "u": op.append(rng.randrange(nobj))
            elif c == "m": op.append(rng.randint(0, 1))
            elif c == "P": op.append([[hx(self._rand_name(rng)), hx(self._rand_value(rng))] for _ in range(rng.randint(0, 3))])
        return op

    def _rand_seq(self, rng):
        init = [[hx(self._rand_name(rng)), hx(self._rand_value(rng))] for _ in range(rng.pick([0, 1, 2, 3, 3, 4, 5, 6]))]
        ops, nobj = [], 1
        for _ in range(rng.randint(1, 12)):
            op = self._rand_op(rng, nobj)
            if op[0] == "cp": nobj += 1
            ops.append(op)
        case = {"kind": "seq", "init": init, "ops": ops}
        if rng.chance(0.15):
            kn = [b"a_b", b"A", b"set_cookie", b"x", b"a-b", b"b"]
            case["kw"] = [["u" + (self._rand_cps(rng) if rng.chance(0.1) else cps(rng.pick(kn).decode())),
                           ("u" + self._rand_cps(rng)) if rng.chance(0.1) else hx(self._rand_value(rng))]
                          for _ in range(rng.randint(1, 3))]
            if len({k for k, _ in case["kw"]}) != len(case["kw"]): del case["kw"]          # Python keywords are distinct
        return case

    def _valid_name(self, rng):
        if rng.chance(0.5): return rng.pick([b"Host", b"host", b"Accept", b"Set-Cookie", b"X-a", b"a", b"A", b"Content-Length"])
        tc = sorted(TCHAR)
        return bytes(rng.pick(tc) for _ in range(rng.randint(1, 8)))

    def _valid_value(self, rng):
        n = rng.pick([0, 0, 1, 2, 3, 5, 9, 20])
        if n == 0: return b""
        mid = bytes(rng.pick([9, 0x20, 0x3a, 0x2c, 0x0b, 0x0c]) if rng.chance(0.25) else rng.pick(range(0x21, 0x100)) for _ in range(n))
        mid = bytes(c for c in mid if c == 9 or 0x20 <= c <= 0x7e or c >= 0x80)
        return mid.strip(b" \t")

    def _rt(self, rng):
        fs = [[self._valid_name(rng), self._valid_value(rng)] for _ in range(rng.pick([0, 1, 1, 2, 3, 4, 6]))]
        r = rng.random()
        if r < 0.7 or not fs:
            pass
        elif r < 0.9:                                   # single-byte mutation of one field
            i, j = rng.randrange(len(fs)), rng.randint(0, 1)
            b = bytearray(fs[i][j]); c = rng.pick([0x0a, 0x0d, 0x20, 0x09, 0x3a, 0x0b, 0x0c, 0x00, 0xff])
            pos = rng.pick([0, len(b), rng.randint(0, len(b))])
            if rng.chance(0.5) or not b: b.insert(pos, c)
            else: b[min(pos, len(b) - 1)] = c
            fs[i][j] = bytes(b)
        else:
            fs = [[rng.bytes_(rng.randint(0, 4)), rng.bytes_(rng.randint(0, 5))] for _ in range(rng.randint(1, 3))]
        return {"kind": "rt", "fields": [[hx(n), hx(v)] for n, v in fs]}

    def _rd(self, rng):
        pool = [b"a: 1", b"A:2", b"b : 3", b" cont", b"\tcont2 ", b"", b"nocolon", b": novalue", b":", b"x:  y  ", b"k:v:w",
                b"\x0bvt: 1", b"n:\x0c v \r", b"a:", b" ", b"\t"]
        ls = [rng.pick(pool) if rng.chance(0.8) else bytes(rng.pick(b" \t:a\r\n\x0b1") for _ in range(rng.randint(0, 6)))
              for _ in range(rng.pick([0, 1, 2, 3, 4]))]
        return {"kind": "rd", "lines": [hx(l) for l in ls]}

    def _codec_scope(self, tier):
        yield {"kind": "str", "data_hex": "-"}
        for a in range(256): yield {"kind": "str", "data_hex": hx(bytes([a]))}
        edge = UTF8_EDGE if tier == "thorough" else UTF8_EDGE[::2]
        for n in (2, 3):
            for t in itertools.product(edge, repeat=n): yield {"kind": "str", "data_hex": hx(bytes(t))}
        for c in (0, 0x7f, 0x80, 0x7ff, 0x800, 0xd7ff, 0xd800, 0xdc7f, 0xdc80, 0xdcff, 0xdd00, 0xdfff, 0xe000, 0xffff, 0x10000, 0x10ffff):
            yield {"kind": "enc", "cps": "%x" % c}

    # ---- kind "view" (own random stream: the cases of the other kinds stay exactly what they were) ----
    def _view_arg(self, rng, target, value):
        if target in ("query", "cookies"):
            # only texts the parent's codec (url.encode/decode, cookie header) is known to give back unchanged: whether
            # getter(setter(fs)) == fs holds beyond them is property C34's question, not this check's
            pool = ["a", "A", "b", "k1", "Set", "x"] if not value else ["1", "2", "v3", "A", "a", ""]
            # request.cookies is modelled WITH its codec (C34's cookie header model as getter/setter), so values that need
            # quoting are fair game there; names stay cookie names (the class `request_cookies_view_refines` is proved for)
            if value and target == "cookies": pool = pool + ["x;y", "a b", "q\"q", "a=b", "\xe9", "t\\"]
            return "u" + cps(rng.pick(pool))
        pool = ["a", "A", "b", "", "\xe9", "\xc9", "a b", "a=b", "x;y", "\udcff", "\U0001f600", "k&1"]
        return "u" + cps(rng.pick(pool[:3]) if rng.chance(0.6) else rng.pick(pool))

    def _view_op(self, rng, target):
        o = rng.pick(["ga", "gi", "di", "si", "si", "ad", "ad", "in", "sa", "sa", "it", "ln"])
        op = [o]
        for c in VSHAPES[o]:
            if c == "k": op.append(self._view_arg(rng, target, False))
            elif c == "v": op.append(self._view_arg(rng, target, True))
            elif c == "V": op.append([self._view_arg(rng, target, True) for _ in range(rng.pick([0, 1, 1, 2, 3]))])
            elif c == "i": op.append(rng.randint(-5, 5) if rng.chance(0.9) else rng.pick([-100, 100]))
        return op

    def _view_case(self, rng):
        target = rng.pick(VTARGETS)
        init = [[self._view_arg(rng, target, False), self._view_arg(rng, target, True)] for _ in range(rng.pick([0, 1, 2, 3, 4]))]
        return {"kind": "view", "target": target, "init": init, "ops": [self._view_op(rng, target) for _ in range(rng.randint(1, 8))]}

    def _ctor_case(self, rng):
        """Headers(fields, **kwargs) with fields that may contain str (TypeError) — kind "ctor" """
        def a(value):
            b = self._rand_value(rng) if value else self._rand_name(rng)
            return ("u" + cps(b.decode("utf-8", "surrogateescape"))) if rng.chance(0.12) else hx(b)
        case = {"kind": "ctor", "fields": [[a(False), a(True)] for _ in range(rng.pick([0, 1, 2, 3]))]}
        if rng.chance(0.4):
            kn = ["a_b", "A", "set_cookie", "x"]
            case["kw"] = [["u" + (self._rand_cps(rng) if rng.chance(0.1) else cps(k)),
                           ("u" + self._rand_cps(rng)) if rng.chance(0.1) else hx(self._rand_value(rng))]
                          for k in rng.sample(kn, rng.randint(1, 2))]
        return case

    def _view_scope(self):
        al = [["si", "u61", "u39"], ["si", "u41", "u39"], ["sa", "u61", ["u37", "u38"]], ["sa", "u61", []], ["di", "u61"], ["di", "u41"],
              ["ad", "u61", "u35"], ["in", 1, "u62", "u34"], ["in", -1, "u41", "u34"]]
        probe = [["gi", "u61"], ["ga", "u61"], ["gi", "u41"], ["it"], ["ln"]]
        init = [["u61", "u31"], ["u41", "u32"], ["u61", "u33"]]
        for target in VTARGETS:
            for d in (0, 1, 2):
                for seq in itertools.product(al, repeat=d):
                    yield {"kind": "view", "target": target, "init": init, "ops": [list(o) for o in seq] + probe}

    def generate(self, rng, tier):
        from common.prng import Rng
        import zlib
        vrng = Rng(zlib.crc32(str(rng.getstate()[1][:8]).encode()))     # derived without drawing from `rng`
        yield from self._view_scope()
        yield from self._codec_scope(tier)
        yield from self._small_scope(3 if tier == "quick" else 4)
        n = 0
        while True:
            n += 1
            if n % 10 == 0: yield self._view_case(vrng)
            if n % 40 == 0: yield self._ctor_case(vrng)
            r = rng.random()
            if r < 0.6: yield self._rand_seq(rng)
            elif r < 0.75: yield self._rt(rng)
            elif r < 0.82: yield self._rd(rng)
            elif r < 0.94: yield {"kind": "str", "data_hex": hx(self._utf8ish(rng, rng.randint(1, 9)))}
            else: yield {"kind": "enc", "cps": self._rand_cps(rng)}

    # ------------------------------------------------------------------ implementation runner
    def _norm_ops(self, case):
        """resolve object indices against the number of live objects (so that shrunk cases stay meaningful)"""
        nobj, out = 1, []
        for op in case["ops"]:
            o = op[0]
            if o not in SHAPES or len(op) != 3 + len(SHAPES[o]): raise Skip()
            op = list(op); op[1] = op[1] % nobj
            if o == "eq": op[3] = op[3] % nobj
            if o == "cp":
                if nobj >= MAXOBJ: continue
                nobj += 1
            out.append(op)
        return out

    def _run_op(self, objs, op):
        o, t, s = op[0], op[1], op[2]
        h = objs[t]
        a = op[3:]
        K = lambda x: arg_obj(x, s)
        try:
            if o == "gi": return "val " + r_text(h[K(a[0])])
            if o == "ge":
                r = h.get(K(a[0])); return "nothing" if r is None else "some " + r_text(r)
            if o == "ga": return r_list(h.get_all(K(a[0])))
            if o == "co": return "true" if K(a[0]) in h else "false"
            if o == "si": h[K(a[0])] = K(a[1]); return "none"
            if o == "sa": h.set_all(K(a[0]), [K(v) for v in a[1]]); return "none"
            if o == "di": del h[K(a[0])]; return "none"
            if o == "ad": h.add(K(a[0]), K(a[1])); return "none"
            if o == "in": h.insert(a[0], K(a[1]), K(a[2])); return "none"
            if o == "it": return r_list(list(h))
            if o == "ln": return "int %d" % len(h)
            if o == "eq": return "true" if h == objs[a[0]] else "false"
            if o == "cp": objs.append(h.copy()); return "obj %d" % (len(objs) - 1)
            if o == "im": return r_pairs(list(h.items(multi=True)))
            if o == "is": return r_pairs(list(h.items()))
            if o == "ks": return r_list(list(h.keys(multi=bool(a[0]))))
            if o == "vs": return r_list(list(h.values(multi=bool(a[0]))))
            if o == "po": return "val " + r_text(h.pop(K(a[0])))
            if o == "pi":
                k, v = h.popitem(); return "pair %s %s" % (r_text(k), r_text(v))
            if o == "sd": return "val " + r_text(h.setdefault(K(a[0]), K(a[1])))
            if o == "cl": h.clear(); return "none"
            if o == "up": h.update([(K(k), K(v)) for k, v in a[0]]); return "none"
            if o == "by": return "bytes " + hx(bytes(h))
        except KeyError:
            return "keyerror"
        except UnicodeEncodeError:                  # _always_bytes on a str with a lone surrogate outside U+DC80..DCFF
            return "unicodeerror"
        except Exception as e:                      # anything else is not an allowed outcome: the oracle flags it
            return "exc:" + type(e).__name__
        raise Skip()

    def impl(self, case):
        kind = case["kind"]
        if kind == "seq":
            kw = case.get("kw")
            try:
                objs = [Headers([(unhx(n), unhx(v)) for n, v in case["init"]],
                                **({uncps(n[1:]): arg_obj(v, 1) for n, v in kw} if kw else {}))]
            except UnicodeEncodeError:
                return ["unicodeerror"]
            steps = ["init " + r_state(objs)] if kw else []
            for op in self._norm_ops(case):
                r = self._run_op(objs, op)
                steps.append(r + " " + r_state(objs))
            return steps
        if kind == "rt":
            fs = [(unhx(n), unhx(v)) for n, v in case["fields"]]
            block = bytes(Headers(fs))
            buf = ReceiveBuffer(); buf += b"GET / HTTP/1.1\r\n" + block + b"\r\n"
            lines = buf.maybe_extract_lines()
            if lines is None or len(buf) != 0:
                return {"bytes": hx(block), "lines": None, "res": None}      # premature blank line inside the block
            lines = [bytes(x) for x in lines][1:]
            return {"bytes": hx(block), "lines": [hx(l) for l in lines], "res": self._read(lines)}
        if kind == "rd":
            return {"res": self._read([unhx(l) for l in case["lines"]])}
        if kind == "str":                               # _native, and _always_bytes on its result
            b = unhx(case["data_hex"])
            st = http_native(b)
            return {"native": "u" + cps(st), "back": hx(http_always_bytes(st))}
        if kind == "view":
            return self._view_impl(case)
        if kind == "ctor":
            try:
                h = Headers([(arg_obj(k, 0), arg_obj(v, 0)) for k, v in case["fields"]],
                            **({uncps(n[1:]): arg_obj(v, 1) for n, v in case["kw"]} if case.get("kw") else {}))
            except TypeError:
                return {"ctor": "typeerror"}
            except UnicodeEncodeError:
                return {"ctor": "unicodeerror"}
            except Exception as e:
                return {"ctor": "exc:" + type(e).__name__}
            return {"ctor": "ok " + r_fields(h.fields)}
        if kind == "enc":                               # _always_bytes on an arbitrary str
            try:
                return {"enc": "b" + hx(http_always_bytes(uncps(case["cps"])))}
            except UnicodeEncodeError:
                return {"enc": "unicodeerror"}
        raise Skip()

    @staticmethod
    def _view_norm(case):
        if case.get("target") not in VTARGETS: raise Skip()
        for op in case["ops"]:
            if op[0] not in VSHAPES or len(op) != 1 + len(VSHAPES[op[0]]): raise Skip()
        return case["ops"]

    def _view_impl(self, case):
        from mitmproxy.test import tutils
        init = [(uncps(k[1:]), uncps(v[1:])) for k, v in case["init"]]
        target = case["target"]
        ops = self._view_norm(case)
        if target == "holder":
            class Parent: pass
            par = Parent(); par.f = tuple(init)
            def setter(v): par.f = tuple(tuple(x) for x in v)
            view = lambda: MultiDictView(lambda: par.f, setter)
        elif target == "multidict":
            md = MultiDict(init)
            view = lambda: md
        else:
            req = tutils.treq(path=b"/p")
            req.headers = Headers()
            if target == "query":
                req.query = init
                view = lambda: req.query
            else:
                req.cookies = init
                view = lambda: req.cookies
        rf = lambda fs: " ".join([str(len(fs))] + [r_text(x) for f in fs for x in (f[0], f[1])])
        steps = []
        for op in ops:
            v = view()
            o, a = op[0], [x if not isinstance(x, str) else uncps(x[1:]) for x in op[1:]]
            try:
                if o == "ga": r = r_list(v.get_all(a[0]))
                elif o == "gi": r = "val " + r_text(v[a[0]])
                elif o == "di": del v[a[0]]; r = "none"
                elif o == "si": v[a[0]] = a[1]; r = "none"
                elif o == "ad": v.add(a[0], a[1]); r = "none"
                elif o == "in": v.insert(a[0], a[1], a[2]); r = "none"
                elif o == "sa": v.set_all(a[0], [uncps(x[1:]) for x in op[2]]); r = "none"
                elif o == "it": r = r_list(list(v))
                elif o == "ln": r = "int %d" % len(v)
            except KeyError:
                r = "keyerror"
            except Exception as e:
                r = "exc:" + type(e).__name__
            extra = ""
            if target == "cookies":                     # the parent's state is observable too: the Cookie header values
                hv = req.headers.get_all("cookie")
                extra = " H " + " ".join([str(len(hv))] + [r_text(x) for x in hv])
            steps.append(r + " F " + rf(view().fields) + extra)
        return steps

    @staticmethod
    def _view_law(op, R, p, q):
        """the multimap reading for the classes that share _MultiDict's code: keys compare exactly, lookup gives the
        first value (not a clause of C35's statement, which is about header collections; same laws, `_kconv = id`)"""
        if R.startswith("exc:"): return "unexpected exception " + R
        o = op[0]
        a = [x if not isinstance(x, str) else uncps(x[1:]) for x in op[1:]]
        if o in ("ga", "gi", "di", "si", "sa"): k = a[0]; vs = [v for n, v in p if n == k]
        first = []
        for n, _ in p:
            if n not in first: first.append(n)
        def pure(want):
            if q != p: return "a query changed the fields"
            return None if R == want else f"returned {R!r}, an ordered multimap gives {want!r}"
        if o == "ga": return pure(r_list(vs))
        if o == "gi": return pure("val " + r_text(vs[0]) if vs else "keyerror")
        if o == "it": return pure(r_list(first))
        if o == "ln": return pure("int %d" % len(first))
        if o == "di":
            if not vs: return None if (R == "keyerror" and q == p) else f"missing key: returned {R}"
            return None if (R == "none" and q == [f for f in p if f[0] != k]) else "delete must remove all fields of that key and only those"
        if o in ("si", "sa"):
            new = [a[1]] if o == "si" else [uncps(x[1:]) for x in op[2]]
            if R != "none": return f"returned {R}"
            if [v for n, v in q if n == k] != new: return "get_all after assignment does not give the assigned values"
            if [f for f in q if f[0] != k] != [f for f in p if f[0] != k]: return "untouched fields changed"
            return None
        if o == "ad": return None if (R == "none" and q == p + [(a[0], a[1])]) else "add did not append"
        if o == "in":
            i = a[0]
            return None if (R == "none" and q == p[:i] + [(a[1], a[2])] + p[i:]) else "insert did not place the field at the requested position"
        return "unknown op"

    @staticmethod
    def _read(lines):
        try:
            h = h1read._read_headers(lines)
        except ValueError:
            return "valueerror"
        except IndexError:
            return "indexerror"
        except Exception as e:
            return "exc:" + type(e).__name__
        return "ok " + r_fields(h.fields)

    # ------------------------------------------------------------------ oracle (no model involved)
    def oracle(self, case, obs):
        kind = case["kind"]
        if kind == "rt":
            # "Serialising valid header fields as HTTP/1 and parsing them back yields the same fields."
            fs = [(unhx(n), unhx(v)) for n, v in case["fields"]]
            if all(valid_field(n, v) for n, v in fs):
                want = "ok " + r_fields(fs)
                if obs["res"] != want:
                    return [f"round trip of valid fields: got {obs['res']} want {want}"]
            elif isinstance(obs["res"], str) and obs["res"].startswith("exc:"):
                return [f"unexpected exception {obs['res']}"]
            return []
        if kind == "rd":
            return [f"unexpected exception {obs['res']}"] if obs["res"].startswith("exc:") else []
        if kind == "str":
            # what the API hands out for stored bytes must denote those bytes again when handed back as a key or value
            return [] if obs["back"] == case["data_hex"] else [f"_always_bytes(_native(b)) = {obs['back']} for b = {case['data_hex']}"]
        if kind == "enc":
            return []
        if kind == "ctor":
            # "All names and values must be bytes" (Headers.__init__ docstring): str in `fields` is refused, never stored
            bad = any(x.startswith("u") for f in case["fields"] for x in f)
            r = obs["ctor"]
            if r.startswith("exc:"): return ["unexpected exception " + r]
            if bad != (r == "typeerror"): return [f"fields {'with' if bad else 'without'} str: constructor gave {r}"]
            return []
        if kind == "view":
            pf = lambda st: [(untext(t[1 + 2 * i]), untext(t[2 + 2 * i])) for t in [st.partition(" F ")[2].partition(" H ")[0].split(" ")] for i in range(int(t[0]))]
            P = [(uncps(k[1:]), uncps(v[1:])) for k, v in case["init"]]
            for idx, (op, st) in enumerate(zip(self._view_norm(case), obs)):
                Q = pf(st)
                f = self._view_law(op, st.partition(" F ")[0], P, Q)
                if f: return [f"{case['target']} step {idx} {op[0]}: {f}"]
                P = Q
            return []
        # "the observable results match an ordered multimap with case-insensitive names that preserves the spelling
        #  and relative order of untouched fields" — checked law by law against the implementation's own pre-state
        fails = []
        P = [[(unhx(n), unhx(v)) for n, v in case["init"]]]
        if case.get("kw"):
            # Headers(fields, **kwargs): "Additional headers to set. Will overwrite existing values from `fields`" with
            # underscores in the names turned into dashes — an assignment per keyword
            kws = [(arg_bytes(n), arg_bytes(v)) for n, v in case["kw"]]
            if any(x is None for pr in kws for x in pr):
                return [] if obs == ["unicodeerror"] else [f"constructor with unencodable keyword: {obs[:1]}"]
            if obs == ["unicodeerror"]: return ["constructor raised UnicodeEncodeError although every keyword is encodable"]
            ret0, Q0 = parse_step(obs[0])
            names = [n.replace(b"_", b"-") for n, _ in kws]
            q0 = Q0[0]
            for n, v in zip(names, [v for _, v in kws]):
                lastv = [w for m, w in zip(names, [v for _, v in kws]) if m == n][-1]
                if [w for m, w in q0 if canon(m) == canon(n)] != [lastv] and len({canon(m) for m in names}) == len(names):
                    return [f"constructor keyword {n!r} does not hold its value"]
            keep = lambda fs: [f for f in fs if canon(f[0]) not in [canon(m) for m in names]]
            if keep(q0) != keep(P[0]): return ["constructor keywords changed fields of other names"]
            P = Q0; obs = obs[1:]
        for idx, (op, step) in enumerate(zip(self._norm_ops(case), obs)):
            ret, Q = parse_step(step)
            f = self._law(op, ret, P, Q)
            if f:
                fails.append(f"step {idx} {op[0]}: {f}")
                break
            P = Q
        return fails

    @staticmethod
    def _law(op, ret, P, Q):
        o, t = op[0], op[1]
        a = op[3:]
        if ret[0].startswith("exc:"): return "unexpected exception " + ret[0]
        D = lambda b: b.decode("utf-8", "surrogateescape")         # the str the API shows for stored bytes
        # text arguments as the bytes they stand for (None: a str that _always_bytes cannot encode)
        raw = list(a)
        a = []
        for c, x in zip(SHAPES[o], raw):
            if c in "kv": a.append(arg_bytes(x))
            elif c == "V": a.append([arg_bytes(v) for v in x])
            elif c == "P": a.append([(arg_bytes(k), arg_bytes(v)) for k, v in x])
            else: a.append(x)
        flat = [y for c, x in zip(SHAPES[o], a) for y in ([x] if c in "kv" else x if c == "V" else [z for pr in x for z in pr] if c == "P" else [])]
        sd_unused_default = (o == "sd" and a[0] is not None and a[1] is None
                             and any(canon(n) == canon(a[0]) for n, _ in P[t]))
        if sd_unused_default: a[1] = b""
        elif any(y is None for y in flat):
            # outside the statement (no multimap has such a key); the only demand: UnicodeEncodeError, nothing else changes
            if ret[0] != "unicodeerror": return f"unencodable str argument: returned {' '.join(ret)}"
            if o != "up" and Q != P: return "a call that raised UnicodeEncodeError changed the fields"
            return None
        if ret[0] == "unicodeerror": return "UnicodeEncodeError although every argument is encodable"
        want_n = len(P) + (1 if o == "cp" else 0)
        if len(Q) != want_n: return "number of objects changed"
        for j in range(len(P)):
            if j != t and Q[j] != P[j]: return f"object {j} changed by an operation on object {t}"
        p, q = P[t], Q[t]
        R = " ".join(ret)
        first = []                                   # (spelling of first occurrence, canonical name), in order
        for n, _ in p:
            if canon(n) not in [c for _, c in first]: first.append((n, canon(n)))
        def allv(fs, k): return [v for n, v in fs if canon(n) == canon(k)]
        def others(fs, ks): return [f for f in fs if canon(f[0]) not in [canon(k) for k in ks]]
        def invented(k):
            # "an ordered multimap ... that preserves the spelling": a multimap reports the names that were PUT IN.  The
            # statement fixes the place of untouched fields only, so the position of touched fields is left free here
            # (the tie pins it); but every field named k after an assignment must carry either the caller's spelling or
            # the spelling of a distinct field of that name that was there before — a spelling is never made up or
            # duplicated (seed c35-1: set_all(b"X-A", [n0, n1]) on [(x-a, v0)] gave two fields spelled x-a).
            old = [n for n, _ in p if canon(n) == canon(k)]
            for n in [n for n, _ in q if canon(n) == canon(k)]:
                if n == k: continue
                if n in old: old.remove(n)
                else: return n
            return None
        def pure(want):
            if q != p: return "a query changed the fields"
            return None if R == want else f"returned {R!r}, an ordered case-insensitive multimap gives {want!r}"
        if o in ("gi", "ge", "ga", "co", "po", "sd", "di"): k = a[0]; vs = allv(p, k)
        if o == "gi": return pure("val u" + cps(sfold(vs)) if vs else "keyerror")
        if o == "ge": return pure("some u" + cps(sfold(vs)) if vs else "nothing")
        if o == "ga": return pure(r_list([D(v) for v in vs]))
        if o == "co": return pure("true" if vs else "false")
        if o == "it": return pure(r_list([D(n) for n, _ in first]))
        if o == "ln": return pure("int %d" % len(first))
        if o == "eq": return pure("true" if p == P[a[0]] else "false")
        if o == "im": return pure(r_pairs([(D(n), D(v)) for n, v in p]))
        if o == "is": return pure(r_pairs([(D(n), sfold(allv(p, n))) for n, _ in first]))
        if o == "ks": return pure(r_list([D(n) for n, _ in p] if a[0] else [D(n) for n, _ in first]))
        if o == "vs": return pure(r_list([D(v) for _, v in p] if a[0] else [sfold(allv(p, n)) for n, _ in first]))
        if o == "by": return pure("bytes " + hx(b"".join(n + b": " + v + b"\r\n" for n, v in p)))
        if o == "cp":
            if R != "obj %d" % len(P): return "copy did not create a new object"
            if Q[-1] != p or q != p: return "copy differs from the original"
            return None
        if o in ("si", "sa"):
            k = a[0]; vs = [a[1]] if o == "si" else list(a[1])
            if R != "none": return f"returned {R}"
            if allv(q, k) != vs: return f"get_all after assignment gives {allv(q, k)} not {vs}"
            if others(q, [k]) != others(p, [k]): return "untouched fields changed spelling, value or relative order"
            if invented(k) is not None: return f"a field named {k!r} is spelled {invented(k)!r}: neither the caller's spelling nor that of an existing field"
            return None
        if o in ("di", "po"):
            if not vs:
                return None if (R == "keyerror" and q == p) else f"missing key: returned {R}"
            want = "none" if o == "di" else "val u" + cps(sfold(vs))
            if R != want: return f"returned {R!r} want {want!r}"
            if q != others(p, [k]): return "delete must remove all fields of that name and only those"
            return None
        if o in ("ad", "in"):
            if R != "none": return f"returned {R}"
            if o == "ad":
                want = p + [(a[0], a[1])]
            else:
                i = a[0]; want = p[:i] + [(a[1], a[2])] + p[i:]
            return None if q == want else "add/insert did not place exactly the new field at the requested position"
        if o == "pi":
            if not p: return None if (R == "keyerror" and q == p) else f"popitem on empty: {R}"
            if ret[0] != "pair": return f"returned {R}"
            k, v = untext(ret[1]), untext(ret[2])
            hit = [n for n, _ in first if D(n) == k]
            if not isinstance(k, str) or not hit: return "popitem returned a key that is not a first-occurrence spelling"
            if v != sfold(allv(p, hit[0])): return "popitem value is not the folded value"
            if q != others(p, [hit[0]]): return "popitem must remove all fields of that name and only those"
            return None
        if o == "sd":
            if vs: return None if (R == "val u" + cps(sfold(vs)) and q == p) else "setdefault on present key changed something"
            d = a[1]
            if R != "val " + r_text(arg_obj(raw[1], op[2])): return f"returned {R}, not the default object that was passed"
            if allv(q, k) != [d] or others(q, [k]) != others(p, [k]): return "setdefault on absent key did not assign"
            if [n for n, _ in q if canon(n) == canon(k)] != [k]: return "setdefault on absent key did not store the caller's spelling"
            return None
        if o == "cl": return None if (R == "none" and q == []) else "clear left fields behind"
        if o == "up":
            ps = list(a[0])
            if R != "none": return f"returned {R}"
            last = {}
            for k, v in ps: last[canon(k)] = v
            for c, v in last.items():
                if allv(q, c) != [v]: return "update: key does not hold its last assigned value"
            if others(q, [k for k, _ in ps]) != others(p, [k for k, _ in ps]): return "update changed untouched fields"
            return None
        return "unknown op"

    # ------------------------------------------------------------------ model tie
    def model_lines(self, case):
        kind = case["kind"]
        if kind == "seq":
            toks = ["seq", str(len(case["init"]))] + [x for f in case["init"] for x in f]
            if case.get("kw"):
                toks += ["kw", str(len(case["kw"]))] + [r_text(arg_obj(y, 1)) for pr in case["kw"] for y in pr]
            for op in self._norm_ops(case):
                toks += [op[0], str(op[1])]
                T = lambda x: r_text(arg_obj(x, op[2]))          # the argument exactly as it is passed to the real method
                for c, x in zip(SHAPES[op[0]], op[3:]):
                    if c in "kv": toks.append(T(x))
                    elif c in "ium": toks.append(str(x))
                    elif c == "V": toks += [str(len(x))] + [T(v) for v in x]
                    elif c == "P": toks += [str(len(x))] + [T(y) for p in x for y in p]
            return [" ".join(toks)]
        if kind == "str":
            # both transcriptions of the decoder: byte-at-a-time (`native`) and CPython's range-based control flow
            return ["nat " + case["data_hex"], "natr " + case["data_hex"]]
        if kind == "enc":
            return ["enc u" + case["cps"]]
        if kind == "ctor":
            toks = ["ctor", str(len(case["fields"]))] + [r_text(arg_obj(x, 0)) for f in case["fields"] for x in f]
            if case.get("kw"):
                toks += ["kw", str(len(case["kw"]))] + [r_text(arg_obj(y, 1)) for pr in case["kw"] for y in pr]
            return [" ".join(toks)]
        if kind == "view":
            toks = ["viewc" if case["target"] == "cookies" else "view", str(len(case["init"]))] + [x for f in case["init"] for x in f]
            for op in self._view_norm(case):
                toks.append(op[0])
                for c, x in zip(VSHAPES[op[0]], op[1:]):
                    if c in "kv": toks.append(x)
                    elif c == "i": toks.append(str(x))
                    elif c == "V": toks += [str(len(x))] + list(x)
            return [" ".join(toks)]
        if kind == "rt":
            return [" ".join(["rt", str(len(case["fields"]))] + [x for f in case["fields"] for x in f])]
        if kind == "rd":
            return [" ".join(["rd", str(len(case["lines"]))] + list(case["lines"]))]
        return None

    def model_obs(self, case, replies):
        r = replies[0]
        if case["kind"] in ("seq", "view"): return r.split(" ; ") if r != "empty" else []
        if case["kind"] == "str":
            return r if replies[1] == r else {"native": r, "nativeRange": replies[1]}
        if case["kind"] in ("enc", "ctor"): return r
        if case["kind"] == "rt":
            m = re.fullmatch(r"bytes (\S+) lines (\d+)((?: \S+)*) res (.*)", r)
            if not m: return r
            block = unhx(m.group(1))
            if self._premature(block): return {"bytes": m.group(1)}
            return {"bytes": m.group(1), "lines": m.group(3).split(), "res": m.group(4)}
        return r

    @staticmethod
    def _premature(block):
        total = b"GET / HTTP/1.1\r\n" + block + b"\r\n"
        return re.search(b"\n\r?\n", total).end() != len(total)

    def impl_view(self, case, obs):
        if case["kind"] in ("seq", "view"): return obs
        if case["kind"] == "str": return obs["native"]
        if case["kind"] == "enc": return obs["enc"]
        if case["kind"] == "ctor": return obs["ctor"]
        if case["kind"] == "rt":
            if obs["lines"] is None: return {"bytes": obs["bytes"]}
            return obs
        return obs["res"]

    # ------------------------------------------------------------------ bookkeeping
    def classify(self, case, obs):
        if case["kind"] == "seq":
            if not any(op[0] in MUTATORS for op in case["ops"]) and not case.get("kw"): return None
        elif case["kind"] == "rt":
            if not case["fields"]: return None
        elif case["kind"] == "rd":
            if not case["lines"]: return None
        elif case["kind"] == "str":
            if case["data_hex"] == "-": return None
        elif case["kind"] == "ctor":
            if not case["fields"] and not case.get("kw"): return None
        elif case["kind"] == "view":
            if not any(op[0] in ("si", "sa", "di", "ad", "in") for op in case["ops"]): return None
        elif not case["cps"] or case["cps"] == "-": return None
        return super().classify(case, obs)

    def branches(self, case, obs):
        if case["kind"] == "seq":
            out = {"seq:len%02d" % min(len(obs), 20)}
            if case.get("kw"):
                out.add("ctor-kwargs" + (":unicodeerror" if obs == ["unicodeerror"] else ""))
                obs = obs[1:]
            for op, step in zip(self._norm_ops(case), obs):
                out.add("op:" + op[0] + (":keyerror" if step.startswith("keyerror") else ":unicodeerror" if step.startswith("unicodeerror") else ""))
                if op[2] and SHAPES[op[0]].startswith("k"): out.add("key-as-str")
                if any(ord(ch) > 0x7f for ch in step.partition(" S ")[0] if False): pass
            if any(" u" in st.partition(" S ")[0] and any(int(w, 16) > 0x7f for tok in st.partition(" S ")[0].split(" ") if tok.startswith("u") and tok != "u-" for w in tok[1:].split(".")) for st in obs):
                out.add("non-ascii-str-returned")
            return sorted(out)
        if case["kind"] == "str":
            return ["str:escapes" if ".dc" in "." + obs["native"][1:] else "str:clean"]
        if case["kind"] == "enc":
            return ["enc:" + ("unicodeerror" if obs["enc"] == "unicodeerror" else "ok")]
        if case["kind"] == "ctor":
            return ["ctor:" + obs["ctor"].split(" ")[0]]
        if case["kind"] == "view":
            return sorted({"view:" + case["target"]} | {"view:" + op[0] + (":keyerror" if st.startswith("keyerror") else "")
                                                         for op, st in zip(case["ops"], obs)})
        if case["kind"] == "rt":
            fs = [(unhx(n), unhx(v)) for n, v in case["fields"]]
            v = all(valid_field(n, x) for n, x in fs)
            return ["rt:valid" if v else "rt:invalid", "rt:" + ("premature-blank" if obs["res"] is None else obs["res"].split(" ")[0])]
        return ["rd:" + obs["res"].split(" ")[0]]

    def neighbours(self, case, rng):
        if case["kind"] != "seq": return
        for i in range(len(case["ops"]) + 1):
            for _ in range(8):
                c = dict(case); c["ops"] = case["ops"][:i] + [self._rand_op(rng, 1)] + self._probe()
                yield c

    def exhaustive(self, tier):
        yield from self._small_scope(3 if tier == "quick" else 4)
