"""C36 — flow files round-trip every flow type; reading never fails unexpectedly.
(mitmproxy/io/io.py, mitmproxy/io/tnetstring.py, get_state/from_state of every flow class)

Shared helpers (value wire codec, flow builder, reader wrappers) are also used by harness/c37.py."""
import hashlib, io, json, math, os, random, tempfile, warnings
from common.check import PropertyCheck, CaseTimeout, hx, unhx

warnings.simplefilter("ignore", DeprecationWarning)
from mitmproxy import certs, connection, dns, exceptions, flow, http, tcp, udp, websocket
from mitmproxy.io import FlowReader, FlowWriter, FilteredFlowWriter, compat, tnetstring
from mitmproxy.proxy.mode_specs import ProxyMode
from mitmproxy.test import tflow, tutils

# ------------------------------------------------------------------------------------------------
# wire form of a value (see lean/Driver/C36.lean) and canonical rendering
# ------------------------------------------------------------------------------------------------
def to_wire(v, out=None):
    """python value -> token list. dicts in iteration order; tuples as lists."""
    top = out is None
    if top: out = []
    if v is None: out.append("n")
    elif v is True: out.append("T")
    elif v is False: out.append("F")
    elif isinstance(v, int): out.append("i%d" % v)
    elif isinstance(v, float): out.append("f" + repr(v).encode().hex())
    elif isinstance(v, bytes): out.append("b" + v.hex())
    elif isinstance(v, str): out.append("s" + v.encode("utf8").hex())
    elif isinstance(v, (list, tuple)):
        out.append("l%d" % len(v))
        for x in v: to_wire(x, out)
    elif isinstance(v, dict):
        out.append("d%d" % len(v))
        for k, x in v.items():
            to_wire(k, out); to_wire(x, out)
    else:
        raise TypeError(type(v))
    return ",".join(out) if top else None


def from_wire(s):
    """token string -> python value; a dict is built by inserting the pairs in order (d[k] = v),
    which is what tnetstring.parse does."""
    toks = s.split(",")
    pos = 0

    def rd():
        nonlocal pos
        t = toks[pos]; pos += 1
        c, body = t[0], t[1:]
        if c == "n": return None
        if c == "T": return True
        if c == "F": return False
        if c == "i": return int(body)
        if c == "f":
            b = bytes.fromhex(body)
            return float(b)          # library float(): value of the literal the model accepted
        if c == "b": return bytes.fromhex(body)
        if c == "s": return bytes.fromhex(body).decode("utf8")
        if c == "l": return [rd() for _ in range(int(body))]
        if c == "d":
            d = {}
            for _ in range(int(body)):
                k = rd(); v = rd()
                d[k] = v
            return d
        raise ValueError(t)
    v = rd()
    assert pos == len(toks)
    return v


def canon(v):
    """type-strict canonical form; dict items in iteration order"""
    if v is None: return "n"
    if v is True: return "T"
    if v is False: return "F"
    if isinstance(v, int): return "i%d" % v
    if isinstance(v, float): return "f" + repr(v)
    if isinstance(v, bytes): return "b" + v.hex()
    if isinstance(v, str): return "s" + v.encode("utf8", "surrogatepass").hex()
    if isinstance(v, (list, tuple)): return ["l"] + [canon(x) for x in v]
    if isinstance(v, dict): return ["d"] + [[canon(k), canon(x)] for k, x in v.items()]
    raise TypeError(type(v))


def canon_unordered(c):
    """canonical form with dict items sorted (finite-map equality)"""
    if isinstance(c, list):
        if c and c[0] == "d":
            return ["d"] + sorted(([canon_unordered(k), canon_unordered(v)] for k, v in c[1:]), key=lambda p: json.dumps(p))
        return [canon_unordered(x) for x in c]
    return c


def state_canon(v):
    """'identical state' for flows: python equality of states — ints and floats compare numerically,
    bool stays bool, tuples equal lists, dicts are finite maps; NaN equals NaN."""
    if v is None or isinstance(v, bool): return canon(v)
    if isinstance(v, (int, float)):
        if isinstance(v, float) and (math.isnan(v) or math.isinf(v)): return "f" + repr(v)
        if isinstance(v, float) and v.is_integer(): return "num%d" % int(v)
        if isinstance(v, float): return "f" + repr(v)
        return "num%d" % v
    if isinstance(v, (bytes, str)): return canon(v)
    if isinstance(v, (list, tuple)): return ["l"] + [state_canon(x) for x in v]
    if isinstance(v, dict):
        return ["d"] + sorted(([state_canon(k), state_canon(x)] for k, x in v.items()), key=lambda p: json.dumps(p))
    raise TypeError(type(v))


def observe(o):
    """what a user of the flow object sees, attribute by attribute — a reference for "the flow that was saved" that does not
    go through get_state() (a get_state that drops a component would otherwise agree with itself after a reload)"""
    import dataclasses, enum
    if o is None or isinstance(o, (bool, int, float, str, bytes)): return o
    if isinstance(o, enum.Enum): return o.value
    if isinstance(o, (list, tuple)): return [observe(x) for x in o]
    if isinstance(o, dict): return {k: observe(v) for k, v in o.items()}
    if isinstance(o, certs.Cert): return {"pem": o.to_pem()}
    if isinstance(o, ProxyMode): return {"mode": o.full_spec}
    if isinstance(o, http.Headers): return [[k, v] for k, v in o.fields]
    if isinstance(o, websocket.WebSocketMessage):
        return {"type": int(o.type), "from_client": o.from_client, "content": o.content, "timestamp": o.timestamp,
                "dropped": o.dropped, "injected": o.injected}
    if isinstance(o, (tcp.TCPMessage, udp.UDPMessage)):
        return {"from_client": o.from_client, "content": o.content, "timestamp": o.timestamp}
    if isinstance(o, http.Message): return observe(o.data)
    if isinstance(o, flow.Flow):
        out = {a: observe(getattr(o, a)) for a in ("id", "type", "error", "client_conn", "server_conn", "intercepted", "is_replay", "marked",
                                                    "metadata", "comment", "timestamp_created", "_backup")}
        for a in ("request", "response", "websocket", "messages"):
            if hasattr(o, a): out[a] = observe(getattr(o, a))
        return out
    if dataclasses.is_dataclass(o):
        return {f.name: observe(getattr(o, f.name)) for f in dataclasses.fields(o) if f.metadata.get("serialize", True) is not False}
    raise TypeError(f"observe: {type(o)}")


def digest(b):
    return hashlib.sha256(b).hexdigest()[:16]


# ------------------------------------------------------------------------------------------------
# running the real readers
# ------------------------------------------------------------------------------------------------
CAUGHT = ("ValueError", "TypeError", "IndexError", "RecursionError", "MemoryError")


def err_name(e):
    """exception class as the reader's except-clauses see it"""
    if isinstance(e, ValueError):
        return "empty" if str(e) == "not a tnetstring: empty file" else "ValueError"
    for c in (TypeError, IndexError, RecursionError, MemoryError):
        if isinstance(e, c): return c.__name__
    return "other:" + type(e).__name__


def run_pop(data, shallow=False):
    try:
        v, rest = tnetstring.pop(memoryview(data))
        if shallow: return ["ok"]
        return ["ok", canon(v), hx(bytes(rest))]
    except Exception as e:
        n = err_name(e)
        return ["err", "ValueError" if n == "empty" else n]


def run_load(fo, shallow=False):
    try:
        v = tnetstring.load(fo)
        if shallow: return ["ok"]
        return ["ok", canon(v), hx(fo.read())]
    except Exception as e:
        return ["err", err_name(e)]


def run_reader(fo, want_states=False):
    """-> [n_flows, end] (+ states) with end in clean | flowRead | other:<Class>"""
    flows, end = [], "clean"
    try:
        for f in FlowReader(fo).stream():
            flows.append(f)
    except exceptions.FlowReadException:
        end = "flowRead"
    except CaseTimeout:
        raise
    except BaseException as e:  # noqa
        end = "other:" + type(e).__name__
    if want_states:
        return [len(flows), end], [f.get_state() for f in flows]
    return [len(flows), end]


def staged_outcome(loaded):
    """what Flow.from_state(compat.migrate_flow(loaded)) does, by stage (alphabet: see Driver/WireC36.lean `outcome`)"""
    called = []
    orig = compat.converters
    def counting(f):
        def g(d):
            called.append(1)
            return f(d)
        return g
    compat.converters = {k: counting(f) for k, f in orig.items()}
    try:
        try:
            st = compat.migrate_flow(loaded)
        except ValueError:
            return "w" if called else "V"
        except Exception:
            return "y" if called else "X"
    finally:
        compat.converters = orig
    try:
        flow.Flow.from_state(st)
        return "o"
    except CaseTimeout:
        raise
    except BaseException as e:  # noqa
        tb, last = e.__traceback__, None
        while tb is not None:
            last, tb = tb, tb.tb_next
        code = last.tb_frame.f_code
        in_dispatch = code.co_name == "from_state" and code.co_filename.endswith(os.path.join("mitmproxy", "flow.py"))
        cls = "v" if isinstance(e, ValueError) else ("x" if isinstance(e, Exception) else "n")
        if cls == "n": return "n"
        if called: return {"v": "w", "x": "y"}[cls]
        return cls.upper() if in_dispatch else cls


def record_outcomes(data):
    """walk the file with the real tnetstring.load and classify what
    Flow.from_state(compat.migrate_flow(record)) does for every dict record the reader gets to see."""
    fo = io.BytesIO(data)
    out = []
    while True:
        try:
            v = tnetstring.load(fo)
        except Exception:
            break
        if not isinstance(v, dict):
            break
        c = staged_outcome(v)
        out.append(c)
        if c != "o": break
    return "".join(out) or "-"


def nest(k, inner=b""):
    d = inner
    for _ in range(k):
        d = str(len(d)).encode() + b":" + d + b"]"
    return d


_DEPTH = {}


def deep_entry(entry, data):
    # only the status is kept: the parsed tower itself is too deep to pickle/JSON-encode
    if entry == "pop": return [x for x in run_pop(data, shallow=True)]
    if entry == "load": return [x for x in run_load(io.BytesIO(data), shallow=True)]
    fo = io.BytesIO(data)
    try:
        list(FlowReader(fo).stream()); return ["ok"]
    except exceptions.FlowReadException as e:
        return ["err", "RecursionError" if isinstance(e.__cause__, RecursionError) else "x"]


def _stack_depth():
    import sys
    f, n = sys._getframe(), 0
    while f is not None:
        f = f.f_back; n += 1
    return n


def deep_call(entry, data):
    """every deep probe and every deep case goes through this one frame, so the interpreter's recursion
    head-room is the same for the measurement and for the case (both are called from Check._impl):
    _impl -> measured_depth -> _probe -> deep_entry   and   _impl -> deep_call -> _probe -> deep_entry"""
    return _probe(entry, data)


def measured_depth(entry, key):
    """largest number of container levels below the top-level value that this interpreter parses when the
    entry point is called via deep_call from the current stack depth (the model's environment parameter `d`).
    MUST be called from the same function that then calls deep_call for the case."""
    if (entry, key) not in _DEPTH:
        def bad(k):       # _impl -> measured_depth -> bad -> deep_entry : same depth as deep_call's path
            r = deep_entry(entry, nest(k))
            return r[0] == "err" and r[1] == "RecursionError"
        lo, hi = 440, 520         # usual bracket for the default recursion limit of 1000; widened if it does not hold
        if bad(lo): lo = 1
        if not bad(hi): hi = 4000
        while hi - lo > 1:
            mid = (lo + hi) // 2
            if bad(mid): hi = mid
            else: lo = mid
        _DEPTH[(entry, key)] = lo - 1
    return _DEPTH[(entry, key)]


def _probe(entry, data):
    return deep_entry(entry, data)


# ------------------------------------------------------------------------------------------------
# random values
# ------------------------------------------------------------------------------------------------
STRUCT = b"0123456789:,;#^!~]}{[ -+_.eE\x00\xff\n"


def rbytes(r, maxlen=24):
    n = r.choice([0, 0, 1, 2, 3, 5, 8, 13, maxlen])
    return bytes(r.choice(STRUCT) if r.random() < 0.5 else r.getrandbits(8) for _ in range(r.randint(0, n)))


def rstr(r, maxlen=12):
    alphabet = ["a", "Z", "0", ":", ",", "]", "}", " ", "\x00", "\n", "é", "ß", "€", "中", "\U0001F347", "́", "﻿", "\U0010ffff", "퟿", ""]
    return "".join(r.choice(alphabet) for _ in range(r.randint(0, r.choice([0, 1, 3, maxlen]))))


def rfloat(r, special=True):
    c = r.random()
    if c < 0.25: return float(r.randint(-10**6, 10**6))
    if c < 0.5: return r.random() * 10 ** r.randint(-30, 30)
    if c < 0.7: return 946681200 + r.random() * 1e9
    if c < 0.8: return -r.random()
    if c < 0.85: return r.choice([0.0, -0.0, 5e-324, 1.7976931348623157e308, 2.2250738585072014e-308])
    if special and c < 0.9: return r.choice([float("inf"), float("-inf"), float("nan")])
    import struct
    while True:
        x = struct.unpack("<d", r.getrandbits(64).to_bytes(8, "little"))[0]
        if special or not (math.isnan(x) or math.isinf(x)): return x


def rint(r):
    c = r.random()
    if c < 0.4: return r.randint(-300, 300)
    if c < 0.7: return r.randint(-2**64, 2**64)
    if c < 0.9: return r.choice([0, -1, 9, 10, 99, 100, 10**11, 10**12, 2**63, -2**63])
    return r.choice([-1, 1]) * r.getrandbits(r.randint(1, 1200))


def rkey(r):
    """hashable keys; collisions under python equality are resolved by the dict itself"""
    c = r.random()
    if c < 0.55: return rstr(r, 6)
    if c < 0.75: return rbytes(r, 6)
    if c < 0.87: return r.randint(-3, 3)
    if c < 0.91: return r.choice([True, False])
    if c < 0.95: return None
    return r.choice([0.0, 1.0, 1.5, -2.5, float("inf")])


def rvalue(r, depth=0, maxdepth=4):
    c = r.random()
    if depth >= maxdepth: c *= 0.7
    if c < 0.08: return None
    if c < 0.16: return r.choice([True, False])
    if c < 0.30: return rint(r)
    if c < 0.40: return rfloat(r)
    if c < 0.55: return rbytes(r)
    if c < 0.70: return rstr(r)
    if c < 0.85: return [rvalue(r, depth + 1, maxdepth) for _ in range(r.choice([0, 1, 2, 3, 6]))]
    d = {}
    for _ in range(r.choice([0, 1, 2, 3, 5])):
        d[rkey(r)] = rvalue(r, depth + 1, maxdepth)
    return d


# ------------------------------------------------------------------------------------------------
# random flows of every type (all serialised fields randomised)
# ------------------------------------------------------------------------------------------------
_PEMS = None


def pems():
    global _PEMS
    if _PEMS is None:
        out = []
        base = os.path.join(os.path.dirname(os.path.dirname(tutils.__file__)), "..", "test", "mitmproxy")
        for rel in ("net/data/text_cert", "net/data/text_cert_2", "net/data/text_cert_weird1", "net/data/server.crt",
                    "net/data/ec_cert.pem", "net/data/dsa_cert.pem", "data/invalid-subject.pem", "data/no_common_name.pem"):
            p = os.path.join(base, rel)
            try:
                out.append(certs.Cert.from_pem(open(p, "rb").read()))
            except Exception:
                pass
        _PEMS = out
    return _PEMS


MODES = ["regular", "transparent", "socks5", "upstream:http://proxy:8080", "reverse:https://example.com:443",
         "reverse:tcp://10.0.0.1:25", "dns", "reverse:dns://8.8.8.8", "wireguard", "local", "regular@127.0.0.1:9000",
         "reverse:udp://1.2.3.4:5", "reverse:quic://example.org"]
TLSV = ["SSLv3", "TLSv1", "TLSv1.1", "TLSv1.2", "TLSv1.3", "DTLSv0.9", "DTLSv1", "DTLSv1.2", "QUICv1", None]


def raddr(r):
    c = r.random()
    if c < 0.4: return (r.choice(["127.0.0.1", "10.1.2.3", "example.com", "", "xn--nxasmq6b.example", "höst"]), r.randint(0, 65535))
    if c < 0.8: return (r.choice(["::1", "fe80::1", "2001:db8::ff"]), r.randint(0, 65535), r.randint(0, 2**20), r.randint(0, 16))
    return (rstr(r, 8), r.randint(0, 65535))


def ropt(r, f, p=0.3):
    return None if r.random() < p else f()


def rts(r):
    c = r.random()
    if c < 0.3: return r.randint(0, 2 * 10**9)
    return rfloat(r, special=r.random() < 0.1)


def rconn_common(r, c):
    c.id = rstr(r, 10) if r.random() < 0.3 else "%032x" % r.getrandbits(128)
    c.transport_protocol = r.choice(["tcp", "udp"])
    c.error = ropt(r, lambda: rstr(r), 0.6)
    c.tls = r.random() < 0.5
    c.certificate_list = [r.choice(pems()) for _ in range(r.choice([0, 0, 1, 2, 3]))] if pems() else []
    c.alpn = ropt(r, lambda: r.choice([b"h2", b"http/1.1", b"", rbytes(r, 8)]), 0.4)
    c.alpn_offers = [r.choice([b"h2", b"http/1.1", rbytes(r, 6)]) for _ in range(r.choice([0, 1, 2, 4]))]
    c.cipher = ropt(r, lambda: r.choice(["TLS_AES_256_GCM_SHA384", "", rstr(r)]), 0.4)
    c.cipher_list = [r.choice(["ECDHE-RSA-AES128-GCM-SHA256", rstr(r)]) for _ in range(r.choice([0, 1, 3]))]
    c.tls_version = r.choice(TLSV)
    c.sni = ropt(r, lambda: r.choice(["example.com", "", rstr(r)]), 0.4)
    c.timestamp_end = ropt(r, lambda: rts(r))
    c.timestamp_tls_setup = ropt(r, lambda: rts(r))


def rclient(r):
    c = tflow.tclient_conn()
    rconn_common(r, c)
    c.peername = raddr(r)
    c.sockname = raddr(r)
    c.mitmcert = ropt(r, lambda: r.choice(pems()), 0.6) if pems() else None
    c.proxy_mode = ProxyMode.parse(r.choice(MODES))
    c.timestamp_start = rts(r)
    return c


def rserver(r):
    c = tflow.tserver_conn()
    rconn_common(r, c)
    c.address = ropt(r, lambda: (r.choice(["example.com", "10.0.0.1", rstr(r, 6)]), r.randint(0, 65535)), 0.2)
    c.peername = ropt(r, lambda: raddr(r))
    c.sockname = ropt(r, lambda: raddr(r))
    c.timestamp_start = ropt(r, lambda: rts(r))
    c.timestamp_tcp_setup = ropt(r, lambda: rts(r))
    c.via = ropt(r, lambda: (r.choice(["http", "https", "http3", "tls", "dtls", "tcp", "udp", "dns", "quic"]),
                             (r.choice(["proxy", "10.0.0.9"]), r.randint(1, 65535))), 0.7)
    return c


def rheaders(r):
    names = [b"Host", b"content-length", b"Set-Cookie", b"X", b"", b"x-\xff", b"a:b"]
    return http.Headers([(r.choice(names) if r.random() < 0.7 else rbytes(r, 8), rbytes(r, 16)) for _ in range(r.choice([0, 1, 2, 3, 8]))])


def rbody(r):
    c = r.random()
    if c < 0.15: return None
    if c < 0.3: return b""
    if c < 0.9: return rbytes(r, 200) + rbytes(r, 200)
    return bytes(r.getrandbits(8) for _ in range(r.randint(1000, 4000)))


def rrequest(r):
    return http.Request(
        host=r.choice(["example.com", "", rstr(r, 8)]), port=r.randint(0, 65535),
        method=r.choice([b"GET", b"POST", b"", rbytes(r, 6)]), scheme=r.choice([b"http", b"https", b"", rbytes(r, 4)]),
        authority=r.choice([b"", b"example.com:80", rbytes(r, 8)]), path=r.choice([b"/", b"*", b"/p?q=1", rbytes(r, 12)]),
        http_version=r.choice([b"HTTP/1.1", b"HTTP/2.0", b"HTTP/3", b"", rbytes(r, 6)]),
        headers=rheaders(r), content=rbody(r), trailers=ropt(r, lambda: rheaders(r), 0.7),
        timestamp_start=rts(r), timestamp_end=ropt(r, lambda: rts(r)))


def rresponse(r):
    return http.Response(
        http_version=r.choice([b"HTTP/1.1", b"HTTP/2.0", rbytes(r, 6)]), status_code=r.choice([200, 101, 404, 0, 999, r.randint(-5, 10**6)]),
        reason=r.choice([b"OK", b"", rbytes(r, 10)]), headers=rheaders(r), content=rbody(r),
        trailers=ropt(r, lambda: rheaders(r), 0.7), timestamp_start=rts(r), timestamp_end=ropt(r, lambda: rts(r)))


def rwebsocket(r):
    ws = websocket.WebSocketData()
    ws.messages = [websocket.WebSocketMessage(r.choice([0, 1, 2, 8, 9, 10]), r.random() < 0.5, rbytes(r, 40), rts(r) or 1.0,
                                              r.random() < 0.2, r.random() < 0.2) for _ in range(r.choice([0, 1, 2, 5]))]
    ws.closed_by_client = r.choice([None, True, False])
    ws.close_code = ropt(r, lambda: r.choice([1000, 1006, r.randint(0, 5000)]))
    ws.close_reason = ropt(r, lambda: rstr(r))
    ws.timestamp_end = ropt(r, lambda: rts(r))
    return ws


def rmeta_value(r, depth=0):
    """serialisable metadata: str keys mostly; values of every serialisable kind, tuples included"""
    v = rvalue(r, depth, 3)
    if isinstance(v, list) and r.random() < 0.3: v = tuple(v)
    return v


def rdnsmsg(r):
    def q(): return dns.Question(r.choice(["dns.google", "", rstr(r, 8)]), r.randint(0, 65535), r.randint(0, 65535))
    def rr(): return dns.ResourceRecord(r.choice(["dns.google", rstr(r, 8)]), r.randint(0, 65535), r.randint(0, 65535), r.randint(0, 2**31), rbytes(r, 20))
    return dns.DNSMessage(
        id=r.randint(0, 65535), query=r.random() < 0.5, op_code=r.randint(0, 15), authoritative_answer=r.random() < 0.5,
        truncation=r.random() < 0.5, recursion_desired=r.random() < 0.5, recursion_available=r.random() < 0.5,
        reserved=r.randint(0, 7), response_code=r.randint(0, 15),
        questions=[q() for _ in range(r.choice([0, 1, 2]))], answers=[rr() for _ in range(r.choice([0, 1, 3]))],
        authorities=[rr() for _ in range(r.choice([0, 0, 1]))], additionals=[rr() for _ in range(r.choice([0, 0, 2]))],
        timestamp=ropt(r, lambda: rts(r)))


FLOW_TYPES = ["http", "ws", "tcp", "udp", "dns"]


def build_flow(spec):
    """deterministic flow from {"t": type, "seed": n, "plain": bool}"""
    r = random.Random(spec["seed"])
    t = spec["t"]
    if spec.get("plain"):
        f = {"http": lambda: tflow.tflow(resp=True), "ws": tflow.twebsocketflow, "tcp": tflow.ttcpflow,
             "udp": tflow.tudpflow, "dns": lambda: tflow.tdnsflow(resp=True)}[t]()
        f.id = "%032x" % r.getrandbits(128)
        if spec.get("empty"): make_empty(f, spec["empty"])
        return f
    cc, sc = rclient(r), rserver(r)
    if t in ("http", "ws"):
        f = http.HTTPFlow(cc, sc)
        f.request = rrequest(r)
        f.response = ropt(r, lambda: rresponse(r), 0.2 if t == "http" else 0.0)
        f.websocket = rwebsocket(r) if t == "ws" else None
    elif t in ("tcp", "udp"):
        f = (tcp.TCPFlow if t == "tcp" else udp.UDPFlow)(cc, sc)
        M = tcp.TCPMessage if t == "tcp" else udp.UDPMessage
        f.messages = [M(r.random() < 0.5, rbytes(r, 60), rts(r)) for _ in range(r.choice([0, 1, 2, 6]))]
    else:
        f = dns.DNSFlow(cc, sc)
        f.request = rdnsmsg(r)
        f.response = ropt(r, lambda: rdnsmsg(r))
    f.id = rstr(r, 10) if r.random() < 0.2 else "%032x" % r.getrandbits(128)
    f.error = ropt(r, lambda: flow.Error(r.choice(["error", flow.Error.KILLED_MESSAGE, rstr(r)]), rts(r)), 0.6)
    f.intercepted = r.random() < 0.3
    f.is_replay = r.choice([None, None, "request", "response"])
    f.marked = r.choice(["", ":grapes:", rstr(r, 4)])
    f.comment = r.choice(["", rstr(r, 30)])
    f.timestamp_created = rts(r)
    f.live = r.random() < 0.5
    md = {}
    for _ in range(r.choice([0, 0, 1, 2, 5])):
        k = rstr(r, 6) if r.random() < 0.85 else rkey(r)
        md[k] = rmeta_value(r)
    f.metadata = md
    if r.random() < 0.2:                       # a backup state distinct from the current one
        f.backup()
        f.comment = f.comment + "*"
    if spec.get("empty"): make_empty(f, spec["empty"])
    return f


def make_empty(f, level):
    """every container-valued component at size 0 (level 1), additionally every optional component present-but-empty
    rather than absent (level 2: empty trailers, empty bodies, empty strings)"""
    for c in (f.client_conn, f.server_conn):
        c.certificate_list = []; c.alpn_offers = []; c.cipher_list = []
    f.metadata = {}
    if isinstance(f, http.HTTPFlow):
        f.request.headers = http.Headers()
        if f.response is not None: f.response.headers = http.Headers()
        if f.websocket is not None: f.websocket.messages = []
        if level >= 2:
            f.request.trailers = http.Headers(); f.request.content = b""
            if f.response is not None: f.response.trailers = http.Headers(); f.response.content = b""; f.response.reason = b""
            if f.websocket is not None: f.websocket.close_reason = ""; f.websocket.close_code = 0
    elif hasattr(f, "messages"):
        f.messages = []
    else:
        for m in (f.request, f.response):
            if m is not None: m.questions = []; m.answers = []; m.authorities = []; m.additionals = []
    if level >= 2:
        f.comment = ""; f.marked = ""; f.client_conn.alpn = b""; f.client_conn.sni = ""; f.client_conn.cipher = ""
        if f.error is not None: f.error.msg = ""


def rspecs(r, n=None, plain_p=0.1):
    n = n or r.choice([1, 1, 2, 3, 4])
    return [{"t": r.choice(FLOW_TYPES), "seed": r.getrandbits(48), **({"plain": 1} if r.random() < plain_p else {}),
             **({"empty": r.choice([1, 2])} if r.random() < 0.15 else {})} for _ in range(n)]


def write_flows(flows, filtered=False):
    bio = io.BytesIO()
    w = FilteredFlowWriter(bio, None) if filtered else FlowWriter(bio)
    bounds = [0]
    for f in flows:
        w.add(f); bounds.append(bio.tell())
    return bio.getvalue(), bounds


# ------------------------------------------------------------------------------------------------
# corrupt files
# ------------------------------------------------------------------------------------------------
def mutate_bytes(r, data):
    data = bytearray(data)
    for _ in range(r.choice([1, 1, 1, 2, 4])):
        if not data: data = bytearray(b"0:~"); continue
        op = r.randrange(9)
        i = r.randrange(len(data))
        if op == 0: data[i] ^= 1 << r.randrange(8)
        elif op == 1: data[i] = r.choice(STRUCT)
        elif op == 2: del data[i:i + r.choice([1, 1, 2, 8, 64])]
        elif op == 3: data[i:i] = bytes(r.choice(STRUCT) for _ in range(r.choice([1, 1, 2, 5])))
        elif op == 4: data = data[:i]
        elif op == 5:
            j = r.randrange(len(data)); a, b = min(i, j), max(i, j)
            data[a:a] = data[a:b][:200]
        elif op == 6:                       # touch a length prefix: find a ':' and change the digit before it
            js = [k for k in range(max(0, i - 400), min(len(data), i + 400)) if data[k] == 0x3a and k > 0]
            if js:
                k = r.choice(js); data[k - 1] = r.choice(b"0123456789-+ _")
        elif op == 7:                       # swap a type tag
            js = [k for k in range(max(0, i - 200), min(len(data), i + 200)) if data[k] in b",;#^!~]}"]
            if js: data[r.choice(js)] = r.choice(b",;#^!~]}x")
        else: data[i:i + 1] = bytes([r.getrandbits(8)])
    return bytes(data)


def mutate_state(r, st):
    """one structural edit of a flow state (lists instead of tuples so that it stays editable)"""
    def tolist(o):
        if isinstance(o, (list, tuple)): return [tolist(x) for x in o]
        if isinstance(o, dict): return {k: tolist(v) for k, v in o.items()}
        return o
    st = tolist(st)
    paths = []
    def walk(o, p):
        if isinstance(o, dict):
            for k, v in o.items(): paths.append(p + (k,)); walk(v, p + (k,))
        elif isinstance(o, list):
            for i, v in enumerate(o): paths.append(p + (i,)); walk(v, p + (i,))
    walk(st, ())
    p = r.choice(paths)
    o = st
    for k in p[:-1]: o = o[k]
    junk = [None, True, False, 0, -1, 1.5, b"", b"x", "", "x", [], {}, [1], {"a": 1}, 2**70, "http", "tcp", "dns", "udp", "regular",
            ["a", 1], [["a", "b"]], 21, 22, 20, 1, "QUIC", float("nan")]
    op = r.randrange(4)
    if op == 0 and isinstance(o, dict): del o[p[-1]]
    elif op == 1 and isinstance(o, list): del o[p[-1]]
    elif op == 2: o[p[-1]] = r.choice(junk)
    else:
        if isinstance(o, dict): o[r.choice(["x", b"version", "version", "type", b"type", 1])] = r.choice(junk)
        else: o.append(r.choice(junk))
    return st


def rsoup(r, depth=0):
    """tnetstring-shaped bytes with deliberate defects"""
    c = r.random()
    def framed(payload, tag, n=None):
        n = len(payload) if n is None else n
        pre = str(n).encode()
        x = r.random()
        if x < 0.05: pre = b" " + pre
        elif x < 0.08: pre = b"+" + pre
        elif x < 0.11: pre = b"0" + pre
        elif x < 0.14 and len(pre) > 1: pre = pre[:1] + b"_" + pre[1:]
        elif x < 0.17: pre = b"-" + str(r.randint(0, len(payload) + 2)).encode()
        elif x < 0.19: pre = pre + b" "
        elif x < 0.21: pre = b""
        elif x < 0.22: pre = b"9" * r.choice([11, 12, 13])
        return pre + b":" + payload + tag
    if depth > 5 or c < 0.1: return framed(b"", b"~", r.choice([None, None, 0, 1]))
    if c < 0.2: return framed(r.choice([b"true", b"false", b"True", b"", b"1"]), b"!")
    if c < 0.35:
        lits = [b"0", b"-0", b"12", b" 12 ", b"+7", b"1_000", b"1__0", b"_1", b"1_", b"- 1", b"0x10", b"1e3", b"", b"12\x00", b"\t5\n", b"00012",
                b"9" * 4300, b"9" * 4301, b"0" * 4301, b"1_" * 2150 + b"1", b"\xd9\xa1", b"1.0", str(r.randint(-10**30, 10**30)).encode()]
        return framed(r.choice(lits), b"#")
    if c < 0.5:
        lits = [b"1.5", b"1e5", b"1E+5", b"1e", b"1e+", b".5", b"5.", b".", b"", b"inf", b"-Infinity", b"nAn", b"infinit", b"+nan", b" 1.0 ", b"1_0.5", b"1._5",
                b"1_e5", b"1e1_0", b"_1.0", b"1.0_", b"0x1p3", b"1.0\x00", b"--1", b"+-1", b"1e400", b"-1e-400", b"1,5", b"\n2.5\t", b"1 .0", b"e5", b"-.e1", b"1e+_1",
                b"12", b"0_0", b"infinity_", b"in_f", repr(rfloat(r)).encode()]
        return framed(r.choice(lits), b"^")
    if c < 0.58:
        s = r.choice([b"abc", b"\xc3\xa9", b"\xc0\x80", b"\xed\xa0\x80", b"\xed\x9f\xbf", b"\xf4\x90\x80\x80", b"\xf4\x8f\xbf\xbf", b"\xe0\x9f\xbf", b"\xe0\xa0\x80",
                      b"\xf0\x8f\xbf\xbf", b"\xf0\x90\x80\x80", b"\xc3", b"\xe2\x82", b"\xff", b"\x80", b"\xf5\x80\x80\x80", b"\xc2\xc0", b"\xef\xbb\xbf", rbytes(r)])
        return framed(s, b";")
    if c < 0.66: return framed(rbytes(r), r.choice([b",", b",", b"x", b"{", b"[", b"\x00"]))
    if c < 0.83:
        items = b"".join(rsoup(r, depth + 1) for _ in range(r.choice([0, 1, 2, 3])))
        if r.random() < 0.1: items += rbytes(r, 4)
        return framed(items, b"]")
    items = b"".join(rsoup(r, depth + 1) for _ in range(r.choice([0, 2, 2, 4, 3])))
    return framed(items, b"}")


# ------------------------------------------------------------------------------------------------
# records of the older integer formats 5 … 20 (tie for the converter-chain transcription in Model/C36_Conv.lean)
# ------------------------------------------------------------------------------------------------
OLD_VARIANTS = ["plain", "plain", "del-top", "del-conn", "junk-conn", "bytes-only", "bytes-both", "type-xx", "no-type", "extra",
                "mut1", "mut2", "conn-none", "via-junk", "resp-junk"]


def oldfmt_record(case):
    """a stock flow state downgraded to format `ver` with the inverse converters of harness/c38.py, then one defect"""
    import copy
    import c38
    inv = [c38.inv_21_20, c38.inv_20_19, c38.inv_19_18, c38.inv_18_17, c38.inv_17_16, c38.inv_16_15, c38.inv_15_14, c38.inv_14_13,
           c38.inv_13_12, c38.inv_12_11, c38.inv_11_10, c38.inv_10_9, c38.inv_9_8, c38.inv_8_7, c38.inv_7_6, c38.inv_6_5]
    r = random.Random(case["seed"])
    ver = case.get("ver") or r.randint(5, 20)
    name = case.get("variant") or r.choice(OLD_VARIANTS)
    kind = r.choice(["http", "http-noresp", "http-err", "ws"])
    f = tflow.twebsocketflow() if kind == "ws" else tflow.tflow(resp=(kind == "http"), err=(kind == "http-err"))
    if r.random() < 0.4: f.marked = r.choice(["", ":default:", ":grapes:"])
    if r.random() < 0.3: f.client_conn.tls_version = "QUICv1"
    def tolist(o):
        if isinstance(o, (list, tuple)): return [tolist(x) for x in o]
        if isinstance(o, dict): return {k: tolist(v) for k, v in o.items()}
        return o
    a = tolist(copy.deepcopy(f.get_state()))
    c38.restrict_for(a, ver)
    for i, g in enumerate(inv):
        if 21 - i > ver: g(a)
    try:
        if name == "del-top": del a[r.choice([k for k in a if k != "version"])]
        elif name == "del-conn": c = a[r.choice(["client_conn", "server_conn"])]; del c[r.choice(list(c))]
        elif name == "junk-conn": c = a[r.choice(["client_conn", "server_conn"])]; c[r.choice(list(c))] = r.choice([None, 0, "", [], {}, "x", [1], True])
        elif name == "bytes-only": a[b"version"] = a.pop("version")
        elif name == "bytes-both": a[b"version"] = ver
        elif name == "type-xx": a["type"] = r.choice(["xx", None, [1], 5])
        elif name == "no-type": del a["type"]
        elif name == "extra": a["zzz"] = 1
        elif name in ("mut1", "mut2"):
            a = mutate_state(r, a); a["version"] = ver
            if name == "mut2": a = mutate_state(r, a); a["version"] = ver
        elif name == "conn-none": a[r.choice(["client_conn", "server_conn"])] = r.choice([None, [], "s", 3])
        elif name == "via-junk": a["server_conn"]["via"] = r.choice([5, "x", [1], {"a": 1}, True])
        elif name == "resp-junk": a["response"] = r.choice([5, "x", [1], {}, {"a": 1}, None])
    except (KeyError, IndexError, TypeError):
        pass
    return tnetstring.dumps(a)


# ------------------------------------------------------------------------------------------------
# real file objects: the same bytes through every kind of binary stream the reader meets in practice
# ------------------------------------------------------------------------------------------------
class ShortRaw(io.RawIOBase):
    """a raw stream that hands out at most `chunk` bytes per readinto (sockets, pipes, slow disks)"""
    def __init__(self, data, chunk):
        self.data, self.pos, self.chunk = data, 0, chunk
    def readable(self): return True
    def readinto(self, b):
        n = min(len(b), self.chunk, len(self.data) - self.pos)
        b[:n] = self.data[self.pos:self.pos + n]; self.pos += n
        return n


FOBJ_KINDS = ["open", "open16", "open64", "open4096", "open0", "short1", "short7", "short4096", "pipe"]


def read_through(kind, data, tmpdir):
    """run the real FlowReader over `data` delivered through the given kind of file object -> ([n, end], states)"""
    if kind.startswith("open"):
        path = os.path.join(tmpdir, "f.mitm")
        with open(path, "wb") as fo: fo.write(data)
        buffering = {"open": -1, "open0": 0}.get(kind, int(kind[4:] or 0) if kind not in ("open", "open0") else -1)
        with open(path, "rb", buffering=buffering) as fo:
            return run_reader(fo, want_states=True)
    if kind.startswith("short"):
        chunk = int(kind[5:])
        return run_reader(io.BufferedReader(ShortRaw(data, chunk), buffer_size=max(16, min(chunk * 3, 8192))), want_states=True)
    if kind == "pipe":
        import threading
        rfd, wfd = os.pipe()
        def feed():
            try:
                with os.fdopen(wfd, "wb") as w:
                    for i in range(0, len(data), 1000): w.write(data[i:i + 1000]); w.flush()
            except BrokenPipeError:
                pass
        t = threading.Thread(target=feed); t.start()
        try:
            with os.fdopen(rfd, "rb") as fo:
                return run_reader(fo, want_states=True)
        finally:
            t.join()
    raise ValueError(kind)


def padded_flows(specs, j, B, delta):
    """flows from specs with the FIRST one padded (comment, byte by byte) until record j starts at offset = delta (mod B),
    i.e. its length prefix lands `delta` bytes after / before a multiple of the buffer size"""
    flows = [build_flow(sp) for sp in specs]
    base = flows[0].comment or ""
    pad = 0
    for _ in range(40):
        flows[0].comment = base + "p" * pad
        data, bounds = write_flows(flows)
        off = (bounds[j] - delta) % B
        if off == 0: break
        pad += B - off
    return flows, data, bounds


# ------------------------------------------------------------------------------------------------
# histories: several loaded flows that share EQUAL nested values; one of them is changed, the others must not notice
# ------------------------------------------------------------------------------------------------
HIST_OPS = ["revert", "set_state", "cert_inplace", "conn_set_state", "headers", "messages", "addr", "metadata", "backup_then_edit"]


def _fresh_cert(i):
    ps = pems()
    return certs.Cert.from_pem(ps[i % len(ps)].to_pem()) if ps else None


def build_hist(case):
    """-> flows (to be written), donors (same types, different nested values), plan {victim, ops, second_load}.
    All flows of the file carry EQUAL (not identical) certs, addresses, header lists; flows may carry a backup whose
    nested values differ from the current ones."""
    r = random.Random(case["seed"])
    n = r.choice([2, 2, 3, 4])
    types = case.get("types") or [r.choice(FLOW_TYPES) for _ in range(n)]
    x, y = r.sample(range(max(2, len(pems()))), 2) if len(pems()) >= 2 else (0, 0)
    shared_addr = raddr(r)
    shared_hdr = [(b"host", b"example.com"), (b"set-cookie", rbytes(r, 8)), (b"x-shared", b"1")]

    def dress(f, ci, salt):
        cc, sc = f.client_conn, f.server_conn
        cc.mitmcert = _fresh_cert(ci)
        cc.certificate_list = [_fresh_cert(ci), _fresh_cert(ci + 1)]
        sc.certificate_list = [_fresh_cert(ci + 1), _fresh_cert(ci)]
        cc.peername = shared_addr; cc.sockname = shared_addr
        sc.peername = shared_addr; sc.sockname = shared_addr
        cc.alpn_offers = [b"h2", b"http/1.1"]; sc.alpn_offers = [b"h2", b"http/1.1"]
        cc.cipher_list = ["A", "B"]; sc.cipher_list = ["A", "B"]
        if hasattr(f, "request") and isinstance(getattr(f, "request", None), http.Request):
            f.request.headers = http.Headers(list(shared_hdr))
            if f.response is not None: f.response.headers = http.Headers(list(shared_hdr))
        f.metadata = {"shared": [1, [2, 3], {"k": b"v"}], "salt": salt}

    flows, donors = [], []
    for i, t in enumerate(types):
        f = build_flow({"t": t, "seed": r.getrandbits(48), "plain": r.random() < 0.5})
        f._backup = None
        if case.get("backups", 1) and r.random() < 0.6:
            dress(f, y, "old")                  # what the flow looked like when it was backed up …
            f.backup()
        dress(f, x, "cur")                      # … and what it looks like now
        if f._backup is not None: f.comment = (f.comment or "") + " (edited)"
        flows.append(f)
        d = build_flow({"t": t, "seed": r.getrandbits(48), "plain": 0})
        d._backup = None
        dress(d, y, "donor")
        donors.append(d)
    plan = {"victim": case.get("victim", r.randrange(len(flows))),
            "ops": case.get("ops") or [r.choice(HIST_OPS) for _ in range(r.choice([1, 1, 2, 3]))],
            "y": y}
    return flows, donors, plan


def apply_hist_op(op, f, donor, y):
    """an ordinary user/addon action on ONE loaded flow"""
    if op == "revert":
        f.revert()
    elif op == "set_state":
        st = donor.get_state(); st["id"] = f.id
        f.set_state(st)
    elif op == "cert_inplace":
        for c in [f.client_conn.mitmcert] + list(f.client_conn.certificate_list) + list(f.server_conn.certificate_list):
            if c is not None: c.set_state(_fresh_cert(y).to_pem())
    elif op == "conn_set_state":
        f.client_conn.set_state(donor.client_conn.get_state())
        f.server_conn.set_state(donor.server_conn.get_state())
    elif op == "headers":
        if isinstance(getattr(f, "request", None), http.Request):
            f.request.headers["x-shared"] = "changed"
            f.request.headers.set_state(((b"only", b"one"),))
            if f.response is not None:
                f.response.headers.add("set-cookie", "again"); f.response.content = b"changed body"
        else:
            f.comment = "changed"
    elif op == "messages":
        msgs = getattr(f, "messages", None) or (f.websocket.messages if getattr(f, "websocket", None) else None)
        if msgs: msgs[0].content = b"changed"; msgs.append(msgs[0])
        elif hasattr(f, "request") and hasattr(f.request, "questions"): f.request.questions.clear(); f.request.id = 7
        else: f.marked = ":changed:"
    elif op == "addr":
        f.client_conn.peername = ("203.0.113.7", 1); f.client_conn.sockname = ("203.0.113.8", 2)
        f.server_conn.peername = ("203.0.113.9", 3); f.server_conn.cipher_list.append("C") if isinstance(f.server_conn.cipher_list, list) else None
        f.client_conn.alpn_offers = list(f.client_conn.alpn_offers) + [b"changed"]
    elif op == "metadata":
        f.metadata["shared"][1].append(99); f.metadata["shared"][2]["k"] = b"changed"; f.metadata["new"] = 1
    elif op == "backup_then_edit":
        f.backup(); f.comment = "edited again"
        if f.client_conn.mitmcert is not None: f.client_conn.mitmcert = _fresh_cert(y)
        f.revert()


# ------------------------------------------------------------------------------------------------
BIG = 10 ** 13          # "no allocation limit" for in-memory files
D_NORMAL = 100          # recursion head-room handed to the model for shallow inputs (real head-room is larger)


class Check(PropertyCheck):
    prop = "C36"
    design_ref = "§5 C36"
    level_text = ("Lean theorems about an executable model of tnetstring.dumps/_rdumpq, pop/split/parse, load and "
                  "FlowReader.stream, for ALL values / byte strings / environments: the deque construction equals the "
                  "recursive encoding (dumps_eq_enc); pop and load return exactly the dumped value (dict items mirrored, "
                  "mirror ≈ identity as finite maps) and the untouched rest (pop_dumps, load_dumps); a file of n records "
                  "reads back as the n flows in order and ends cleanly (read_roundtrip); fuel exhaustion never happens "
                  "(pop_total, load_total, stream_total); load raises only the classes FlowReader catches "
                  "(load_error_caught) and the reader never ends with any other exception than FlowReadException "
                  "(never_other, gated_never_other); ANY byte string that starts with good records yields their flows first, "
                  "whatever garbage, cut record or unknown-version record follows (corrupted_tail_keeps_flows, "
                  "corrupted_tail_ends_in_flow_read_error); with the reader's dispatch transcribed — migrate_flow's first-iteration "
                  "version check (bytes/str key precedence, int/bool/tuple normalisation, converter-graph lookup from Gen/C38) and "
                  "Flow.__types[state['type']] — a record the gate rejects ends the read with FlowReadException after exactly the flows "
                  "before it (rejected_record_stops_reader) and a record passes only with the current version and a registered type "
                  "(gate_pass_current_and_registered); set_state of the selected flow class is transcribed as far as the SHAPE of the record decides "
                  "(keys popped without default, no key besides 'backup', connection states with exactly their field names, error / "
                  "response / websocket falsy-or-complete, request complete, messages iterable; key tables regenerated from the live "
                  "classes): a record is turned into a flow only if it is Acceptable (accepted_record_is_wellshaped), for ANY byte string "
                  "every yielded flow corresponds to an Acceptable loaded record (yielded_flows_come_from_acceptable_records), an "
                  "ill-shaped record ends the read with FlowReadException after exactly the flows before it "
                  "(illshaped_record_stops_reader, shaped_never_other); the integer formats 5 … 20 run through migrate_flow's loop with C38_Conv's "
                  "convert_5_6 … convert_20_21, the stale-bytes-key refusal and the same dispatch + shape on the converted state "
                  "(unconvertible_record_stops_reader, converted_accept_needs_convertible, converted_never_other); load written against a `read` environment (read(1) per prefix byte, read(n), read(1)) on a "
                  "buffered reader over ANY segmentation of the stream equals load on the whole content "
                  "(read_chunk_independent, load_chunk_independent, load_same_for_all_segmentations). The model is tied to the code differentially on values, raw/mutated files and real flows "
                  "of every type; from_state∘get_state equality of flows is validated by the harness, not modelled: the clause 'identical state' has "
                  "its codec half (load(dumps v) = mirror v ≈ v) and its record half (n records -> n flows in order) in Lean; that "
                  "from_state(mirror(get_state f)) is f again for the flow and connection classes has no theorem (audit round 6, N1).")
    level_note = ("trusted: Lean kernel; the model/implementation tie is differential (random + defect-seeded inputs, not "
                  "exhaustive); float literals are tokens (Python float()/repr() assumed to round-trip; the model only decides "
                  "which literals float() accepts); of Flow.from_state∘compat.migrate_flow the version check and the type dispatch are transcribed and PREDICTED in the "
                  "tie (stage-resolved: the harness observes whether an exception came before any converter / field access); "
                  "what stays a parameter: the field-level checks of set_state (value types, Literal values, certificate PEMs, proxy-mode "
                  "specs, message tuples) — the shape conditions are NECESSARY for acceptance, not sufficient, and rely on Python asserts being "
                  "enabled; format 4 (convert_4_5 draws uuids) and the tuple-era formats (gate = defer), the two converter "
                  "branches C38_Conv leaves out (11→12 with websocket metadata, 13→14 adding 1 to a float timestamp) and records with a float "
                  "under a key the converters test for truthiness (convert = notModelled); version values with float components "
                  "(deferShape) and float-valued error/response/websocket (shape unknown); the flow-type table includes "
                  "the test helper's 'dummy' type because mitmproxy.test.tflow is imported by the harness; the HAR importer is a parameter "
                  "of the reader model (any outcome, exceptions classified ValueError / other Exception / non-Exception; "
                  "never_other assumes they raise no BaseException outside Exception, and — being total functions in the model — that they "
                  "terminate: the real migrate_flow did not (F-C36d, fixed), termination is checked by the harness with a per-case "
                  "timeout only); recursion head-room and allocation "
                  "limit are environment parameters, measured/inferred in the tie (the allocation limit is inferred from an observed "
                  "MemoryError only for length prefixes >= 2**32); relaxed comparisons of the oracle, each exercised by known_selftest "
                  "with doctored observations just outside it: flow states are compared by python equality (int/float numerically, "
                  "tuple/list, dict order, NaN=NaN — bool, str/bytes, list order, extra keys stay distinct), codec values with dicts as "
                  "finite maps and type-strict otherwise; expected states come from the flows built from the case spec before writing, "
                  "never from the reader, and — because get_state() itself is part of what is examined — every saved flow is also "
                  "compared with its reloaded copy attribute by attribute through an observer in the harness that does not call "
                  "get_state (same canonical comparison); flows are generated with every container-valued component at size 0 and "
                  "every optional component present-but-empty as well; the model tie (never the oracle) skips real-file / >6000-byte mutated files and two in three "
                  "flow files in the thorough tier, and reports 'har' for HAR-branch inputs; round-trip hypotheses: dict keys are "
                  "null/int/bytes/str and pairwise distinct, str payloads are valid UTF-8, ints have <= 4300 digits, "
                  "float tokens are accepted literals, record size < 10^12 bytes, nesting within the recursion head-room.")
    technique = "Lean 4 proof (structural induction over values, fuel-indexed parser) + differential model-vs-code correspondence"
    rule = ("val: random nested values (all scalar kinds, keys of every hashable kind) dumped and popped/loaded back; raw: "
            "tnetstring-shaped soups with seeded defects (signed/padded/underscored lengths, literal grammars, UTF-8 edge "
            "cases, unhashable keys, wrong tags) and random bytes; deep: nesting around the measured recursion limit; flows: "
            "1-4 flows of random types with every serialised field randomised, written with FlowWriter and read back; mut: "
            "flow files after byte-level and state-level mutations, some through real files with huge length prefixes; oldfmt: a stock flow state downgraded to format 5 … 20 with C38's inverse "
            "converters plus one defect (missing / junk connection fields, stale bytes version key, bad type, foreign key, state mutations) — "
            "the tie of the converter-chain transcription; fobj: multi-flow files "
            "whose first flow is padded byte by byte so that the next record's length prefix lands on every offset from 14 before to 2 "
            "after a multiple of the buffer size, read through real file objects (open() with default / 16 / 64 / 4096 / no buffering, "
            "BufferedReader over a raw stream with short reads of 1 / 7 / 4096 bytes, a pipe); hist: "
            "2-4 flows of mixed types that carry EQUAL nested values (same certificate PEMs, address tuples, header lists, metadata), "
            "some with a backup whose nested values differ, are written and loaded twice; ONE loaded flow then goes through 1-3 ordinary "
            "actions (revert, set_state from a donor, in-place Cert.set_state, connection set_state, header / message / address / metadata "
            "edits, backup+edit+revert) and every OTHER flow — in memory, saved and reloaded, from the second load, and from the original "
            "file read once more in the same process — must still have the state that was written. "
            "distinct = distinct case content; non-trivial = non-empty input.")
    budget = {"quick": 6000, "thorough": 60000}
    time_budget = {"quick": 15, "thorough": 180}
    fingerprints = ["mitmproxy.io.tnetstring:dumps", "mitmproxy.io.tnetstring:dump", "mitmproxy.io.tnetstring:_rdumpq",
                    "mitmproxy.io.tnetstring:load", "mitmproxy.io.tnetstring:parse", "mitmproxy.io.tnetstring:split",
                    "mitmproxy.io.tnetstring:pop", "mitmproxy.io.tnetstring:loads", "mitmproxy.io.io:FlowReader.stream",
                    "mitmproxy.io.io:FlowReader.peek", "mitmproxy.io.io:FlowWriter.add", "mitmproxy.io.io:FilteredFlowWriter.add",
                    "mitmproxy.io.compat:migrate_flow", "mitmproxy.flow:Flow.from_state"]
    trusted_base = ["CPython int()/float()/str(bytes,'utf8') on bytes-like objects as the primitives whose accept/reject "
                    "grammar the model transcribes; float(repr(x)) == x",
                    "get_state/from_state of the flow classes (validated by round trip, not modelled)"]
    parallel = True
    case_timeout = 60

    def on_timeout(self, case):
        # "Loading arbitrary bytes either yields flows or fails with a flow-read error": it has to return
        return [f"reading did not return within {self.case_timeout}s (the reader hangs on this input)"]

    # ---------------------------------------------------------------------------------------------
    def translate(self):
        # (T) the registered flow types (Flow.__types, with the test helper's DummyFlow since mitmproxy.test.tflow is
        # imported here) and — via C38's translator — the converter graph and current format version
        import dataclasses, inspect
        types = sorted(flow.Flow._Flow__types)
        def bl(t): return "[" + ", ".join("0x%02x" % c for c in t.encode()) + "]"
        def bll(ts): return "[" + ", ".join(bl(t) for t in ts) + "]"
        rows = ", ".join(bl(t) for t in types)
        def dc_fields(c): return [f.name for f in dataclasses.fields(c) if f.metadata.get("serialize", True) is not False]
        def init_params(c): return [n for n in inspect.signature(c.__init__).parameters if n != "self"]
        # the keys the set_state methods of each registered class pop WITHOUT default (required), read off their source;
        # "backup" is popped with a default (optional)
        def keys_of(t):
            import re
            cls, req = flow.Flow._Flow__types[t], []
            for c in cls.__mro__:
                if "set_state" in c.__dict__ and issubclass(c, flow.Flow):
                    src = inspect.getsource(c.__dict__["set_state"])
                    req = re.findall(r'state\.pop\(\s*"(\w+)"\s*\)', src) + req      # pops without default: required keys
            assert "version" in req and "type" in req and "client_conn" in req, req
            return list(dict.fromkeys(req))
        type_rows = ", ".join("(" + bl(t) + ", " + bll(keys_of(t)) + ")" for t in types)
        src = ("-- GENERATED on every run by harness/c36.py from the live classes of /repo — do not edit\n"
               "-- " + " ".join(types) + "\n"
               "import MitmVerif.Basic.Bytes\nnamespace MitmVerif.Gen.C36\nopen MitmVerif\n\n"
               f"def flowTypes : List Bytes := [{rows}]\n\n"
               "/-- per registered flow type: the top-level keys its set_state pops without default -/\n"
               f"def typeKeys : List (Bytes × List Bytes) := [{type_rows}]\n\n"
               f"def clientKeys : List Bytes := {bll(dc_fields(connection.Client))}\n"
               f"def serverKeys : List Bytes := {bll(dc_fields(connection.Server))}\n"
               f"def errorKeys : List Bytes := {bll(dc_fields(flow.Error))}\n"
               f"def requestKeys : List Bytes := {bll(init_params(http.Request))}\n"
               f"def responseKeys : List Bytes := {bll(init_params(http.Response))}\n"
               f"def websocketKeys : List Bytes := {bll(dc_fields(websocket.WebSocketData))}\n"
               f"def dnsKeys : List Bytes := {bll(dc_fields(dns.DNSMessage))}\n\n"
               "end MitmVerif.Gen.C36\n")
        out = {"MitmVerif/Gen/C36.lean": src}
        import c38
        out.update(c38.Check().translate())
        return out

    def setup(self, tier):
        # the quick tier is cheaper without a process pool (fork + pickling cost more than the cases)
        self.parallel = tier == "thorough"
        self.tier = tier
        self.known_selftest()

    def known_selftest(self):
        """the comparisons the oracle relaxes are exactly as wide as their reasons: doctored observations just outside each
        relaxed class must be rejected (independent of the tree under test; a disagreement ends the run as INFRA)"""
        def need(cond, what):
            if not cond: raise AssertionError("C36 oracle selftest: " + what)
        sc = state_canon
        # (L1) flow states: python equality of states — int/float numerically, tuple/list, dict order, NaN == NaN; nothing more
        need(sc(5) == sc(5.0) and sc((1, 2)) == sc([1, 2]) and sc({"a": 1, "b": 2}) == sc({"b": 2, "a": 1}), "numeric / sequence / dict-order equality")
        need(sc(float("nan")) == sc(float("nan")), "NaN equals NaN")
        need(sc(True) != sc(1) and sc(False) != sc(0) and sc(None) != sc(False), "bool is not an int here")
        need(sc("a") != sc(b"a") and sc("") != sc(None) and sc([]) != sc({}), "str / bytes / None / containers stay apart")
        need(sc(5) != sc(5.5) and sc(2 ** 53 + 1) != sc(float(2 ** 53)) and sc(0.1) != sc(0.10000000000000002), "numbers that differ")
        need(sc([1, 2]) != sc([2, 1]) and sc({"a": [1, 2]}) != sc({"a": [2, 1]}), "list order matters")
        need(sc({"a": 1}) != sc({"a": 1, "b": None}), "an extra key")
        # (L2) codec level: dicts as finite maps, everything else type-strict
        cu = lambda v: canon_unordered(canon(v))
        need(cu({"a": 1, "b": [1, {"x": 1, "y": 2}]}) == cu({"b": [1, {"y": 2, "x": 1}], "a": 1}), "dict order is not demanded")
        need(cu(1) != cu(True) and cu(1) != cu(1.0) and cu("a") != cu(b"a") and cu([1, 2]) != cu([2, 1]), "type-strict otherwise")
        ok_val = {"orig": canon({"a": 1, "b": 2}), "back": canon({"b": 2, "a": 1}), "tail_hex": "78",
                  "pop": ["ok", canon({"b": 2, "a": 1}), "78"], "load": ["ok", canon({"b": 2, "a": 1}), "78"]}
        need(self.oracle({"k": "val"}, ok_val) == [], "a mirrored dict is a round trip")
        need(self.oracle({"k": "val"}, {**ok_val, "back": canon({"b": 2, "a": True})}), "a changed value is not")
        need(self.oracle({"k": "val"}, {**ok_val, "pop": ["ok", canon({"b": 2, "a": 1}), "7879"]}), "pop must leave exactly the tail")
        need(self.oracle({"k": "val"}, {**ok_val, "load": ["err", "ValueError"]}), "load must succeed on a dumped value")
        # the reader clause: a clean end or FlowReadException, nothing else
        need(self.oracle({"k": "raw"}, {"read": [0, "flowRead"]}) == [] and self.oracle({"k": "raw"}, {"read": [3, "clean"]}) == [], "allowed endings")
        need(self.oracle({"k": "raw"}, {"read": [0, "other:KeyError"]}) and self.oracle({"k": "mut"}, {"read": [1, "other:RecursionError"]}), "escaping exceptions")
        need(self.oracle({"k": "deep"}, {"res": ["err", "other:RecursionError"]}) and not self.oracle({"k": "deep"}, {"res": ["err", "RecursionError"]}), "deep nesting")
        good = {"read": [2, "clean"], "n": 2, "equal": [True, True], "diff": None, "read2": [2, "clean"], "equal2": [True, True], "types": ["http", "tcp"],
                "equal_attr": [True, True], "diff_attr": None}
        need(self.oracle({"k": "flows"}, {**good, "equal_attr": [True, False], "diff_attr": "/websocket"}), "a component that get_state() drops on both sides")
        need(self.oracle({"k": "flows"}, good) == [], "two flows written and read back")
        need(self.oracle({"k": "flows"}, {**good, "equal": [True, False], "diff": "x"}), "a flow whose state changed")
        need(self.oracle({"k": "flows"}, {**good, "read": [1, "clean"]}), "a flow lost")
        need(self.oracle({"k": "flows"}, {**good, "read": [2, "flowRead"]}), "an error after the flows of an intact file")
        need(self.oracle({"k": "flows"}, {**good, "read2": [2, "clean"], "equal2": [False, True]}), "second generation differs")
        hgood = {"n": 2, "reads": [[2, "clean"], [2, "clean"]], "victim": 0, "ops": ["revert"],
                 "checks": [["first load", 0, True, None], ["other flows of the same load, after the change", 1, True, None]]}
        need(self.oracle({"k": "hist"}, hgood) == [], "a history that leaves the other flows alone")
        need(self.oracle({"k": "hist"}, {**hgood, "checks": hgood["checks"] + [["the original file read again after the change", 1, False, "x"]]}),
             "another flow changed by the history")
        need(self.oracle({"k": "hist"}, {**hgood, "reads": [[2, "clean"], [2, "other:KeyError"]]}), "a later read escaping")
        need(self.oracle({"k": "hist"}, {**hgood, "reads": [[1, "clean"], [2, "clean"]]}), "first load incomplete")
        need(self.on_timeout({"k": "raw"}), "a hang is a violation")
        # the allocation limit is taken from the run only for absurd length prefixes
        need(self._mem_limit(["err", "MemoryError"], b"99999999999:abc") == 99999999998, "huge prefix: limit inferred")
        need(self._mem_limit(["err", "MemoryError"], b"70000:abc") == BIG and self._mem_limit(["err", "IndexError"], b"99999999999:abc") == BIG,
             "a MemoryError on a small prefix, or no MemoryError, is not attributed to the environment")

    def generate(self, rng, tier):
        yield from self.fixed_cases()
        heavy = 1.0 if tier == "thorough" else 0.7        # share of flow-file cases (large protocol lines)
        while True:
            c = rng.random()
            seed = rng.getrandbits(48)
            if c < 0.10 * heavy: yield {"k": "flows", "specs": rspecs(rng, n=None if tier == "thorough" else rng.choice([1, 1, 2]))}
            elif c < 0.45 * heavy: yield {"k": "mut", "specs": rspecs(rng, n=rng.choice([1, 1, 2, 3]), plain_p=0.5), "seed": seed,
                                          **({"file": 1} if rng.chance(0.03) else {})}
            elif c < 0.46 * heavy + 0.01: yield {"k": "deep", "seed": seed}
            elif c < 0.46 * heavy + 0.03: yield {"k": "oldfmt", "seed": seed}
            elif c < 0.46 * heavy + 0.07: yield {"k": "hist", "seed": seed}
            elif c < 0.46 * heavy + 0.12:
                B = rng.choice([4096, 4096, 8192, 64, 16, 1000])
                yield {"k": "fobj", "specs": rspecs(rng, n=rng.choice([2, 2, 3]), plain_p=0.7), "j": 1, "B": B,
                       "delta": rng.randint(-14, 2), "how": rng.pick(FOBJ_KINDS)}
            elif rng.chance(0.5): yield {"k": "val", "seed": seed}
            else: yield {"k": "raw", "seed": seed, **({"file": 1} if rng.chance(0.05) else {})}

    def fixed_cases(self):
        for t in FLOW_TYPES:
            yield {"k": "flows", "specs": [{"t": t, "seed": 1, "plain": 1}]}
            yield {"k": "flows", "specs": [{"t": t, "seed": 7}]}
        yield {"k": "flows", "specs": [{"t": t, "seed": 3} for t in FLOW_TYPES]}
        for t in FLOW_TYPES:          # every container-valued component at size 0; optional components present but empty
            for lvl in (1, 2):
                yield {"k": "flows", "specs": [{"t": t, "seed": 5, "empty": lvl}]}
                yield {"k": "flows", "specs": [{"t": t, "seed": 6, "plain": 1, "empty": lvl}]}
        for op in HIST_OPS:
            yield {"k": "hist", "seed": 11, "ops": [op], "victim": 0}
        for ver in range(5, 21):
            yield {"k": "oldfmt", "seed": ver, "ver": ver, "variant": "plain"}
            yield {"k": "oldfmt", "seed": 100 + ver, "ver": ver}
        # the second record's length prefix on every offset around the buffer boundary, through every kind of file object
        two = [{"t": "tcp", "seed": 1, "plain": 1}, {"t": "http", "seed": 2, "plain": 1}]
        for delta in range(-14, 3):
            for how in ("open", "open4096", "short4096"):
                yield {"k": "fobj", "specs": two, "j": 1, "B": 4096, "delta": delta, "how": how}
        for how in FOBJ_KINDS:
            yield {"k": "fobj", "specs": two + [{"t": "dns", "seed": 3, "plain": 1}], "j": 2, "B": 8192, "delta": -3, "how": how}
        for e in ("pop", "load", "reader"):
            for delta in (-2, -1, 0, 1, 2, 40):
                yield {"k": "deep", "entry": e, "delta": delta, "seed": 0}

    # ---- case materialisation ----------------------------------------------------------------
    def raw_data(self, case):
        if "data_hex" in case: return unhx(case["data_hex"])
        if case["k"] == "oldfmt": return oldfmt_record(case)
        r = random.Random(case["seed"])
        c = r.random()
        if c < 0.62: d = rsoup(r)
        elif c < 0.72: d = b"".join(rsoup(r) for _ in range(r.randint(2, 3)))
        elif c < 0.80: d = mutate_bytes(r, tnetstring.dumps(rvalue(r)))
        elif c < 0.86: d = bytes(r.getrandbits(8) for _ in range(r.randint(0, 40)))
        elif c < 0.90: d = r.choice([b"", b"{", b"\xef\xbb\xbf{", b"\xef\xbb\xbf", b"{}", b'{"log":{"entries":[]}}', b"\xef\xbb\xbf" + b'{"log":{"entries":[1]}}',
                                     b'{"log"', b"[" * 5000, b"{" + b'"a":[' * 3000])
        elif c < 0.93:
            # a complete flow state whose version / type fields take every shape the reader's dispatch distinguishes
            st = build_flow({"t": r.choice(FLOW_TYPES), "seed": r.getrandbits(32), "plain": 1}).get_state()
            vers = [21, 20, 19, 10, 4, 3, 22, 99, 0, -1, True, False, None, 1.5, 21.0, "21", "", b"\x00\x0b", b"\x00\x12\x07", b"ab", b"", [0, 11], [0, 18],
                    [0, 11, 5], [3, 0], [1, 0], [2, 0, 0], [False, 11], [0.0, 11], [[1], 2], [0, {}], [0], [], [-1, 2], ["0", "11"], [None, None], {"a": 1}, {},
                    {0: 1, 11: 2}, {3: 0, 0: 0}, {1.5: 0}, [21], [21, 0], 2**70]
            types = ["http", "tcp", "udp", "dns", "dummy", "xx", "", "HTTP", b"http", None, 5, True, 1.5, [1], {}, ["http"]]
            which = r.randrange(6)
            if which in (0, 1, 2): st["version"] = r.choice(vers)
            if which == 2: st[b"version"] = r.choice(vers)
            if which == 3: del st["version"]; st[b"version"] = r.choice(vers)
            if which == 4: st["type"] = r.choice(types)
            if which == 5:
                if r.random() < 0.5: del st["type"]
                else: st[b"type"] = st.pop("type")
            if r.random() < 0.2: st["type"] = r.choice(types)
            d = tnetstring.dumps(st)
            if r.random() < 0.3: d = tnetstring.dumps(build_flow({"t": "tcp", "seed": 1, "plain": 1}).get_state()) + d
        elif c < 0.95: d = tnetstring.dumps(r.choice([{}, {"version": 21}, {"version": 21, "type": "http"}, {b"version": [0, 18]}, {"version": 99},
                                                       {"version": "x"}, {"version": 21, "type": "dns", "id": "x"}, {"version": [0]}, {"version": None}, [1, 2], 5, {"version": 4}]))
        else:
            n = r.choice([10**11 - 1, 10**12 - 1, 99999999999, 999999999999, 2**40, 10**10 * 5, 4096, 70000])
            d = str(n).encode() + b":" + rbytes(r) + r.choice([b"", b",", b"}"])
        return d

    def mut_data(self, case):
        if "data_hex" in case: return unhx(case["data_hex"])
        r = random.Random(case["seed"])
        flows = [build_flow(s) for s in case["specs"]]
        c = r.random()
        if c < 0.6:
            data, _ = write_flows(flows)
            return mutate_bytes(r, data)
        parts = []
        target = r.randrange(len(flows))
        for i, f in enumerate(flows):
            st = f.get_state()
            if i == target:
                for _ in range(r.choice([1, 1, 2])): st = mutate_state(r, st)
            parts.append(tnetstring.dumps(st))
        return b"".join(parts)

    # ---- implementation ----------------------------------------------------------------------
    def _impl(self, case):
        k = "raw" if case["k"] == "oldfmt" else case["k"]
        if k == "val":
            v = rvalue(random.Random(case["seed"])) if "wire" not in case else from_wire(case["wire"])
            d = tnetstring.dumps(v)
            tail = b"5:tail,"
            back = tnetstring.loads(d)
            return {"wire": to_wire(v), "dumps_hex": hx(d), "orig": canon(v), "back": canon(back),
                    "pop": run_pop(d + tail), "load": run_load(io.BytesIO(d + tail)), "tail_hex": hx(tail)}
        if k == "raw":
            data = self.raw_data(case)
            obs = {"data_hex": hx(data), "pop": run_pop(data)}
            if case.get("file"):
                with tempfile.NamedTemporaryFile(prefix="c36-", dir=None) as tf:
                    tf.write(data); tf.flush()
                    with open(tf.name, "rb") as fo: obs["load"] = run_load(fo)
                    with open(tf.name, "rb") as fo: obs["read"] = run_reader(fo)
            else:
                obs["load"] = run_load(io.BytesIO(data))
                obs["read"] = run_reader(io.BytesIO(data))
            obs["outcomes"] = record_outcomes(data)
            return obs
        if k == "deep":
            r = random.Random(case["seed"])
            entry = case.get("entry") or r.choice(["pop", "load", "reader"])
            D = measured_depth(entry, _stack_depth())       # probes run at depth(_impl)+2
            delta = case["delta"] if "delta" in case else r.choice([-3, -1, 0, 1, 2, 5, 100])
            levels = max(1, D + 1 + delta)
            shape = r.randrange(4) if case["seed"] else 0
            inner = [b"", b"1:x,", b"1:1#1:2#", b"0:}"][shape]
            data = nest(levels, inner)
            if shape == 3 or (case["seed"] and r.random() < 0.3):      # put the tower inside a dict value / key position
                data = b"1:k," + data
                data = str(len(data)).encode() + b":" + data + b"}"
            return {"entry": entry, "D": D, "data_hex": hx(data), "res": deep_call(entry, data)}      # depth(_impl)+2 as well
        if k == "flows":
            flows = [build_flow(s) for s in case["specs"]]
            states = [f.get_state() for f in flows]
            data, bounds = write_flows(flows)
            seen_before = [observe(f) for f in flows]                    # the flows as the user sees them, before saving
            res, back = run_reader(io.BytesIO(data), want_states=True)
            ok = [state_canon(a) == state_canon(b) for a, b in zip(states, back)]
            diff = None
            if not all(ok):
                i = ok.index(False); diff = self.first_diff(states[i], back[i])
            # the same comparison without get_state(): attribute by attribute on the loaded objects
            try:
                loaded = list(FlowReader(io.BytesIO(data)).stream())
            except exceptions.FlowReadException:
                loaded = []
            seen_after = [observe(f) for f in loaded]
            ok_attr = [state_canon(a) == state_canon(b) for a, b in zip(seen_before, seen_after)]
            diff_attr = None
            if not all(ok_attr):
                i = ok_attr.index(False); diff_attr = self.first_diff(seen_before[i], seen_after[i])
            # second generation: what was loaded saves to the same states again
            data2, _ = write_flows([flow.Flow.from_state(s) for s in [f.get_state() for f in FlowReader(io.BytesIO(data)).stream()]]) if res[1] == "clean" else (b"", None)
            res2, back2 = run_reader(io.BytesIO(data2), want_states=True) if res[1] == "clean" else ([0, "skipped"], [])
            ok2 = [state_canon(a) == state_canon(b) for a, b in zip(states, back2)]
            return {"read": res, "n": len(flows), "equal": ok, "diff": diff, "read2": res2, "equal2": ok2,
                    "equal_attr": ok_attr, "diff_attr": diff_attr,
                    "records_hex": [hx(data[a:b]) for a, b in zip(bounds, bounds[1:])],
                    "wires": [to_wire(s) for s in states], "types": [s["type"] for s in states]}
        if k == "fobj":
            flows, data, bounds = padded_flows(case["specs"], case["j"], case["B"], case["delta"])
            want = [state_canon(f.get_state()) for f in flows]
            d = tempfile.mkdtemp(prefix="c36-")
            try:
                res, states = read_through(case["how"], data, d)
            finally:
                import shutil
                shutil.rmtree(d, ignore_errors=True)
            ok = [state_canon(a) == b for a, b in zip(states, want)]
            return {"read": res, "n": len(flows), "equal": ok, "diff": None if all(ok) else self.first_diff(flows[ok.index(False)].get_state(), states[ok.index(False)]),
                    "bounds": bounds, "len": len(data), "data_hex": hx(data) if len(data) <= 12000 else None}
        if k == "hist":
            flows, donors, plan = build_hist(case)
            want = [state_canon(f.get_state()) for f in flows]          # what is written: the reference for every check below
            raw_states = [f.get_state() for f in flows]
            data, _ = write_flows(flows)
            checks = []
            def compare(stage, states, idxs):
                for j, stt in zip(idxs, states):
                    ok = state_canon(stt) == want[j]
                    checks.append([stage, j, ok, None if ok else self.first_diff(raw_states[j], stt)])
            def load(b):
                res, states_ = [0, "clean"], None
                fl = []
                try:
                    for f in FlowReader(io.BytesIO(b)).stream(): fl.append(f)
                except exceptions.FlowReadException: res[1] = "flowRead"
                except CaseTimeout: raise
                except BaseException as e: res[1] = "other:" + type(e).__name__      # noqa
                res[0] = len(fl)
                return res, fl
            r1, first = load(data)
            r2, second = load(data)                                      # a second, independent load of the same file
            reads = [r1, r2]
            compare("first load", [f.get_state() for f in first], range(len(first)))
            v = plan["victim"]
            applied = []
            if len(first) == len(flows):
                for op in plan["ops"]:
                    try:
                        apply_hist_op(op, first[v], donors[v], plan["y"]); applied.append(op)
                    except CaseTimeout: raise
                    except Exception as e:      # the action itself failed on this flow type: not what is examined here
                        applied.append(op + ":" + type(e).__name__)
                others = [j for j in range(len(flows)) if j != v]
                # the flows that were not touched, as they stand in memory
                compare("other flows of the same load, after the change", [first[j].get_state() for j in others], others)
                compare("flows of a second load, after the change", [f.get_state() for f in second], range(len(second)))
                # saved again and reloaded
                d2, _ = write_flows([first[j] for j in others])
                r3, again = load(d2); reads.append(r3)
                if r3[0] == len(others):
                    compare("other flows saved and reloaded after the change", [f.get_state() for f in again], others)
                else:
                    checks.append(["other flows saved and reloaded after the change", -1, False, f"read back {r3}"])
                # the original file, read once more in the same process
                r4, third = load(data); reads.append(r4)
                if r4[0] == len(flows):
                    compare("the original file read again after the change", [f.get_state() for f in third], range(len(third)))
                else:
                    checks.append(["the original file read again after the change", -1, False, f"read back {r4}"])
            return {"n": len(flows), "reads": reads, "checks": checks, "ops": applied, "victim": v,
                    "types": [f.type for f in flows], "backups": [f._backup is not None for f in flows]}
        if k == "mut":
            data = self.mut_data(case)
            if case.get("file"):
                with tempfile.NamedTemporaryFile(prefix="c36-") as tf:
                    tf.write(data); tf.flush()
                    with open(tf.name, "rb") as fo: res = run_reader(fo)
            else:
                res = run_reader(io.BytesIO(data))
            return {"read": res, "len": len(data), "data_hex": hx(data) if len(data) <= 6000 else None, "sha": digest(data),
                    "outcomes": record_outcomes(data)}
        raise ValueError(k)

    @staticmethod
    def first_diff(a, b, path=""):
        if isinstance(a, dict) and isinstance(b, dict):
            for k in set(a) | set(b):
                if k not in a or k not in b: return f"{path}/{k}: present on one side only"
                d = Check.first_diff(a[k], b[k], f"{path}/{k}")
                if d: return d
            return None
        if isinstance(a, (list, tuple)) and isinstance(b, (list, tuple)):
            if len(a) != len(b): return f"{path}: length {len(a)} vs {len(b)}"
            for i, (x, y) in enumerate(zip(a, b)):
                d = Check.first_diff(x, y, f"{path}[{i}]")
                if d: return d
            return None
        return None if state_canon(a) == state_canon(b) else f"{path}: {a!r} vs {b!r}"[:300]

    # ---- the property ------------------------------------------------------------------------
    def oracle(self, case, obs):
        k = "raw" if case["k"] == "oldfmt" else case["k"]
        fails = []
        def reader_ok(res):
            # "Loading arbitrary bytes either yields flows or fails with a flow-read error, never with any other exception."
            if res[1] not in ("clean", "flowRead"):
                fails.append(f"FlowReader.stream raised {res[1][6:]} (not FlowReadException) after {res[0]} flows")
        if k == "val":
            # codec level of "saving … and loading it back yields … identical state": loads(dumps(v)) == v (dicts as finite maps)
            if canon_unordered(obs["back"]) != canon_unordered(obs["orig"]):
                fails.append("loads(dumps(v)) != v")
            for w in ("pop", "load"):
                if obs[w][0] != "ok" or canon_unordered(obs[w][1]) != canon_unordered(obs["orig"]) or obs[w][2] != obs["tail_hex"]:
                    fails.append(f"{w}(dumps(v) + tail) does not return (v, tail): {str(obs[w])[:200]}")
        elif k == "raw":
            reader_ok(obs["read"])
        elif k == "deep":
            if obs["res"][0] == "err" and obs["res"][1].startswith("other:"):
                fails.append("deep nesting: " + obs["res"][1])
        elif k == "flows":
            # "saving them to a flow file and loading it back yields flows with identical state in the same order"
            reader_ok(obs["read"])
            if not fails:
                if obs["read"] != [obs["n"], "clean"]:
                    fails.append(f"wrote {obs['n']} flows, read back {obs['read']}")
                elif not all(obs["equal"]):
                    fails.append(f"flow #{obs['equal'].index(False)} ({obs['types'][obs['equal'].index(False)]}) state differs after load: {obs['diff']}")
                elif obs["read2"] != [obs["n"], "clean"] or not all(obs["equal2"]):
                    fails.append(f"second save/load generation differs: {obs['read2']}")
                elif len(obs.get("equal_attr", [])) != obs["n"] or not all(obs["equal_attr"]):
                    i = obs["equal_attr"].index(False) if False in obs.get("equal_attr", []) else -1
                    fails.append(f"flow #{i} ({obs['types'][i]}) differs from the flow that was saved, seen attribute by attribute "
                                 f"(not through get_state): {obs.get('diff_attr')}")
        elif k == "mut":
            reader_ok(obs["read"])
        elif k == "fobj":
            # the same sentence as for `flows`; the file reaches the reader through a real file object
            reader_ok(obs["read"])
            if not fails:
                if obs["read"] != [obs["n"], "clean"]:
                    fails.append(f"wrote {obs['n']} flows (records at {obs['bounds']}), read back {obs['read']} through {case['how']}")
                elif not all(obs["equal"]):
                    fails.append(f"flow #{obs['equal'].index(False)} state differs after load through {case['how']}: {obs['diff']}")
        elif k == "hist":
            # "saving them to a flow file and loading it back yields flows with identical state in the same order" — for every
            # flow of the file, whatever was done to ANOTHER loaded flow in the meantime: state read back == state written
            for rd in obs["reads"]: reader_ok(rd)
            if obs["reads"][0] != [obs["n"], "clean"]:
                fails.append(f"wrote {obs['n']} flows, read back {obs['reads'][0]}")
            for stage, j, ok, diff in obs["checks"]:
                if not ok:
                    fails.append(f"{stage}: flow #{j} no longer has the state that was written ({diff}); changed flow #{obs['victim']} by {obs['ops']}")
        return fails

    # ---- model tie ---------------------------------------------------------------------------
    # The protocol lines depend on the materialised input and on environment parameters observed while running
    # the real code (recursion head-room, from_state outcome per record, allocation failure). The runner calls
    # impl() and then model_lines() for the same case in the same process, so impl() leaves its observable here.
    _memo = (None, None)

    def _remember(self, case, obs):
        self._memo = (json.dumps(case, sort_keys=True), obs)
        return obs

    def _obs(self, case):
        key = json.dumps(case, sort_keys=True)
        if self._memo[0] != key:
            self._remember(case, self._impl(case))
        return self._memo[1]

    def impl(self, case):
        return self._remember(case, self._impl(case))

    tier = "quick"

    def model_lines(self, case):
        k = "raw" if case["k"] == "oldfmt" else case["k"]
        if self.tier == "thorough" and k in ("flows", "mut") and case["specs"][0]["seed"] % 3:
            return None       # whole flow files are large protocol lines: the thorough tier ties every third of them
        obs = self._obs(case)
        if k == "val":
            d = unhx(obs["dumps_hex"]) + unhx(obs["tail_hex"])
            return [f"dumps {obs['wire']}", f"enc {obs['wire']}", f"pop {D_NORMAL} {hx(d)}", f"load {BIG} {D_NORMAL} {hx(d)}"]
        if k == "raw":
            h = obs["data_hex"]
            # allocation limit of this machine, inferred from the run: MemoryError was observed iff the claimed
            # record length exceeds it (in-memory files never fail to "allocate")
            mem = self._mem_limit(obs["load"], unhx(h))
            # the same content through the model's buffered reader over a random segmentation (cuts also inside the length prefix)
            n = len(unhx(h))
            rr = random.Random(n * 31 + (unhx(h)[0] if n else 0))
            cuts = sorted(set([c for c in (1, 2, 3) if c < n and rr.random() < 0.5] + [rr.randrange(n) for _ in range(rr.choice([0, 1, 3]))])) if n else []
            return [f"pop {D_NORMAL} {h}", f"load {mem} {D_NORMAL} {h}", f"read {mem} {D_NORMAL} {obs['outcomes']} {h}",
                    f"loadseg {mem} {D_NORMAL} {h} {','.join(map(str, cuts)) or '-'}"]
        if k == "deep":
            e, D, h = obs["entry"], obs["D"], obs["data_hex"]
            return [f"pop {D} {h}"] if e == "pop" else [f"load {BIG} {D} {h}"]
        if k == "flows":
            out = [f"dumps {w}" for w in obs["wires"]]
            allhex = "".join(h for h in obs["records_hex"] if h != "-") or "-"
            out.append(f"read {BIG} {D_NORMAL} {'o' * obs['n']} {allhex}")
            return out
        if k == "fobj":
            if obs["data_hex"] is None: return None
            return [f"read {BIG} {D_NORMAL} {'o' * obs['n']} {obs['data_hex']}"]
        if k == "hist":
            return None          # histories are judged by the oracle alone (the codec/reader tie runs on the other kinds)
        if k == "mut":
            if obs["data_hex"] is None or case.get("file"): return None
            return [f"read {BIG} {D_NORMAL} {obs['outcomes']} {obs['data_hex']}"]
        return None

    @classmethod
    def _mem_limit(cls, load_obs, data):
        """the one environment value the model takes from the run: the allocation limit. A MemoryError is attributed to it only
        for a claimed record length of at least 2**32 bytes (no smaller read can fail to allocate on a machine that runs this);
        otherwise the model is told "no limit" and a MemoryError shows up as a disagreement."""
        n = cls._claimed_len(data)
        if load_obs == ["err", "MemoryError"] and n >= 2 ** 32:
            return n - 1
        return BIG

    @staticmethod
    def _claimed_len(data):
        i = 0
        while i < len(data) and i < 13 and 0x30 <= data[i] <= 0x39: i += 1
        return int(data[:i]) if i else 0

    def model_obs(self, case, replies):
        k = "raw" if case["k"] == "oldfmt" else case["k"]
        def res(s):
            p = s.split(" ")
            if p[0] == "ok": return ["ok", canon(from_wire(p[1])), p[2]]
            if p[0] == "err": return ["err", p[1]]
            return s
        if k == "val":
            return {"dumps": replies[0], "enc": replies[1], "pop": res(replies[2]), "load": res(replies[3])}
        if k == "raw":
            return {"pop": res(replies[0]), "load": res(replies[1]), "read": replies[2], "loadseg": res(replies[3])}
        if k == "deep":
            r = replies[0].split(" ")
            if case.get("entry", self._obs(case)["entry"]) == "reader":
                return "rec" if r[:2] == ["err", "RecursionError"] else "norec"
            return r[0] if r[0] == "ok" else " ".join(r[:2])
        if k == "flows":
            return {"records": replies[:-1], "read": replies[-1]}
        if k in ("mut", "fobj"):
            return replies[0]

    def impl_view(self, case, obs):
        k = "raw" if case["k"] == "oldfmt" else case["k"]
        def rd(r):
            return "har" if self._is_har(obs, case) else f"{r[0]} {'escapes' if r[1].startswith('other:') else r[1]} {obs['outcomes']}"
        if k == "val":
            return {"dumps": obs["dumps_hex"], "enc": obs["dumps_hex"], "pop": obs["pop"], "load": obs["load"]}
        if k == "raw":
            return {"pop": obs["pop"], "load": obs["load"], "read": rd(obs["read"]), "loadseg": obs["load"]}
        if k == "deep":
            r = obs["res"]
            if obs["entry"] == "reader":
                return "rec" if r == ["err", "RecursionError"] else "norec"
            return r[0] if r[0] == "ok" else "err " + r[1]
        if k == "flows":
            return {"records": obs["records_hex"], "read": f"{obs['read'][0]} {obs['read'][1]} {'o' * obs['n'] or '-'}"}
        if k == "fobj":
            return f"{obs['read'][0]} {obs['read'][1]} {'o' * obs['n']}"
        if k == "mut":
            return rd(obs["read"])

    @staticmethod
    def _is_har(obs, case):
        h = obs.get("data_hex")
        if not h: return False
        d = unhx(h)[:4]
        return d[:1] == b"{" or d == b"\xef\xbb\xbf{"

    def classify(self, case, obs):
        if case["k"] in ("val", "raw", "deep", "oldfmt"):
            key = obs.get("data_hex") or obs.get("dumps_hex")
            return None if key in (None, "-") else (case["k"], digest(key.encode()))
        return (case["k"], digest(json.dumps(case, sort_keys=True).encode()))

    def branches(self, case, obs):
        k = "raw" if case["k"] == "oldfmt" else case["k"]
        out = ["kind:" + k]
        if k == "raw":
            out.append("raw:load:" + (obs["load"][1] if obs["load"][0] == "err" else "ok"))
            out.append("raw:pop:" + (obs["pop"][1] if obs["pop"][0] == "err" else "ok"))
            out.append("raw:read:" + obs["read"][1])
            if case.get("file"): out.append("raw:real-file")
            if obs["outcomes"] != "-": out.append("raw:from_state:" + obs["outcomes"][-1])
            if case["k"] == "oldfmt": out.append("oldfmt:" + obs["outcomes"][-1:])
        elif k == "mut":
            out.append("mut:read:%s:%s" % (min(obs["read"][0], 3), obs["read"][1]))
            oc = obs["outcomes"]
            if oc[-1:] in ("v", "x", "V", "X", "w", "y"): out.append("mut:from_state:" + oc[-1])
        elif k == "flows":
            for sp in case["specs"]: out.append("flow:" + sp["t"] + (":stock" if sp.get("plain") else ""))
        elif k == "deep":
            out.append("deep:%s:%s" % (obs["entry"], obs["res"][0] if obs["res"][0] == "ok" else obs["res"][1]))
        elif k == "fobj":
            out.append("fobj:" + case["how"]); out.append("fobj:B%d" % case["B"]); out.append("fobj:delta%+d" % case["delta"])
        elif k == "hist":
            for op in obs["ops"]: out.append("hist:" + op)
            out.append("hist:victim-has-backup:%s" % obs["backups"][obs["victim"]])
            for t in obs["types"]: out.append("hist:flow:" + t)
        return out

    def describe(self, case, obs):
        o = {a: b for a, b in obs.items() if a not in ("records_hex", "wires")}
        return {"case": case, "impl": json.loads(json.dumps(o, default=str)[:1500]) if len(json.dumps(o, default=str)) <= 1500 else str(o)[:1500]}

    def neighbours(self, case, rng):
        for _ in range(300):
            c = dict(case); c["seed"] = rng.getrandbits(48); c.pop("data_hex", None)
            yield c

    def exhaustive(self, tier):
        return iter(self.fixed_cases())
