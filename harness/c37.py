"""C37 — flow files are crash-consistent (mitmproxy/io/io.py, io/tnetstring.py, addons/save.py, addons/readfile.py).
Value codec, flow builder and reader wrappers are shared with harness/c36.py."""
import io, json, os, random, shutil, tempfile, warnings
from common.check import PropertyCheck, CaseTimeout, hx, unhx

warnings.simplefilter("ignore", DeprecationWarning)
import c36
from c36 import build_flow, rspecs, write_flows, run_reader, state_canon, to_wire, digest, FLOW_TYPES, BIG, D_NORMAL
from mitmproxy import exceptions, http
from mitmproxy import io as mio
from mitmproxy.addons import save as save_addon
from mitmproxy.addons import readfile as readfile_addon
import asyncio
from mitmproxy.test import taddons

CHUNK = 150        # offsets per truncation case


class addon_ctx:
    """taddons.context that also uninstalls the master's stdlib-logging bridge on exit (taddons leaves it installed,
    pointing at a closed event loop, which makes every later logging call in this process raise)"""
    def __init__(self, *addons):
        self.ctx = taddons.context(*addons)
    def __enter__(self):
        return self.ctx.__enter__()
    def __exit__(self, *a):
        try:
            self.ctx.master._legacy_log_events.uninstall()
        except Exception:
            pass
        return self.ctx.__exit__(*a)


async def readfile_counts(cuts):
    """the ReadFile addon on each truncated content: (flows handed to the master, how it ended)"""
    out = []
    rf = readfile_addon.ReadFile()
    with addon_ctx(rf) as tctx:
        for cut in cuts:
            loaded = []
            async def lf(f, loaded=loaded): loaded.append(f)
            tctx.master.load_flow = lf
            try:
                await rf.load_flows(io.BytesIO(cut)); end = "clean"
            except exceptions.FlowReadException:
                end = "flowRead"
            except CaseTimeout:
                raise
            except BaseException as e:  # noqa
                end = "other:" + type(e).__name__
            out.append(([state_canon(f.get_state()) for f in loaded], end))
    return out


def expected_at(bounds, off):
    """(number of records wholly inside the first `off` bytes, does `off` sit on a record boundary)"""
    k = sum(1 for b in bounds[1:] if b <= off)
    return k, off in bounds


def frame_bounds(data):
    """record boundaries of a flow file by an independent reading of the framing (<decimal length>:<payload><tag>),
    not by asking the writer where it stood; None if the bytes are not a sequence of such frames"""
    out, i = [0], 0
    while i < len(data):
        j = i
        while j < len(data) and 0x30 <= data[j] <= 0x39: j += 1
        if j == i or j >= len(data) or data[j] != 0x3a: return None
        end = j + 1 + int(data[i:j]) + 1
        if end > len(data): return None
        out.append(end); i = end
    return out


def judge_cut(ek, res, same):
    """C37 on one truncated file: exactly the `ek` completely written flows (same = their states equal the written ones,
    in order), then a clean end or a flow-read error. Which of the two endings occurs is NOT demanded by the statement."""
    return res[0] == ek and res[1] in ("clean", "flowRead") and bool(same)


def judge_stream_file(res, got, segs):
    """C37 on a stream file at some moment. `segs` is what the INPUTS say belongs in it: ("seq", states) = flows finished by
    save hooks, in hook order; ("set", states) = the flows still active when done() ran (it walks a set: any order).
    The file has to read — clean end or flow-read error, nothing else — as exactly these, segment by segment."""
    if res[1] not in ("clean", "flowRead") or res[0] != len(got): return False
    i = 0
    for kind, items in segs:
        part = got[i:i + len(items)]; i += len(items)
        if kind == "seq":
            if part != items: return False
        elif sorted(map(json.dumps, part)) != sorted(map(json.dumps, items)): return False
    return i == len(got)


def seg_count(segs):
    return sum(len(items) for _, items in segs)


def seg_add(segs, state):
    if segs and segs[-1][0] == "seq": segs[-1][1].append(state)
    else: segs.append(("seq", [state]))


def restart_allowed(event, same_path, plus):
    """the only event after which an already written stream file may start afresh although it is the file being streamed to:
    the USER sets save_stream_file to that path in overwrite mode. Never a filter change, never an append-mode spec, never a hook."""
    return event == "file" and same_path and not plus


def sample_offsets(r, bounds, lo, hi, n=10):
    s = set()
    for b in bounds:
        for d in (-2, -1, 0, 1, 2, 3):
            if lo <= b + d <= hi: s.add(b + d)
    for _ in range(n):
        s.add(r.randint(lo, hi))
    return sorted(s)


class Check(PropertyCheck):
    prop = "C37"
    design_ref = "§5 C37"
    level_text = ("Lean theorems about C36's reader/codec model plus the writer model (append dumps, flush): for a file "
                  "that is the concatenation of n dumped flow states, EVERY prefix reads as exactly the first k flows "
                  "(k = records wholly inside the prefix), in order, ending cleanly iff the prefix stops on a record "
                  "boundary and with FlowReadException otherwise (prefix_yields_complete_records_only, "
                  "partial_flow_never_returned, crash_at_any_byte); after ANY sequence of save hooks the stream file is the "
                  "concatenation of whole records and reads back cleanly as all flows written so far "
                  "(file_is_concatenation, file_only_grows, stream_file_complete_after_each_hook). The writer's buffer and flush points are "
                  "inside the model (BFile = bytes handed to the OS + process buffer; write with an arbitrary spill, flush): for EVERY "
                  "hook sequence, every buffering behaviour, every number of completed file operations and every surviving byte "
                  "count the disk content loads as an initial segment of the written flows (crash_consistent_any_buffering, "
                  "crash_prefix_every_hook_sequence, explicit_save_crash_consistent — and in exact form, naming WHICH flows: the first k, k = "
                  "records wholly within the surviving bytes, clean end iff on a record boundary: crash_consistent_any_buffering_exact, "
                  "crash_prefix_every_hook_sequence_exact, explicit_save_crash_consistent_exact, crash_prefix_every_addon_history_exact); at every hook boundary the OS holds the whole "
                  "concatenation and the buffer is empty because FilteredFlowWriter.add flushes (hook_boundary_flushed, "
                  "stream_disk_complete_after_each_hook; with ONE hypothesis about the whole run instead of one per hook: "
                  "stream_file_complete_at_every_hook, stream_disk_complete_at_every_hook); an explicit save is complete after close "
                  "(explicit_save_complete_after_close); CPython's BufferedWriter.write policy is transcribed and covered "
                  "(cpython_buffered_explicit_save) and its on-disk sizes are predicted in the tie; the Save addon's hook handlers are "
                  "transcribed (addonStep: start hooks record the flow as active while streaming, response/error write unless the flow has "
                  "websocket data, the *_end/*_error/dns_* hooks write, save_flow writes iff streaming and the filter matches and discards the "
                  "flow, done() writes the still-active matching flows): for EVERY history every flow finished while streaming and matching is "
                  "among the written records in hook order, whether or not its start hook was seen (finished_flows_are_written), and the "
                  "crash / completeness theorems hold for every addon history (crash_prefix_every_addon_history, "
                  "addon_disk_complete_at_every_hook); in the tie the addon model itself decides what each hook writes. Tied to the code by "
                  "truncating real flow files of every flow type at every byte offset, by driving the real Save addon "
                  "through hook sequences and comparing the file after each hook, and by truncated real files.")
    level_note = ("trusted: Lean kernel; differential tie (all offsets of sampled files, sampled hook sequences); bytes handed "
                  "to the OS reach the file in order and survive the crash of the process (a prefix of them if the OS write itself is cut "
                  "short) — that is the remaining assumption about the platform; the buffering layer above it is modelled (any policy), "
                  "CPython's policy for regular files is transcribed assuming raw writes complete; lenient branches of the oracle (each exercised by known_selftest with a doctored "
                  "observation just outside it): L1 a truncated read may end cleanly OR with FlowReadException (the statement names "
                  "both; the model predicts which); L2 the flows still active at done() are compared as a set after the finished flows "
                  "(done() walks a set) — which flows those are is tracked from the hook script, not read from the addon; L3 a stream file "
                  "may start afresh only after the user re-opens its path in overwrite mode; record boundaries come from an independent "
                  "reading of the framing and must agree with the writer's positions; full flow states are compared at every offset; "
                  "the model tie skips (never the oracle) three in four boundary-free windows in the thorough tier; "
                  "which hook writes is transcribed and predicted (the filter's verdict per flow is an input: flowfilter is C39's); how "
                  "OPTION updates (filter change, file switch / restart, refused updates with rollback) keep or restart the file is validated by "
                  "the harness against the real addon — the Lean addon model has one stream file, start and done; from_state∘migrate_flow is a parameter of the "
                  "reader model and the equality of loaded flows with the written ones is validated by the harness.")
    technique = "Lean 4 proof (prefix decomposition + reader loop induction) + differential truncation/hook correspondence"
    rule = ("trunc: a file of 1-4 flows of random types (every serialised field randomised, or the stock test flows) written "
            "with FlowWriter or FilteredFlowWriter, cut at every offset of a window of <=500 offsets and read back; hooks: the "
            "real Save addon streaming to a file through an interleaved hook sequence of 2-5 flows of mixed types with option "
            "updates while the stream runs (save_stream_filter set/changed/cleared; save_stream_file re-stated, mode toggled, "
            "switched to a second path, stopped and restarted; updates that the addon REFUSES — a directory or a path under a file as "
            "stream file, an unparsable filter, alone or combined with a valid change — sent through the real OptManager so that its "
            "rollback re-runs configure; append and overwrite mode), every file read after each event: "
            "finished flows may never disappear (only a user-requested overwrite-mode (re)open may start a file afresh); real: explicit save.file to a real file, truncated copies read with read_flows_from_paths. "
            "distinct = distinct (file, window) / hook script; non-trivial = at least one cut strictly inside a record.")
    budget = {"quick": 400, "thorough": 6000}
    time_budget = {"quick": 22, "thorough": 200}
    fingerprints = ["mitmproxy.io.io:FlowWriter.add", "mitmproxy.io.io:FilteredFlowWriter.add", "mitmproxy.io.io:FlowReader.stream",
                    "mitmproxy.io.io:read_flows_from_paths", "mitmproxy.io.tnetstring:load", "mitmproxy.io.tnetstring:dump",
                    "mitmproxy.addons.save:Save.save_flow", "mitmproxy.addons.save:Save.configure", "mitmproxy.addons.save:Save.request",
                    "mitmproxy.addons.save:Save.tcp_start", "mitmproxy.addons.save:Save.udp_start", "mitmproxy.addons.save:Save.dns_request",
                    "mitmproxy.addons.save:Save.tcp_error", "mitmproxy.addons.save:Save.udp_error", "mitmproxy.addons.save:Save.done", "mitmproxy.addons.save:Save.save",
                    "mitmproxy.addons.save:Save.maybe_rotate_to_new_file", "mitmproxy.addons.save:Save.response",
                    "mitmproxy.addons.save:Save.websocket_end", "mitmproxy.addons.save:Save.tcp_end",
                    "mitmproxy.addons.save:Save.udp_end", "mitmproxy.addons.save:Save.dns_response",
                    "mitmproxy.addons.save:Save.dns_error", "mitmproxy.addons.save:Save.error",
                    "mitmproxy.addons.readfile:ReadFile.load_flows"]
    trusted_base = ["operating system: bytes reach the file in write order; flush() hands them to the OS"]
    parallel = True
    case_timeout = 120

    def on_timeout(self, case):
        return [f"reading a truncated file did not return within {self.case_timeout}s"]

    tier = "quick"

    def setup(self, tier):
        self.parallel = tier == "thorough"
        self.tier = tier
        self.known_selftest()

    def known_selftest(self):
        """the oracle's lenient branches are exactly as wide as their reasons: doctored observations just outside each
        excused class must be rejected (independent of the tree under test; a disagreement ends the run as INFRA)"""
        def need(cond, what):
            if not cond: raise AssertionError("C37 oracle selftest: " + what)
        # (L1) either ending is accepted after the complete flows — but nothing else, and never a wrong set of flows
        need(judge_cut(1, [1, "clean"], True) and judge_cut(1, [1, "flowRead"], True), "both endings the statement names are accepted")
        need(not judge_cut(1, [1, "other:KeyError"], True), "an escaping exception is not an accepted ending")
        need(not judge_cut(1, [2, "clean"], True), "one flow too many (a partially written flow returned)")
        need(not judge_cut(2, [1, "flowRead"], True), "a completely written flow missing")
        need(not judge_cut(1, [1, "clean"], False), "right count, wrong flow state")
        # (L2) the flows done() writes are compared as a set — only those, only after the finished flows, nothing foreign
        a, b, c, x = "sA", "sB", "sC", "sX"
        need(judge_stream_file([3, "clean"], [a, c, b], [("seq", [a]), ("set", [b, c])]), "done() batch in any order")
        need(not judge_stream_file([3, "clean"], [c, a, b], [("seq", [a]), ("set", [b, c])]), "a pending flow before a finished one")
        need(not judge_stream_file([2, "clean"], [b, a], [("seq", [a, b])]), "finished flows out of order")
        need(not judge_stream_file([1, "clean"], [a], [("seq", [a, b])]), "a finished flow lost")
        need(not judge_stream_file([3, "clean"], [a, b, x], [("seq", [a, b])]), "a foreign record after the finished flows")
        need(not judge_stream_file([3, "clean"], [a, b, x], [("seq", [a]), ("set", [b, c])]), "done() batch with a foreign flow")
        need(not judge_stream_file([2, "other:OSError"], [a, b], [("seq", [a, b])]), "escaping exception while reading the stream file")
        need(not judge_stream_file([3, "clean"], [a, b], [("seq", [a, b])]), "reader count differs from the states it returned")
        need(judge_stream_file([0, "clean"], [], []), "empty file, nothing finished")
        # (L3) a stream file may start afresh only when the USER re-opens its path in overwrite mode
        need(restart_allowed("file", True, False), "overwrite-mode save_stream_file on the running path may restart the file")
        need(not restart_allowed("filter", True, False), "a filter change may not restart the file")
        need(not restart_allowed("file", True, True), "an append-mode spec may not restart the file")
        need(not restart_allowed("hook", True, False) and not restart_allowed("stop", True, False), "hooks / stop may not restart the file")
        # independent framing and the expected count
        need(frame_bounds(b"3:abc,0:~") == [0, 6, 9] and frame_bounds(b"") == [0], "framing of whole records")
        need(frame_bounds(b"3:abc,0:") is None and frame_bounds(b"x3:abc,") is None and frame_bounds(b"3:ab,") is None, "framing rejects cut / foreign bytes")
        need(expected_at([0, 6, 9], 5) == (0, False) and expected_at([0, 6, 9], 6) == (1, True) and expected_at([0, 6, 9], 8) == (1, False)
             and expected_at([0, 6, 9], 9) == (2, True) and expected_at([0, 6, 9], 0) == (0, True), "records wholly inside a prefix")

    # ---------------------------------------------------------------------------------------------
    def file_for(self, case):
        flows = [build_flow(s) for s in case["specs"]]
        data, bounds = write_flows(flows, filtered=bool(case.get("filtered")))
        return flows, data, bounds

    def windows(self, case_base, n):
        for lo in range(0, n + 1, CHUNK):
            yield {**case_base, "lo": lo, "hi": min(n, lo + CHUNK - 1)}

    def generate(self, rng, tier):
        # every flow type: the stock test flow, every offset
        for t in FLOW_TYPES:
            base = {"k": "trunc", "specs": [{"t": t, "seed": 1, "plain": 1}], "filtered": 1}
            _, data, _ = self.file_for(base)
            yield from self.windows(base, len(data))
        yield {"k": "hooks", "seed": 1}
        yield {"k": "real", "specs": [{"t": t, "seed": 5, "plain": 1} for t in ("http", "tcp", "dns")], "seed": 1}
        n = 0
        while tier == "thorough" or n < 240:        # the quick tier is a fixed amount of work (about 25 000 loads)
            n += 1
            c = rng.random()
            if c < 0.6:
                base = {"k": "trunc", "specs": rspecs(rng, n=rng.choice([1, 2, 2, 3, 4]), plain_p=0.3), "filtered": rng.randint(0, 1)}
                _, data, bounds = self.file_for(base)
                if tier == "thorough":
                    yield from self.windows(base, len(data))
                    for _ in range(3):          # keep hook/option sequences a steady share of the (window-dominated) thorough tier
                        yield {"k": "hooks", "seed": rng.getrandbits(48)}
                else:
                    # quick: a window around one record boundary (all offsets of whole files are the stock flows above)
                    b = rng.pick(bounds)
                    yield {**base, "lo": max(0, b - 45), "hi": min(len(data), b + 45)}
            elif c < 0.85:
                yield {"k": "hooks", "seed": rng.getrandbits(48)}
            else:
                yield {"k": "real", "specs": rspecs(rng, n=rng.choice([1, 2, 3]), plain_p=0.3), "seed": rng.getrandbits(48)}

    # ---- implementation ----------------------------------------------------------------------
    _memo = (None, None)

    def impl(self, case):
        obs = self._impl(case)
        self._memo = (json.dumps(case, sort_keys=True), obs)
        return obs

    def _obs(self, case):
        key = json.dumps(case, sort_keys=True)
        if self._memo[0] != key:
            self.impl(case)
        return self._memo[1]

    def _impl(self, case):
        k = case["k"]
        if k == "trunc":
            flows, data, bounds = self.file_for(case)
            canon = [state_canon(f.get_state()) for f in flows]
            lo, hi = case["lo"], min(case["hi"], len(data))
            r = random.Random(case["lo"] * 7919 + len(data))
            bad, seen = [], {}
            # record boundaries from the framing itself (independent of where the writer says it stood) and from the inputs:
            # as many records as flows were handed to the writer
            fb = frame_bounds(data)
            if fb != bounds or len(bounds) - 1 != len(flows):
                bad.append([-1, f"the writer reports record boundaries {bounds[:6]}, the framing of the file gives {None if fb is None else fb[:6]} for {len(flows)} flows"])
                fb = fb or bounds
            for off in range(lo, hi + 1):
                ek, on_boundary = expected_at(fb, off)
                res, states = run_reader(io.BytesIO(data[:off]), want_states=True)
                same = [state_canon(x) for x in states] == canon[:len(states)]      # full states, at every offset
                seen[off] = f"{res[0]}:{res[1]}"
                if not judge_cut(ek, res, same):
                    if len(bad) < 5:
                        bad.append([off, f"read {res[0]} flows, end={res[1]}, flows-equal={same}; expected exactly the {ek} completely written flows, then a clean end or FlowReadException"])
            tie = sample_offsets(r, bounds, lo, hi, 8)
            return {"len": len(data), "bounds": bounds, "n_offsets": hi - lo + 1, "bad": bad, "types": [f.type for f in flows],
                    "tie_offsets": tie, "tie_seen": [seen[o] for o in tie],
                    "data_hex": hx(data), "wires": [to_wire(f.get_state()) for f in flows]}
        if k == "hooks":
            return self.run_hooks(case)
        if k == "real":
            return self.run_real(case)
        raise ValueError(k)

    # -- the real Save addon, streaming ----------------------------------------------------------
    START_HOOKS = ("request", "tcp_start", "udp_start", "dns_request")
    SAVE_HOOKS = ("response", "error", "websocket_end", "tcp_end", "tcp_error", "udp_end", "udp_error", "dns_response", "dns_error")
    FILTERS = [None, "~http", "~tcp", "~udp", "~dns", "!~tcp", "~websocket", "~q", "~e", "~all", "~marked", "~replay", "!~dns"]

    def hook_script(self, case):
        """-> flows, initial (spec, filter), events. Events: ("hook", j, name) | ("filter", expr) | ("file", spec) |
        ("stop",). Paths are "A"/"B" (two files in a scratch directory), a leading "+" = append mode."""
        if "script" in case:
            flows = [build_flow(sp) for sp in case["specs"]]
            return flows, tuple(case["init"]), [tuple(e) for e in case["script"]]
        r = random.Random(case["seed"])
        specs = rspecs(r, n=r.choice([2, 3, 3, 4, 5]), plain_p=0.4)
        flows = [build_flow(sp) for sp in specs]
        per = []
        for f, sp in zip(flows, specs):
            t = sp["t"]
            if t == "http":
                end = "response" if f.response is not None and r.random() < 0.8 else "error"
                seq = ["request", end]
            elif t == "ws":
                seq = ["request", "response", "websocket_end"]      # response must NOT persist a websocket flow
            elif t == "tcp": seq = ["tcp_start", r.choice(["tcp_end", "tcp_error"])]
            elif t == "udp": seq = ["udp_start", r.choice(["udp_end", "udp_error"])]
            else: seq = ["dns_request", r.choice(["dns_response", "dns_error"])]
            if r.random() < 0.25: seq = seq[:-1]                      # never finishes: written by done()
            per.append(seq)
        script, idx = [], [0] * len(flows)
        while any(i < len(q) for i, q in zip(idx, per)):
            j = r.choice([j for j in range(len(flows)) if idx[j] < len(per[j])])
            script.append(("hook", j, per[j][idx[j]])); idx[j] += 1
        # option updates while the stream is running
        plus = r.choice(["", "", "+"])
        init = (plus + "A", r.choice([None, None, None] + self.FILTERS))
        if case.get("options", 1):
            for _ in range(r.choice([0, 1, 1, 2, 3])):
                c = r.random()
                if c < 0.2: ev = [("fail", r.choice(["dir", "+dir", "under-file", "filter", "file+filter", "dir+filter"]))]   # an update that is refused and rolled back
                elif c < 0.5: ev = [("filter", r.choice(self.FILTERS))]
                elif c < 0.6: ev = [("file", "same")]                              # the current spec once more
                elif c < 0.7: ev = [("file", "toggle")]                            # same path, other mode
                elif c < 0.85: ev = [("file", r.choice(["", "+"]) + r.choice(["A", "B"]))]
                else: ev = [("stop",), ("file", r.choice(["", "+"]) + r.choice(["A", "A", "B"]))]
                k = r.randint(0, len(script))
                script[k:k] = ev
        return flows, init, script

    def run_hooks(self, case):
        from mitmproxy import flowfilter
        flows, init, script = self.hook_script(case)
        d = tempfile.mkdtemp(prefix="c37-")
        real = {"A": os.path.join(d, "a.mitm"), "B": os.path.join(d, "b.mitm")}
        steps, bad = [], []
        exp, wires = {}, {}         # per file: canonical states / wire forms that have to be in it, in order
        st = {"cur": None, "spec": None, "filt": None, "active": False}
        in_flight = []              # flows whose start hook ran while a stream was open and that were not handed to save_flow
                                    # since — tracked from the hook script (inputs), not read from the addon

        def content(name):
            try:
                with open(real[name], "rb") as fo: return fo.read()
            except FileNotFoundError:
                return b""

        def matches(f):
            return st["filt"] is None or bool(flowfilter.match(flowfilter.parse(st["filt"]), f))

        def check_all(label):
            # "a stream file is complete up to the last finished flow at any moment": every file written so far still
            # reads as all the flows finished (and matching) while it was the stream file, in order
            for name in exp:
                res, states = run_reader(io.BytesIO(content(name)), want_states=True)
                got = [state_canon(x) for x in states]
                if not judge_stream_file(res, got, exp[name]) and len(bad) < 4:
                    lost = seg_count(exp[name]) - res[0]
                    bad.append([label, f"file {name} reads as {res}; {seg_count(exp[name])} finished flows belong in it"
                                       + (f" ({lost} finished flows were lost)" if lost > 0 else "")])

        def open_file(tctx, sa, spec, label):
            name, plus = spec.lstrip("+"), spec.startswith("+")
            same = st["active"] and name == st["cur"]
            tctx.configure(sa, save_stream_file=("+" if plus else "") + real[name])
            if same:
                # the user re-stated the option for the file that is being streamed to. Continuing is fine; an overwrite-mode
                # spec may also start the file afresh (that is what the option says); an append-mode spec may not lose data.
                if restart_allowed("file", same, plus) and exp.get(name) and content(name) == b"":
                    exp[name], wires[name] = [], []
                    ops = ["reset"]
                else:
                    ops = ["noop"]
            else:
                if plus:
                    exp.setdefault(name, []); wires.setdefault(name, [])
                else:
                    exp[name], wires[name] = [], []
                ops = ["reset"] + ["save " + w for w in wires[name]]
            if not st["active"]: ops = ops + ["hkstart"]            # the addon model: a stream is opened
            st.update(cur=name, spec=spec, active=True)
            return ops

        try:
            sa = save_addon.Save()
            with addon_ctx(sa) as tctx:
                if init[1] is not None:
                    st["filt"] = init[1]
                    tctx.configure(sa, save_stream_filter=init[1])
                ops = ["hkinit"] + open_file(tctx, sa, init[0], "start")
                check_all("start")
                steps.append({"ev": "start " + init[0], "ops": ops, "len": len(content(st["cur"]))})
                for ev in list(script) + [("stop",)]:
                    label = " ".join(str(x) for x in ev)
                    if ev[0] == "hook":
                        f, hook = flows[ev[1]], ev[2]
                        will_save = st["active"] and hook in self.SAVE_HOOKS and matches(f) \
                            and not (hook in ("response", "error") and getattr(f, "websocket", None) is not None)
                        w = to_wire(f.get_state())
                        # the model's transcription of the addon decides what this hook writes (tie: file length afterwards)
                        ops = [f"hk {hook} {ev[1]} {int(getattr(f, 'websocket', None) is not None)} {int(matches(f))} {w}"]
                        if will_save:
                            seg_add(exp[st["cur"]], state_canon(f.get_state()))
                            wires[st["cur"]].append(w)
                        if st["active"] and hook in self.START_HOOKS and ev[1] not in in_flight:
                            in_flight.append(ev[1])
                        if st["active"] and hook in self.SAVE_HOOKS and ev[1] in in_flight \
                                and not (hook in ("response", "error") and getattr(f, "websocket", None) is not None):
                            in_flight.remove(ev[1])             # save_flow drops it from the active set, matching or not
                        getattr(sa, hook)(f)
                    elif ev[0] == "filter":
                        st["filt"] = ev[1]
                        tctx.configure(sa, save_stream_filter=ev[1])
                        ops = ["noop"]                          # a filter change does not touch what is in the file
                    elif ev[0] == "fail":
                        # an option update that the addon refuses (OptionsError): the real OptManager rolls the options back and
                        # runs configure once more. Nothing about the stream may change: not the file, not what is in it.
                        os.makedirs(os.path.join(d, "adir"), exist_ok=True)
                        cur_real = ("+" if (st["spec"] or "").startswith("+") else "") + real[st["cur"]] if st["cur"] else None
                        bad_updates = {
                            "dir": {"save_stream_file": os.path.join(d, "adir")},
                            "+dir": {"save_stream_file": "+" + os.path.join(d, "adir")},
                            "under-file": {"save_stream_file": os.path.join(real[st["cur"] or "A"], "x.mitm")},
                            "filter": {"save_stream_filter": "~~"},
                            "file+filter": {"save_stream_file": real["B" if st["cur"] == "A" else "A"], "save_stream_filter": "~~"},
                            "dir+filter": {"save_stream_file": os.path.join(d, "adir"), "save_stream_filter": "~http"},
                        }[ev[1]]
                        if not st["active"] and "save_stream_file" in bad_updates and ev[1] != "file+filter":
                            bad_updates = {"save_stream_filter": "~~"}       # no stream running: only the filter can be refused
                        try:
                            tctx.options.update(**bad_updates)
                            refused = False
                        except exceptions.OptionsError:
                            refused = True
                        ops = ["noop"]
                        if not refused:
                            raise RuntimeError(f"harness: the update {bad_updates} was expected to be refused")
                    elif ev[0] == "file":
                        spec = ev[1]
                        if spec == "same": spec = st["spec"]
                        elif spec == "toggle": spec = st["spec"][1:] if st["spec"].startswith("+") else "+" + st["spec"]
                        ops = open_file(tctx, sa, spec, label)
                    else:
                        ops = ["hkdone -"]
                        if st["active"]:
                            pending = [flows[j] for j in in_flight if matches(flows[j])]
                            del in_flight[:]
                            before = seg_count(exp[st["cur"]])
                            tctx.configure(sa, save_stream_file=None)
                            # what done() has to have written is known from the inputs (as a set); the ORDER in which it did
                            # is needed only to replay the same bytes in the model and is read off the file (matched by state)
                            pend = [(state_canon(f.get_state()), f) for f in pending]
                            if pend: exp[st["cur"]].append(("set", [c for c, _ in pend]))
                            _, states = run_reader(io.BytesIO(content(st["cur"])), want_states=True)
                            order, left = [], list(pend)
                            for x in states[before:]:
                                cx = state_canon(x)
                                hit = next((i for i, (c, _) in enumerate(left) if c == cx), None)
                                if hit is not None: order.append(left.pop(hit))
                            order += left
                            for c, f in order:
                                wires[st["cur"]].append(to_wire(f.get_state()))
                            # candidates for the model's done(): the flows in the order in which the file shows them, then all others;
                            # the model's own active set decides which of them are written
                            rest_ = [f for f in flows if all(f is not g for _, g in order)]
                            cands = [(flows.index(f), f) for _, f in order] + [(flows.index(f), f) for f in rest_]
                            ops = ["hkdone " + (";".join(f"{j}:{int(matches(f))}:{to_wire(f.get_state())}" for j, f in cands) or "-")]
                            st["active"] = False
                    check_all(label)
                    steps.append({"ev": label, "ops": ops, "len": len(content(st["cur"]))})
            final = content(st["cur"])
        finally:
            shutil.rmtree(d, ignore_errors=True)
        return {"steps": steps, "bad": bad, "final_hex": hx(final), "n_flows": len(flows),
                "script": [s_["ev"].split(" ")[-1] if s_["ev"].startswith("hook") else s_["ev"] for s_ in steps]}

    # -- explicit save to a real file, truncated copies ------------------------------------------
    def run_real(self, case):
        r = random.Random(case["seed"])
        flows = [build_flow(s) for s in case["specs"]]
        canon = [state_canon(f.get_state()) for f in flows]
        d = tempfile.mkdtemp(prefix="c37-")
        bad, seen = [], []
        try:
            path = os.path.join(d, "saved.mitm")
            sa = save_addon.Save()
            with addon_ctx(sa):
                sa.save(flows, path)                       # the `save.file` command: FlowWriter on a buffered file
            data = open(path, "rb").read()
            _, bounds = write_flows(flows)
            if bounds[-1] != len(data):
                bad.append([-1, f"explicit save wrote {len(data)} bytes, FlowWriter writes {bounds[-1]}"])
            offs = sample_offsets(r, bounds, 0, len(data), 10)
            for off in offs:
                p2 = os.path.join(d, "cut.mitm")
                with open(p2, "wb") as fo: fo.write(data[:off])
                try:
                    got = mio.read_flows_from_paths([p2]); end = "clean"
                except exceptions.FlowReadException:
                    got = None; end = "flowRead"
                except CaseTimeout:
                    raise
                except BaseException as e:  # noqa
                    got = None; end = "other:" + type(e).__name__
                ek, on_boundary = expected_at(bounds, off)
                # read_flows_from_paths is all-or-nothing: either exactly the completely written flows or FlowReadException
                if end == "clean":
                    okk = [state_canon(f.get_state()) for f in got] == canon[:ek]
                else:
                    okk = end == "flowRead"
                # and the streaming reader on the real file object
                with open(p2, "rb") as fo: res, states = run_reader(fo, want_states=True)
                ok2 = res[0] == ek and res[1] in ("clean", "flowRead") and [state_canon(s) for s in states] == canon[:ek]
                seen.append(f"{res[0]}:{res[1]}")
                if not (okk and ok2) and len(bad) < 4:
                    bad.append([off, f"read_flows_from_paths -> {end}, stream -> {res}; expected {ek} flows, boundary={on_boundary}"])
            # FlowWriter on a buffered file without flush (what save.file does): bytes the OS holds after each add,
            # predicted by the model's transcription of BufferedWriter.write
            p3 = os.path.join(d, "buffered.mitm")
            with open(p3, "wb") as fo:
                bs = getattr(os.fstat(fo.fileno()), "st_blksize", 0)
                B = bs if bs > 1 else io.DEFAULT_BUFFER_SIZE
                w = mio.FlowWriter(fo)
                on_disk = []
                for f in flows:
                    w.add(f); on_disk.append(os.stat(p3).st_size)
            pybuf = {"B": B, "sizes": [b - a for a, b in zip(bounds, bounds[1:])], "disk": on_disk, "closed": os.stat(p3).st_size}
            if pybuf["closed"] != bounds[-1] and len(bad) < 4:
                bad.append([-1, f"explicit save holds {pybuf['closed']} bytes after close, {bounds[-1]} were written"])
            # the ReadFile addon (rfile option): what reaches the master from each truncated file
            for off, (got, end) in zip(offs, asyncio.run(readfile_counts([data[:o] for o in offs]))):
                ek, _ = expected_at(bounds, off)
                if (got != canon[:ek] or end not in ("clean", "flowRead")) and len(bad) < 4:
                    bad.append([off, f"ReadFile.load_flows handed {len(got)} flows to the master and ended {end}; {ek} flows were completely written"])
        finally:
            shutil.rmtree(d, ignore_errors=True)
        return {"bad": bad, "len": len(data), "bounds": bounds, "tie_offsets": offs, "tie_seen": seen, "data_hex": hx(data), "pybuf": pybuf,
                "n_offsets": len(offs), "types": [f.type for f in flows]}

    # ---- the property ------------------------------------------------------------------------
    def oracle(self, case, obs):
        # "loading the truncated file yields exactly the flows that were completely written before that point, in order,
        #  and then either ends cleanly or reports a flow-read error; a partially written flow is never returned, and a
        #  stream file is complete up to the last finished flow at any moment"
        return [f"{case['k']}: at {b[0]}: {b[1]}" for b in obs["bad"]]

    # ---- model tie ---------------------------------------------------------------------------
    def model_lines(self, case):
        obs = self._obs(case)
        k = case["k"]
        if k in ("trunc", "real"):
            n = len(obs["bounds"]) - 1
            if self.tier == "thorough" and k == "trunc" and case["lo"] != 0 and (case["lo"] // CHUNK) % 4 \
                    and not any(case["lo"] <= b <= case["hi"] for b in obs["bounds"]):
                return None      # whole files are large protocol lines: windows without a record boundary are tied one in four
            lines = []
            if k == "trunc" and case["lo"] == 0 and case.get("hi", 0) >= 0:
                lines = ["reset"] + [f"save {w}" for w in obs["wires"]] + ["file"]
            lines.append(f"cuts {BIG} {D_NORMAL} {'o' * n or '-'} {obs['data_hex']} {','.join(map(str, obs['tie_offsets']))}")
            if k == "real":
                lines.append(f"pybuf {obs['pybuf']['B']} {','.join(map(str, obs['pybuf']['sizes']))}")
            return lines
        if k == "hooks":
            lines = []
            for stp in obs["steps"]: lines += stp["ops"]
            lines.append("file")
            return lines

    def model_obs(self, case, replies):
        k = case["k"]
        if k == "real":
            return {"cuts": replies[0].split(","), "pybuf": replies[1]}
        if k == "trunc":
            out = {"cuts": replies[-1].split(",")}
            if len(replies) > 1: out["file"] = replies[-2]
            return out
        lens, i = [], 0
        for stp in self._obs(case)["steps"]:
            i += len(stp["ops"]); lens.append(replies[i - 1])       # file length after the last operation of each step
        return {"lens": lens, "file": replies[-1]}

    def impl_view(self, case, obs):
        k = case["k"]
        if k == "real":
            return {"cuts": obs["tie_seen"], "pybuf": ",".join(map(str, obs["pybuf"]["disk"]))}
        if k in ("trunc", "real"):
            out = {"cuts": obs["tie_seen"]}
            if k == "trunc" and case["lo"] == 0: out["file"] = obs["data_hex"]
            return out
        return {"lens": [str(st["len"]) for st in obs["steps"]], "file": obs["final_hex"]}

    def classify(self, case, obs):
        if case["k"] == "hooks": return ("hooks", digest(json.dumps(obs["script"]).encode()), obs["n_flows"])
        inside = obs["n_offsets"] > 1
        return (case["k"], digest(obs["data_hex"].encode()), case.get("lo")) if inside else None

    def branches(self, case, obs):
        k = case["k"]
        out = ["kind:" + k]
        if k == "hooks":
            for h in set(obs["script"]):
                out.append(("hook:" if " " not in h else "option:") + (h if " " not in h else " ".join(h.split(" ")[:2]).replace("None", "-")))
        else:
            out += ["flow:" + t for t in set(sp["t"] for sp in case["specs"])]
            out.append("records:%d" % (len(obs["bounds"]) - 1))
            if k == "trunc": out.append("offsets:%d" % (obs["n_offsets"] // 100 * 100))
        return out

    def describe(self, case, obs):
        o = {a: b for a, b in obs.items() if a not in ("data_hex", "wires", "final_hex", "steps")}
        return {"case": case, "impl": o}

    def neighbours(self, case, rng):
        for _ in range(40):
            yield {"k": "hooks", "seed": rng.getrandbits(48)}

    def exhaustive(self, tier):
        for t in FLOW_TYPES:
            base = {"k": "trunc", "specs": [{"t": t, "seed": 1, "plain": 1}], "filtered": 0}
            _, data, _ = self.file_for(base)
            yield from self.windows(base, len(data))
