"""C38 — flows from older mitmproxy versions load correctly (mitmproxy/io/compat.py, io.py, version.py)."""
import ast, copy, glob, hashlib, io as _io, json, os
from common.check import PropertyCheck, Skip
from common.paths import REPO, CORPUS
from mitmproxy import version, flow as mflow, http, exceptions
from mitmproxy.io import compat, tnetstring, io as mio
from mitmproxy.test import tflow


def _norm_ver(v):
    if isinstance(v, int): return ("int", v)
    t = tuple(v)[:2]
    return ("tup", t[0], t[1])


def _lean_ver(v):
    n = _norm_ver(v)
    return f"(.int {n[1]})" if n[0] == "int" else f"(.tup {n[1]} {n[2]})"


def converter_graph():
    """key -> version written by the converter, by AST inspection of every function in `converters`"""
    src = open(os.path.join(REPO, "mitmproxy", "io", "compat.py")).read()
    tree = ast.parse(src)
    funcs = {n.name: n for n in tree.body if isinstance(n, ast.FunctionDef)}
    out = []
    for key, fn in compat.converters.items():
        node = funcs[fn.__name__]
        written = None
        for st in ast.walk(node):
            if isinstance(st, ast.Assign) and len(st.targets) == 1 and isinstance(st.targets[0], ast.Subscript):
                sl = st.targets[0].slice
                if isinstance(sl, ast.Constant) and sl.value in ("version", b"version"):
                    written = ast.literal_eval(st.value)
        if written is None:
            raise RuntimeError(f"converter {fn.__name__} writes no version")
        out.append((key, written))
    return out


def canon(o):
    """canonical JSON-able rendering of a flow state (bytes → hex-tagged, tuples → lists, dict keys sorted)"""
    if isinstance(o, dict): return {str(k): canon(v) for k, v in sorted(o.items(), key=lambda kv: str(kv[0]))}
    if isinstance(o, (list, tuple)): return [canon(x) for x in o]
    if isinstance(o, bytes): return "b:" + o.hex()
    if isinstance(o, float): return repr(o)
    return o


def digest(o):
    return hashlib.sha256(json.dumps(canon(o), sort_keys=True).encode()).hexdigest()[:20]


# ---- inverse converters (harness-side, for synthetic old states) ------------------------------------
def _conns(d):
    return [d["client_conn"], d["server_conn"]]


def inv_21_20(d):
    for c in _conns(d):
        if c.get("tls_version") == "QUICv1": c["tls_version"] = "QUIC"
    d["version"] = 20


def inv_20_19(d):
    for c in _conns(d): c["state"] = 0
    d["version"] = 19


def inv_19_18(d):
    cc, sc = d["client_conn"], d["server_conn"]
    cc["address"] = cc.pop("peername"); cc["tls_extensions"] = None
    sc["ip_address"] = sc.pop("peername"); sc["source_address"] = sc.pop("sockname")
    sc["via2"] = sc.pop("via"); sc["via"] = None
    for c in (cc, sc):
        c["tls_established"] = c["tls"]; c["cipher_name"] = c.pop("cipher")
    d["version"] = 18


def inv_18_17(d):
    d["client_conn"].pop("proxy_mode"); d["version"] = 17


def inv_17_16(d):
    d["mode"] = "regular"; d["version"] = 16


def inv_16_15(d):
    d.pop("timestamp_created"); d["version"] = 15


def inv_15_14(d):
    if d.get("websocket"):
        d["websocket"]["messages"] = [m[:-1] for m in d["websocket"]["messages"]]
    d["version"] = 14


def inv_14_13(d):
    d.pop("comment"); d["version"] = 13


def inv_13_12(d):
    d["marked"] = bool(d["marked"]); d["version"] = 12


def inv_12_11(d):
    if d.get("websocket") is None: d.pop("websocket", None)
    else: raise Skip()          # websocket flows of format <= 11 were separate flows: covered by dumpfile-7-websocket
    d["version"] = 11


def inv_11_10(d):
    for c in _conns(d):
        c["alpn_proto_negotiated"] = c.pop("alpn")
        if isinstance(c.get("sni"), str): c["sni"] = c["sni"].encode("ascii", "backslashreplace")
    d["version"] = 10


INVERSES = {12: inv_12_11, 11: inv_11_10, 21: inv_21_20, 20: inv_20_19, 19: inv_19_18, 18: inv_18_17, 17: inv_17_16, 16: inv_16_15,
            15: inv_15_14, 14: inv_14_13, 13: inv_13_12}
MIN_SYNTH = 10


# shape-only inverses for the formats 5..9 (used by the conv kind only: the converter step is compared with the Lean
# converter on a state of the right shape; no claim that these are the states the forward chain would reproduce)
def inv_10_9(d):
    for c in _conns(d):
        for k_ in ("state", "error", "tls", "alpn_offers", "cipher_list"): c.pop(k_, None)
    cc, sc = d["client_conn"], d["server_conn"]
    cc.pop("sockname", None)
    cl = cc.pop("certificate_list", None); cc["clientcert"] = cl[0] if cl else None
    cl = sc.pop("certificate_list", None); sc["cert"] = cl[0] if cl else None
    sc.pop("via2", None)
    d["version"] = 9


def inv_9_8(d):
    if d.get("request"):
        d["request"]["first_line_format"] = "relative"; d["request"].pop("authority", None)
    d.pop("is_replay", None); d["version"] = 8


def inv_8_7(d):
    for m in ("request", "response"):
        if d.get(m): d[m].pop("trailers", None)
    d["version"] = 7


def inv_7_6(d):
    d["client_conn"].pop("tls_extensions", None); d["version"] = 6


def inv_6_5(d):
    for c in _conns(d):
        c["ssl_established"] = c.pop("tls_established"); c["timestamp_ssl_setup"] = c.pop("timestamp_tls_setup")
    d["version"] = 5


def inv_5_4(d):
    for c in _conns(d): c.pop("id", None)
    if d["server_conn"].get("via"): d["server_conn"]["via"].pop("id", None)
    d["version"] = 4


def inv_4_300(d): d["version"] = [3, 0, 0]


def inv_300_200(d):
    d["client_conn"].pop("mitmcert", None); d["server_conn"].pop("tls_version", None); d["version"] = [2, 0, 0]


def _wrap(a): return {"address": a, "use_ipv6": False}


def inv_200_100(d):
    cc, sc = d["client_conn"], d["server_conn"]
    cc["address"] = _wrap(cc.get("address")); sc["address"] = _wrap(sc.get("address")); sc["source_address"] = _wrap(sc.get("source_address"))
    if sc.get("ip_address"): sc["ip_address"] = _wrap(sc["ip_address"])
    d["version"] = [1, 0, 0]


def inv_100_019(d): d["version"] = [0, 19]


def inv_019_018(d):
    if d.get("request"):
        d["request"]["stickyauth"] = False; d["request"]["stickycookie"] = False
    for k_ in ("sni", "alpn_proto_negotiated", "cipher_name", "tls_version"): d["client_conn"].pop(k_, None)
    d["server_conn"].pop("alpn_proto_negotiated", None)
    d.pop("mode", None); d.pop("metadata", None); d["version"] = [0, 18]


def inv_018_017(d):
    d["server_conn"]["peer_address"] = d["server_conn"].pop("ip_address", None); d.pop("marked", None); d["version"] = [0, 17]


def inv_017_016(d):
    d = _bytes_keys(d)                      # formats <= 0.16: bytes keys throughout
    d[b"server_conn"].pop(b"peer_address", None); d[b"version"] = [0, 16]
    return d


def inv_016_015(d):
    for m in (b"request", b"response"):
        if isinstance(d.get(m), dict) and b"content" in d[m]: d[m][b"body"] = d[m].pop(b"content")
    if isinstance(d.get(b"response"), dict) and b"reason" in d[b"response"]: d[b"response"][b"msg"] = d[b"response"].pop(b"reason")
    if isinstance(d.get(b"request"), dict): d[b"request"][b"form_out"] = b"relative"
    d[b"version"] = [0, 15]


def inv_015_014(d): d[b"version"] = [0, 14]


def inv_014_013(d):
    r = d.get(b"request")
    if isinstance(r, dict):
        r[b"form_in"] = r.pop(b"first_line_format", b"relative"); r.pop(b"http_version", None); r[b"httpversion"] = [1, 1]
    r = d.get(b"response")
    if isinstance(r, dict):
        r.pop(b"http_version", None); r[b"httpversion"] = [1, 1]; r[b"code"] = r.pop(b"status_code", 200); r[b"content"] = r.pop(b"body", b"")
    d[b"server_conn"][b"state"] = []; d[b"server_conn"].pop(b"via", None)
    d[b"version"] = [0, 13]


def inv_013_012(d): d[b"version"] = [0, 12]


def inv_012_011(d): d[b"version"] = [0, 11]


# (major, minor) -> the inverse that produces a state of that format from its successor's
TUPLE_CHAIN = [((3, 0), inv_4_300), ((2, 0), inv_300_200), ((1, 0), inv_200_100), ((0, 19), inv_100_019), ((0, 18), inv_019_018), ((0, 17), inv_018_017),
               ((0, 16), inv_017_016), ((0, 15), inv_016_015), ((0, 14), inv_015_014), ((0, 13), inv_014_013), ((0, 12), inv_013_012), ((0, 11), inv_012_011)]


def _bytes_keys(o, top=True):
    """what a Python-2 era file holds: bytes keys throughout (dict values only), bytes type/id/first_line_format/error.msg"""
    if not isinstance(o, dict): return o
    out = {(k.encode() if isinstance(k, str) else k): _bytes_keys(v, False) for k, v in o.items()}
    if top:
        for k_ in (b"type", b"id"):
            if isinstance(out.get(k_), str): out[k_] = out[k_].encode()
        if isinstance(out.get(b"request"), dict) and isinstance(out[b"request"].get(b"first_line_format"), str):
            out[b"request"][b"first_line_format"] = out[b"request"][b"first_line_format"].encode()
        if isinstance(out.get(b"error"), dict) and isinstance(out[b"error"].get(b"msg"), str):
            out[b"error"][b"msg"] = out[b"error"][b"msg"].encode()
    return out


SHAPE_INVERSES = {10: inv_10_9, 9: inv_9_8, 8: inv_8_7, 7: inv_7_6, 6: inv_6_5}


def restrict_for(state, target):
    """make a current state representable at format version `target` (fields that did not exist then take the value the
    forward converter will write)"""
    if target < 21:
        pass  # QUICv1 <-> QUIC is a bijection on the values we generate
    if target < 19:
        for c in _conns(state):
            c["transport_protocol"] = "tcp"
        if state["server_conn"].get("via") is not None: state["server_conn"]["via"] = None
    if target < 18: state["client_conn"]["proxy_mode"] = "regular"
    if target < 16:
        state["timestamp_created"] = state.get("request", state["client_conn"])["timestamp_start"]
    if target < 15 and state.get("websocket"):
        state["websocket"]["messages"] = [list(m[:-1]) + [False] for m in state["websocket"]["messages"]]
    if target < 14:
        state["comment"] = ""
        if state.get("response") and state["response"]["timestamp_start"] is None:
            state["response"]["timestamp_start"] = state["request"]["timestamp_end"]
            state["response"]["timestamp_end"] = state["request"]["timestamp_end"] + 1
    if target < 13: state["marked"] = ":default:" if state["marked"] else ""
    return state


class Check(PropertyCheck):
    prop = "C38"
    design_ref = "§5 C38"
    level_text = ("Lean theorems over the converter graph REGENERATED from compat.py on every run (decide +kernel over the "
                  "whole table + general lemmas): every historical version key reaches the current format in a strictly "
                  "version-increasing chain (the migrate loop terminates from every version value whatsoever), the current "
                  "version is a fixed point, unknown versions are rejected with 'please update' exactly for larger "
                  "integers. The field surgery of the sixteen converters for integer formats 5..20 is modelled over the tnetstring value type of C36 (Model/C38_Conv.lean) and proved to write exactly the next version (conv_writes_next_version), to leave every top-level key outside a stated per-converter set untouched (conv_frame; request/id/type/error/intercepted never change: request_preserved; response only by 13->14), plus marked_migration, mode_dropped, proxy_mode_added, state_dropped, timestamp_created_from_request; the older formats 5..9 (convOld: ssl->tls renames, tls_extensions, trailers, first_line_format/authority/is_replay, the 9->10 connection rebuild incl. the nested via connection) with convOld_writes_next_version, convOld_frame, old_identity_preserved, old_request_preserved (only 7->8 and 8->9 touch the request), request_fields_8_9, trailers_added_7_8, tls_renamed_5_6; 18->19 (renames, defaults, the UTF-8/backslashreplace decode of host bytes built on the C35 decoder transcription, sni=True repair) with conv_18_19_spec, client_frame_18_19/client_renames_18_19, server_frame_18_19/server_renames_18_19, host_decode_valid_utf8/host_decode_ascii (a valid-UTF-8 host is the same text afterwards) and host_decode_escape; the two converters with PROCESS-GLOBAL tables are modelled with their tables as explicit state (Model/C38_State.lean): 11->12 with `_websocket_handshakes` (handshake_stored, ws_takes_stored_handshake, ws_without_handshake_dummy, plain_is_stateless, table_frame_11_12 and, by induction over any run of records, stored_until_consumed) and 4->5 with the connection-id tables and the uuid supply as a parameter (client_id_is_recorded_id, ids_stable_4_5, ids_stable_over_run); the release-numbered formats 0.17..3.0 (Model/C38_Tuple.lean: convert_unicode with its recursive key conversion and strict UTF-8 decode of type/id/first_line_format/error.msg, the address unwrapping of 1.0->2.0, 2.0->3.0, 3.0->4) with tuple_writes_next_version and tuple_frame_1_2_3, and the six oldest formats 0.11..0.16 over bytes keys (Model/C38_Bytes.lean: form_in/httpversion/code/content renames, body/msg renames, peer_address) with bytes_writes_next_version and bytes_frame - so EVERY converter registered in compat.converters (29) has a Lean transcription compared step by step with the real one; `migrate_flow` as a whole is composed from these transcriptions (Model/C38_Migrate.lean: version lookup under the bytes and the str key, tuple cut, the stale-version refusal, the stateful tables threaded through) with every_registered_converter_is_modelled / no_extra_converter (the model's dispatch is exactly the converter table REGENERATED from compat.py: a converter added without a transcription breaks the proof), migrate_ends_at_current, migrate_current_unchanged, migrate_fuel_irrelevant, migrate_turn_cases, migrate_turn_keeps_request, and is compared byte for byte (kind migfile) with the real migrate_flow on every record of every shipped dump, in file order and in other admissible orders, and on every downgrade case; the whole modelled chain 12->21 keeps the request and arrives at version 21 (steps_request_preserved by induction over any number of converter steps, chain_request_preserved); each step of the real converters is compared byte for byte (re-encoded tnetstring) with the Lean converter. Whole-chain behaviour is validated differentially: all shipped historical dumps, "
                  "synthetic states downgraded by inverse converters to each version 10..20, current states, and unknown "
                  "future versions go through the real migrate_flow / FlowReader / FlowWriter.")
    level_note = ("partial: WHAT IS NOT PROVED: (i) that a record of a supported old format DOES migrate is proved for formats 19 and 20 (format_19_20_records_convert: connection records that are dicts carrying tls_version convert and arrive at version 21) and for the steps 12->18 on non-WebSocket records of the shape those formats wrote (format_12_records_convert under Shape12: marked present, response null or with a timestamp_start, websocket null, request with timestamp_start, client_conn a dict); and for 18->19 on records whose connection records have the shape formats 10..18 wrote (format_18_records_convert under Shape18: tls_extensions/tls_established present, address-like fields absent / None / a pair / text, sni a name, None, or True with the address None or a pair) - composed in format_12_records_load: a non-WebSocket format-12 record of the shape mitmproxy 7 wrote (Shape12, ConnShape) is taken through all nine converters 12->...->21 without any raising, arrives at version 21 and keeps its request (existence AND correctness for one whole format; checked_shape_loads: the executable form shape12B of that shape, which the driver evaluates on every generated format-12 record and which is compared with a Python twin on the real record - about two thirds of the downgrade-to-12 cases, the non-WebSocket ones, fall under it - implies the theorem's hypotheses, and the oracle asks the real migrate_flow to return on those records); the formats below 12 have no success theorem: there every converter theorem is conditional (\"if the converter returns, then ...\"), migrate_ends_at_current likewise; the existence half of \"loads into valid current flows\" rests on the differential runs (every shipped dump record, downgrade/conv/convt/wsseq/idseq cases) and on C36's shape gate, not on a theorem; (ii) the clause \"re-saving migrated flows and loading them again reproduces the same state\" is validated only (resave clauses of the dump/downgrade/dumpmut kinds; its two halves are theorems elsewhere: C36 read_roundtrip, migrate_current_unchanged here; host_decode_is_str removes the one obstacle in the converters); (iii) the composed loop is run by the driver with fuel 64: running out of fuel is a separate outcome (`diverged`), never confused with an exception, and an answer does not depend on the constant (migrate_fuel_irrelevant), but that 64 turns always suffice is proved only at graph level (migration_total, versions_increase) - the explanatory-error clause (which message) is likewise carried by the graph-level migrate/reject (ops mig/steps), the composed loop only says \"raised\" (migrate_turn_cases). The golden per-flow digests of the shipped dumps are a snapshot of the implementation taken on the unchanged tree (regression reference, not an independent oracle). Proved: proved are the version chain, the loop and the per-converter field facts for formats 4..20 (4->5: uuid4 is a parameter; 13->14: `float + 1` with Python's repr is a parameter answered by the harness; table keys are compared through their tnetstring encoding "
                  "- an int and an equal float would differ - and only list-valued addresses are generated: what format 4 wrote for an unconnected server is not known here; 13->14 timestamp repair only for integer timestamps); str() of non-int httpversion items in 0.13->0.14 is not modelled (not generated); whole-chain behaviour from the tuple formats is "
                  "validated (goldens for shipped dumps, inverse-converter "
                  "round trips for versions 10..20). "
                  "trusted: Lean kernel, the AST-based translator (reads `data[\"version\"] = …` in each converter).")
    technique = "Lean 4 proof over a table regenerated from the source (decide +kernel + lemmas) + differential migration runs"
    rule = ("kinds: migfile (every record of a shipped dump through the real migrate_flow with uuid4 replaced by a counter vs the composed Lean migrate_flow, tables carried across records), wsseq (a run of format-11 records - handshake flows, old websocket flows naming a handshake id, plain flows - through the real convert_11_12 in one process vs the Lean converter with its table, expectations from the roles/ids alone), convt (one release-numbered converter step 0.17..3.0 vs the Lean converter, incl. py2-era bytes keys and undecodable text), idseq (a run of format-4 records of a few connections through convert_4_5 with uuid4 replaced by a counter), dumpsplit (a shipped multi-record dump spread over two files read in sequence, optionally another file in between), dumpperm (records of a shipped multi-record dump in another admissible order load as the same flows), conv (one converter step vs the Lean converter), dump (each shipped dumpfile: load, validity, re-save/re-load equality, golden digest), current (random "
            "current-format flows must pass migration unchanged), downgrade (random current flow restricted to what version v "
            "could express, inverse-converted down to v in 10..20, migrated forward, compared), future (unknown versions). "
            "distinct = distinct (kind, parameters); non-trivial = kind != dump-metadata-only.")
    budget = {"quick": 1500, "thorough": 40000}
    time_budget = {"quick": 40, "thorough": 500}
    fingerprints = ["mitmproxy.io.compat:migrate_flow"] + [f"mitmproxy.io.compat:{f.__name__}" for f in compat.converters.values()]
    trusted_base = ["AST translator for the converter graph", "tnetstring + flow from_state/get_state as exercised"]
    parallel = False
    case_timeout = 10

    def on_timeout(self, case):
        # "… loads into valid current flows": a migration loop that does not terminate never loads anything
        return [f"migration of a {case['kind']} case does not terminate within {self.case_timeout}s"]

    # ---- (T) -----------------------------------------------------------------------------------
    def translate(self):
        g = converter_graph()
        rows = ",\n  ".join(f"({_lean_ver(k)}, {_lean_ver(v)})" for k, v in g)
        src = ("-- GENERATED on every run by harness/c38.py from /repo/mitmproxy/io/compat.py and version.py — do not edit\n"
               "import MitmVerif.Model.C38\nnamespace MitmVerif.Gen.C38\nopen MitmVerif.C38\n\n"
               f"def current : Ver := {_lean_ver(version.FLOW_FORMAT_VERSION)}\n\n"
               f"def graph : Graph := [\n  {rows}]\n\nend MitmVerif.Gen.C38\n")
        return {"MitmVerif/Gen/C38.lean": src}

    # ---- cases ---------------------------------------------------------------------------------
    def _dumps(self):
        return sorted(glob.glob(os.path.join(REPO, "test", "mitmproxy", "data", "dumpfile-*")))

    def _rand_flow_state(self, rng):
        kind = rng.choice(["http", "http", "http-noresp", "http-err", "ws"])
        if kind == "ws":
            f = tflow.twebsocketflow()
        else:
            f = tflow.tflow(resp=(kind == "http"), err=(kind == "http-err"))
        f.request.path = "/" + "".join(rng.choice("abc/%?=&") for _ in range(rng.randint(0, 12)))
        f.request.headers["x-r"] = str(rng.randint(0, 10 ** 6))
        f.request.content = rng.bytes_(rng.randint(0, 40))
        if f.response:
            f.response.status_code = rng.choice([200, 204, 301, 404, 500])
            f.response.content = rng.bytes_(rng.randint(0, 40))
        f.marked = rng.choice(["", ":default:", ":grapes:"])
        f.comment = rng.choice(["", "a comment", "ünï"])
        f.metadata["k"] = rng.choice([1, "v", [1, 2], {"a": None}])
        f.client_conn.tls_version = rng.choice([None, "TLSv1.3", "QUICv1"])
        f.server_conn.tls_version = rng.choice([None, "TLSv1.2", "QUICv1"])
        f.client_conn.sni = rng.choice([None, "example.com"])
        f.is_replay = rng.choice([None, "request", "response"])
        if kind == "http-err" and rng.chance(0.5):
            # a flow that failed before its destination was known ("HTTP request has no host header, destination unknown")
            f.server_conn.address = None; f.server_conn.sni = None; f.server_conn.peername = None; f.server_conn.timestamp_start = None
        return f.get_state()

    def generate(self, rng, tier):
        for p in self._dumps():
            yield {"kind": "dump", "file": os.path.relpath(p, REPO)}
        # shipped historical records with single fields edited to values whose meaning in the current format is known
        for p in self._dumps():
            for edit in DUMP_EDITS:
                yield {"kind": "dumpmut", "file": os.path.relpath(p, REPO), "edit": edit, "n": 1}
        for v in [22, 23, 100, 2 ** 40, 0, -1, 3, [0, 10], [0, 20], [3, 1], [4, 0], [1, 1], [21, 0]]:
            yield {"kind": "future", "version": v}
        # records of one old file in another order an old mitmproxy could have written them (connections overlapping in time)
        multi = [p for p in self._dumps() if len(split_records(open(p, "rb").read())) > 1]
        for p in multi:
            for i in range(12):
                yield {"kind": "dumpperm", "file": os.path.relpath(p, REPO), "perm_seed": i}
        # one old recording spread over two files (rotated stream file), read one after the other in one process, optionally with
        # a complete load of another old file in between
        # (another recording: a different file that loads — the same recording read twice at once would collide on its own flow ids)
        gold = self._golden()
        others_of = lambda p_: [os.path.relpath(q, REPO) for q in self._dumps()
                                if q != p_ and (gold.get(os.path.relpath(q, REPO)) or {}).get("flows")]
        for p in multi:
            n = len(split_records(open(p, "rb").read()))
            for cut in range(1, n):
                yield {"kind": "dumpsplit", "file": os.path.relpath(p, REPO), "cut": cut, "between": None}
                o_ = others_of(p)
                yield {"kind": "dumpsplit", "file": os.path.relpath(p, REPO), "cut": cut, "between": o_[cut % len(o_)]}
        # the WHOLE migrate_flow on every record of every shipped dump, in file order and in other admissible orders, vs the composed Lean model
        for p in self._dumps():
            yield {"kind": "migfile", "file": os.path.relpath(p, REPO), "perm_seed": None}
        for p in multi:
            for i in range(3):
                yield {"kind": "migfile", "file": os.path.relpath(p, REPO), "perm_seed": i}
        st0 = canon_in(tflow.tflow(resp=True).get_state())
        # a flow without a destination, as formats 10..18 recorded it (server address None, sni True): fixed entry in known/C38.json
        f0 = tflow.tflow(resp=False, err=True); f0.server_conn.address = None; f0.server_conn.sni = None
        for to in (18, 15, 11):
            yield {"kind": "downgrade", "to": to, "state": canon_in(f0.get_state()), "variant": "sni-auto"}
        yield {"kind": "conv", "v": 18, "state": st0, "tweak": "sni-true-noaddr"}
        for recs in ([{"role": "hs", "id": 0}, {"role": "ws", "id": 1, "hs": 0, "sender": "client", "nmsg": 2}],
                     [{"role": "hs", "id": 0}, {"role": "ws", "id": 1, "hs": 0, "sender": "server", "nmsg": 1}, {"role": "ws", "id": 2, "hs": 0, "sender": None, "nmsg": 0}],
                     [{"role": "ws", "id": 1, "hs": 0, "sender": "client", "nmsg": 1}, {"role": "hs", "id": 0}],
                     [{"role": "hs", "id": 0}, {"role": "plain", "id": 3}, {"role": "hs", "id": 1}, {"role": "ws", "id": 2, "hs": 1, "sender": "client", "nmsg": 1},
                      {"role": "ws", "id": 3, "hs": 0, "sender": "server", "nmsg": 3}],
                     [{"role": "hs", "id": 0}, {"role": "hs", "id": 0}, {"role": "ws", "id": 1, "hs": 0, "sender": "client", "nmsg": 1}]):
            yield {"kind": "wsseq", "state": st0, "recs": [dict({"hs": 0, "sender": None, "nmsg": 0, "both": False}, **r_) for r_ in recs]}
        for recs in ([{"c": 0, "s": 0, "via": None}, {"c": 0, "s": 0, "via": None}], [{"c": 0, "s": 1, "via": None}, {"c": 1, "s": 1, "via": 0}, {"c": 0, "s": 0, "via": 1}],
                     [{"c": 0, "s": 0, "via": 0}, {"c": 1, "s": 2, "via": 2}, {"c": 2, "s": 2, "via": None}, {"c": 0, "s": 0, "via": 0}]):
            yield {"kind": "idseq", "state": st0, "recs": recs}
        while True:
            r = rng.random()
            st = self._rand_flow_state(rng)
            if r < 0.02 and multi:
                p_ = rng.choice(multi); n_ = len(split_records(open(p_, "rb").read()))
                yield {"kind": "dumpsplit", "file": os.path.relpath(p_, REPO), "cut": rng.randint(1, n_ - 1), "between": rng.choice(others_of(p_) + [None])}
            elif r < 0.04 and multi:
                yield {"kind": "dumpperm", "file": os.path.relpath(rng.choice(multi), REPO), "perm_seed": rng.randint(12, 10 ** 9)}
            elif r < 0.12:
                dumps = self._dumps()
                yield {"kind": "dumpmut", "file": os.path.relpath(rng.choice(dumps), REPO), "edit": rng.choice(DUMP_EDITS),
                       "n": rng.randint(2, 10 ** 6)}
            elif r < 0.2 and st.get("websocket") is None:
                # the two converters with process-global tables, on a run of records in one process
                if rng.chance(0.6):
                    recs = []
                    for _ in range(rng.randint(1, 6)):
                        role = rng.choice(["hs", "ws", "ws", "plain"])
                        recs.append({"role": role, "id": rng.randint(0, 3), "hs": rng.randint(0, 3), "sender": rng.choice(["client", "server", None]),
                                     "nmsg": rng.randint(0, 3), "both": rng.chance(0.05)})
                    yield {"kind": "wsseq", "state": canon_in(st), "recs": recs}
                else:
                    yield {"kind": "idseq", "state": canon_in(st),
                           "recs": [{"c": rng.randint(0, 2), "s": rng.randint(0, 2), "via": rng.choice([None, None, 0, 1, 2])} for _ in range(rng.randint(1, 6))]}
            elif r < 0.24 and st.get("websocket") is None:
                v = rng.choice([[0, 11], [0, 12], [0, 13], [0, 13], [0, 13], [0, 14], [0, 15], [0, 15], [0, 16], [0, 17], [0, 17], [0, 18], [0, 18], [0, 19], [1, 0], [1, 0], [2, 0], [3, 0]])
                tw = {(0, 11): [None], (0, 12): [None], (0, 13): ["no-response", "http2", "no-state", None, None], (0, 14): [None], (0, 15): ["no-body", "no-msg", "no-response", None],
                      (0, 16): [None],(0, 17): ["bytes-keys", "bytes-keys", "bytes-keys-bad", "dup-key", None], (0, 18): ["via-conn", "bytes-keys", "no-request", None],
                      (0, 19): ["bytes-keys", "bytes-keys-bad", None], (1, 0): ["via-conn", "ip-none", "addr-none", None], (2, 0): ["via-conn", None], (3, 0): [None]}[tuple(v)]
                yield {"kind": "convt", "v": v, "state": canon_in(st), "tweak": rng.choice(tw)}
            elif r < 0.3:
                yield {"kind": "current", "state": canon_in(st)}
            elif r < 0.5:
                # one converter step, compared field for field (bytes of the re-encoded state) with the Lean converter
                v = rng.choice(CONV_MODELLED)
                c = {"kind": "conv", "v": v, "state": canon_in(st), "tweak": rng.choice(CONV_TWEAKS.get(v, [None]) + [None])}
                if v <= 16 and rng.chance(0.6): c["mode"] = rng.choice(OLD_MODES)
                if c["tweak"] in ("host-bytes", "sni-true-bytes"):
                    alpha = [0x61, 0x2e, 0x80, 0xff, 0xc3, 0xa9, 0x5c, 0x00, 0xe2, 0x82, 0xac, 0xf0, 0x9f, 0x98, 0x80, 0xed, 0xa0, 0xc0, 0xf4, 0x90]
                    c["host_hex"] = [bytes(rng.choice(alpha) for _ in range(rng.randint(0, 10))).hex() for _ in range(4)]
                if c["tweak"] == "sni-bytes":
                    c["sni_hex"] = bytes(rng.choice([0x61, 0x2e, 0x80, 0xff, 0xc3, 0xa9, 0x5c, 0x00]) for _ in range(rng.randint(0, 12))).hex()
                yield c
            elif r < 0.9:
                c = {"kind": "downgrade", "to": rng.randint(MIN_SYNTH, 20), "state": canon_in(st)}
                if c["to"] <= 16 and rng.chance(0.6): c["mode"] = rng.choice(OLD_MODES)
                if 10 < c["to"] <= 18 and rng.chance(0.4): c["variant"] = "sni-auto"
                if c["to"] <= 10 and rng.chance(0.5):
                    c["variant"] = "sni-bytes"
                    c["sni_hex"] = bytes(rng.choice([0x61, 0x2e, 0x80, 0xff, 0xc3, 0xa9, 0x5c, 0x00]) for _ in range(rng.randint(1, 12))).hex()
                yield c
            else:
                yield {"kind": "future", "version": rng.choice([rng.randint(22, 10 ** 6), [rng.randint(0, 9), rng.randint(0, 30)]])}

    # ---- implementation ------------------------------------------------------------------------
    def impl(self, case):
        k = case["kind"]
        if k == "dump":
            path = os.path.join(REPO, case["file"])
            raw = open(path, "rb").read()
            first = tnetstring.load(_io.BytesIO(raw))
            fv = first.get(b"version", first.get("version"))
            fv = fv if isinstance(fv, int) else tuple(fv)[:2]
            supported = fv in compat.converters or fv == version.FLOW_FORMAT_VERSION
            try:
                flows = list(mio.FlowReader(_io.BytesIO(raw)).stream())
            except exceptions.FlowReadException as e:
                return {"supported": supported, "rejected": True, "file_version": list(fv) if isinstance(fv, tuple) else fv,
                        "n": 0, "types": [], "versions": [], "resave_equal": True, "digest": "rejected", "flows": []}
            states = [f.get_state() for f in flows]
            buf = _io.BytesIO(); w = mio.FlowWriter(buf)
            for f in flows: w.add(f)
            buf.seek(0)
            again = [f.get_state() for f in mio.FlowReader(buf).stream()]
            return {"supported": supported, "rejected": False, "file_version": list(fv) if isinstance(fv, tuple) else fv,
                    "n": len(flows), "types": sorted({type(f).__name__ for f in flows}),
                    "versions": sorted({s["version"] for s in states}),
                    "resave_equal": canon(states) == canon(again),
                    "digest": digest(_strip_volatile(states)),
                    "flows": sorted(digest(_strip_volatile([s_])) for s_ in states)}
        if k == "dumpmut":
            path = os.path.join(REPO, case["file"])
            rec = tnetstring.load(open(path, "rb"))
            fv = rec.get(b"version", rec.get("version"))
            fv = fv if isinstance(fv, int) else tuple(fv)[:2]
            if not (fv in compat.converters or fv == version.FLOW_FORMAT_VERSION): raise Skip()
            want = apply_dump_edit(rec, case["edit"], case["n"])
            if want is None: raise Skip()
            try:
                flows = list(mio.FlowReader(_io.BytesIO(tnetstring.dumps(rec))).stream())
            except exceptions.FlowReadException as e:
                return {"error": str(e)[:200], "want": want}
            if len(flows) != 1: return {"error": "count=%d" % len(flows), "want": want}
            f = flows[0]
            got = read_back(f, case["edit"])
            resave = "ok"
            try:
                b2 = _io.BytesIO(); mio.FlowWriter(b2).add(f); b2.seek(0)
                again = [g.get_state() for g in mio.FlowReader(b2).stream()]
                if canon(again) != canon([f.get_state()]): resave = "differs"
            except Exception as e:
                resave = f"{type(e).__name__}: {e}"[:160]
            return {"want": want, "got": got, "resave": resave}
        if k == "dumpperm":
            raw = open(os.path.join(REPO, case["file"]), "rb").read()
            recs = split_records(raw)
            order = interleaving(recs, case["perm_seed"])
            if order == list(range(len(recs))): raise Skip()
            def load(bs):
                try:
                    return sorted(digest(_strip_volatile([f.get_state()])) for f in mio.FlowReader(_io.BytesIO(bs)).stream())
                except exceptions.FlowReadException as e:
                    return "rejected: " + str(e)[:120]
            ref = load(raw)
            got = load(b"".join(recs[i] for i in order))
            return {"order": order, "ref": ref, "got": got, "golden": (self._golden().get(case["file"]) or {}).get("flows")}
        if k == "dumpsplit":
            raw = open(os.path.join(REPO, case["file"]), "rb").read()
            recs = split_records(raw)
            def load(bs):
                try:
                    return [digest(_strip_volatile([f.get_state()])) for f in mio.FlowReader(_io.BytesIO(bs)).stream()]
                except exceptions.FlowReadException as e:
                    return ["rejected: " + str(e)[:120]]
            a = load(b"".join(recs[:case["cut"]]))
            mid = load(open(os.path.join(REPO, case["between"]), "rb").read()) if case["between"] else None
            b = load(b"".join(recs[case["cut"]:]))
            g = self._golden()
            return {"got": sorted(a + b), "golden": (g.get(case["file"]) or {}).get("flows"),
                    "mid": sorted(mid) if mid is not None else None,
                    "mid_golden": (g.get(case["between"]) or {}).get("flows") if case["between"] else None}
        if k == "current":
            st = canon_out(case["state"])
            out = compat.migrate_flow(copy.deepcopy(st))
            return {"unchanged": canon(out) == canon(st)}
        if k == "downgrade":
            orig, old, variant = self._downgrade_old(case)
            shape = shape12_py(tnetstring.loads(tnetstring.dumps(old))) if case["to"] == 12 else None
            # the bare migrate_flow on the record (for the tie with the composed Lean model)
            compat._websocket_handshakes.clear()
            try: mig_out = "ok " + tnetstring.dumps(compat.migrate_flow(tnetstring.loads(tnetstring.dumps(old)))).hex()
            except Exception: mig_out = "none"
            finally: compat._websocket_handshakes.clear()
            # through the real file path: write the old state as a tnetstring record, read with FlowReader
            buf = _io.BytesIO(tnetstring.dumps(old))
            try:
                got = [f.get_state() for f in mio.FlowReader(buf).stream()]
            except exceptions.FlowReadException as e:
                return {"error": str(e)[:200], "mig_out": mig_out, "shape12": shape}
            if variant == "sni-bytes":
                # the only intended difference: format <= 10 stored raw bytes, which read as ASCII with \xNN for the rest
                orig["client_conn"]["sni"] = bytes.fromhex(case["sni_hex"]).decode("ascii", "backslashreplace")
                orig["server_conn"]["sni"] = bytes.fromhex(case["sni_hex"])[::-1].decode("ascii", "backslashreplace")
            diff = _diff(canon(orig), canon(got[0])) if len(got) == 1 else ["count=%d" % len(got)]
            # "re-saving migrated flows and loading them again reproduces the same state"
            resave = "ok"
            try:
                b2 = _io.BytesIO(); w2 = mio.FlowWriter(b2)
                for f in mio.FlowReader(_io.BytesIO(tnetstring.dumps(copy.deepcopy(old)))).stream(): w2.add(f)
                b2.seek(0)
                again = [f.get_state() for f in mio.FlowReader(b2).stream()]
                if canon(again) != canon(got): resave = "differs"
            except Exception as e:
                resave = f"{type(e).__name__}: {e}"[:160]
            return {"equal": not diff, "diff": diff[:6], "resave": resave, "mig_out": mig_out, "shape12": shape}
        if k in ("wsseq", "idseq"):
            return {"steps": self._run_tables(case)}
        if k == "migfile":
            return {"steps": self._run_migfile(case)}
        if k == "convt":
            old2, wire = self._convt_input(case)
            try:
                out = compat.converters[tuple(case["v"])](copy.deepcopy(old2))
            except Exception as e:
                return {"wire": wire.hex(), "out": None, "exc": f"{type(e).__name__}: {e}"[:120]}
            ver = out.get("version", out.get(b"version"))
            return {"wire": wire.hex(), "out": tnetstring.dumps(out).hex(), "version": list(ver) if isinstance(ver, (tuple, list)) else ver,
                    "str_keys": all(isinstance(k_, str) for k_ in out)}
        if k == "conv":
            old2, wire = self._conv_input(case)
            try:
                out = compat.converters[case["v"]](copy.deepcopy(old2))
            except Exception as e:
                return {"wire": wire.hex(), "out": None, "exc": f"{type(e).__name__}: {e}"[:120]}
            hosts = None
            if case["v"] == 18 and case.get("tweak") in ("host-bytes", "sni-true-bytes"):
                hosts = []
                for (cn, old_name, new_name) in (("client_conn", "address", "peername"), ("server_conn", "address", "address"),
                                                 ("server_conn", "ip_address", "peername"), ("server_conn", "source_address", "sockname")):
                    o_ = old2[cn].get(old_name); n_ = out[cn].get(new_name)
                    hosts.append([cn + "." + old_name, o_[0].hex() if o_ and isinstance(o_[0], bytes) else None,
                                  n_[0] if n_ and isinstance(n_[0], str) else (None if not n_ else repr(n_[0]))])
                hosts.append(["server_conn.sni", None, out["server_conn"].get("sni") if isinstance(out["server_conn"].get("sni"), (str, type(None))) else repr(out["server_conn"].get("sni"))])
            return {"wire": wire.hex(), "out": tnetstring.dumps(out).hex(), "version": out.get("version"), "hosts": hosts,
                    "request_same": out.get("request") == old2.get("request"),
                    "untouched_same": all(out.get(k_) == old2.get(k_) for k_ in ("id", "type", "error", "intercepted"))}
        if k == "future":
            v = case["version"]
            if (tuple(v)[:2] if isinstance(v, list) else v) in compat.converters or v == version.FLOW_FORMAT_VERSION:
                raise Skip()   # a known version needs a state of that shape: covered by dump/downgrade cases
            st = tflow.tflow(resp=True).get_state()
            st["version"] = tuple(v) if isinstance(v, list) else v
            try:
                compat.migrate_flow(copy.deepcopy(st))
                r = "ok"
            except ValueError as e:
                r = "update" if "please update" in str(e) else "unknown"
            buf = _io.BytesIO(tnetstring.dumps(st))
            try:
                list(mio.FlowReader(buf).stream()); rr = "ok"
            except exceptions.FlowReadException:
                rr = "flowread"
            return {"migrate": r, "reader": rr}
        raise Skip()

    def _mig_records(self, case):
        recs = split_records(open(os.path.join(REPO, case["file"]), "rb").read())
        if case.get("perm_seed") is not None:
            recs = [recs[i] for i in interleaving(recs, case["perm_seed"])]
        return recs

    def _run_migfile(self, case):
        compat._websocket_handshakes.clear(); compat.client_connections.clear(); compat.server_connections.clear()
        class _U:
            n = 0
            def uuid4(self_):
                v = "uuid-%d" % _U.n; _U.n += 1
                return v
        real = compat.uuid
        compat.uuid = _U()
        outs = []
        try:
            for raw in self._mig_records(case):
                try:
                    o = compat.migrate_flow(tnetstring.loads(raw))
                except Exception as e:
                    outs.append({"out": None, "exc": f"{type(e).__name__}: {e}"[:160]}); continue
                outs.append({"out": tnetstring.dumps(o).hex(), "tbl": len(compat._websocket_handshakes), "version": o.get("version")})
        finally:
            compat.uuid = real
            compat._websocket_handshakes.clear(); compat.client_connections.clear(); compat.server_connections.clear()
        return outs

    def _downgrade_old(self, case):
        """(the current state the case stands for, the same flow as format `to` stored it, the variant applied)"""
        st = restrict_for(canon_out(case["state"]), case["to"])
        # the restricted state must itself be a valid current state
        orig = mflow.Flow.from_state(copy.deepcopy(st)).get_state()
        old = copy.deepcopy(orig)
        for v in range(version.FLOW_FORMAT_VERSION, case["to"], -1):
            if v not in INVERSES: raise Skip()
            INVERSES[v](old)
        assert old["version"] == case["to"]
        if case.get("mode") is not None and "mode" in old:
            old["mode"] = case["mode"]      # what the old release recorded as its proxy mode; today's flows do not keep it
        variant = case.get("variant")
        if variant == "sni-bytes" and case["to"] <= 10:
            # format <= 10 stored the SNI as raw bytes, which need not be ASCII
            old["client_conn"]["sni"] = bytes.fromhex(case["sni_hex"])
            old["server_conn"]["sni"] = bytes.fromhex(case["sni_hex"])[::-1]
        elif variant == "sni-auto" and case["to"] <= 18:
            # formats 10..18 stored sni=True on a server connection for "use the server address" (what a connection that
            # never started TLS kept): applicable when today's sni is exactly that — the address host, or None without an address
            a_ = orig["server_conn"].get("address")
            if orig["server_conn"].get("sni") != (a_[0] if a_ else None): raise Skip()
            old["server_conn"]["sni"] = True
        else:
            variant = None
        return orig, old, variant

    def _ws_records(self, case):
        """format-11 records: handshake flows (metadata.websocket), old-style websocket flows naming a handshake id, plain flows"""
        base, _ = self._conv_input({"v": 11, "state": case["state"]})
        out = []
        for i, r in enumerate(case["recs"]):
            if r["role"] in ("hs", "plain"):
                d = copy.deepcopy(base); d["id"] = "id-%d" % r["id"]
                d["request"]["path"] = b"/rec%d" % i
                d["server_conn"]["timestamp_end"] = 1000.5 + i
                if r["role"] == "hs":
                    d["metadata"]["websocket"] = True
                    if r.get("both"): d["metadata"]["websocket_handshake"] = "id-%d" % r["hs"]
            else:
                d = {"client_conn": copy.deepcopy(base["client_conn"]), "server_conn": copy.deepcopy(base["server_conn"]), "error": None,
                     "id": "id-%d" % r["id"], "intercepted": False, "is_replay": None, "marked": False,
                     "metadata": {"websocket_handshake": "id-%d" % r["hs"]}, "type": "websocket", "version": 11,
                     "messages": [[1, bool(j % 2), b"m%d-%d" % (i, j), 1600000000.25 + j, False] for j in range(r["nmsg"])],
                     "close_sender": r["sender"], "close_code": 1000 + i, "close_reason": "bye%d" % i, "close_message": "(message missing)",
                     "client_key": "k", "client_protocol": "", "client_extensions": "", "server_accept": "a", "server_protocol": "", "server_extensions": ""}
                d["server_conn"]["timestamp_end"] = 2000.5 + i
            if r["role"] == "ws" and r.get("both"):
                d["metadata"]["websocket"] = True
            out.append(d)
        return out

    def _id_records(self, case):
        """format-4 records of a few client / server connections (key: timestamp_start + address)"""
        base, _ = self._conv_input({"v": 5, "state": case["state"]})
        base["client_conn"].pop("id", None); base["server_conn"].pop("id", None); base["version"] = 4
        out = []
        def server(j):
            sc = copy.deepcopy(base["server_conn"]); sc["timestamp_start"] = 1500000000.5 + j; sc["source_address"] = ["10.0.0.%d" % j, 40000 + j]; sc["via"] = None
            return sc
        for r in case["recs"]:
            d = copy.deepcopy(base)
            d["client_conn"]["timestamp_start"] = 1400000000.25 + r["c"]; d["client_conn"]["address"] = ["::ffff:127.0.0.1", 50000 + r["c"], 0, 0]
            d["server_conn"] = server(r["s"])
            if r["via"] is not None: d["server_conn"]["via"] = server(r["via"])
            out.append(d)
        return out

    def _run_tables(self, case):
        """the records through the real converter in one process, tables cleared first; uuid4 replaced by a counter"""
        outs = []
        if case["kind"] == "wsseq":
            compat._websocket_handshakes.clear()
            try:
                for d in self._ws_records(case):
                    loaded = tnetstring.loads(tnetstring.dumps(d))
                    try: o = compat.convert_11_12(copy.deepcopy(loaded))
                    except Exception as e:
                        outs.append({"out": None, "exc": f"{type(e).__name__}: {e}"[:120]}); break
                    outs.append({"out": tnetstring.dumps(o).hex(), "tbl": len(compat._websocket_handshakes), "id": o.get("id"),
                                 "path": _hx((o.get("request") or {}).get("path", b"")) if isinstance(o.get("request"), dict) else None,
                                 "host": _hx((o.get("request") or {}).get("host", b"")) if isinstance(o.get("request"), dict) else None,
                                 "ws": None if o.get("websocket") is None else {"n": len(o["websocket"]["messages"]), "cbc": o["websocket"]["closed_by_client"],
                                                                              "code": o["websocket"]["close_code"], "te": o["websocket"]["timestamp_end"]},
                                 "dup": "duplicated" in (o.get("metadata") or {})})
            finally:
                compat._websocket_handshakes.clear()
        else:
            compat.client_connections.clear(); compat.server_connections.clear()
            class _U:
                n = 0
                def uuid4(self_):
                    v = "uuid-%d" % _U.n; _U.n += 1
                    return v
            real = compat.uuid
            compat.uuid = _U()
            try:
                for d in self._id_records(case):
                    loaded = tnetstring.loads(tnetstring.dumps(d))
                    try: o = compat.convert_4_5(copy.deepcopy(loaded))
                    except Exception as e:
                        outs.append({"out": None, "exc": f"{type(e).__name__}: {e}"[:120]}); break
                    outs.append({"out": tnetstring.dumps(o).hex(), "nc": len(compat.client_connections), "ns": len(compat.server_connections), "drawn": _U.n,
                                 "cid": o["client_conn"].get("id"), "sid": o["server_conn"].get("id"),
                                 "vid": (o["server_conn"].get("via") or {}).get("id")})
            finally:
                compat.uuid = real
                compat.client_connections.clear(); compat.server_connections.clear()
        return outs

    def _convt_input(self, case):
        """a state of the shape the release-numbered format (a, b) had (shape only, see SHAPE_INVERSES)"""
        old, _ = self._conv_input({"v": 5, "state": case["state"]})
        inv_5_4(old)
        for key, inv in TUPLE_CHAIN:
            r_ = inv(old)
            if r_ is not None: old = r_
            if list(key) == list(case["v"]): break
        else:
            raise Skip()
        t = case.get("tweak")
        if t == "via-conn":
            via = copy.deepcopy(old["server_conn"]); via["via"] = None
            old["server_conn"]["via"] = via
        elif t == "ip-none": old["server_conn"]["ip_address"] = None
        elif t == "addr-none": old["server_conn"]["source_address"] = None
        elif t == "no-request": old["request"] = None
        elif t == "bytes-keys": old = _bytes_keys(old)
        elif t == "bytes-keys-bad":
            old = _bytes_keys(old); old[b"id"] = b"\xff\xfe"
        elif t == "dup-key":
            old = _bytes_keys(old); old["marked"] = True; old["type"] = "http"
        elif t == "no-response": old[b"response"] = None
        elif t == "http2":
            old[b"request"][b"httpversion"] = [2, 0]
            if isinstance(old.get(b"response"), dict): old[b"response"][b"httpversion"] = [2, 0]
        elif t == "no-body":
            old[b"request"].pop(b"body", None)
        elif t == "no-msg":
            if isinstance(old.get(b"response"), dict): old[b"response"].pop(b"msg", None)
        elif t == "no-state": old[b"server_conn"].pop(b"state", None)
        wire = tnetstring.dumps(old)
        return tnetstring.loads(wire), wire

    def _conv_input(self, case):
        """the state as format `v` stored it (inverse converters from a current state), as read back from its tnetstring"""
        v = case["v"]
        st = restrict_for(canon_out(case["state"]), v)
        old = mflow.Flow.from_state(copy.deepcopy(st)).get_state()
        for u in range(version.FLOW_FORMAT_VERSION, v, -1):
            inv = INVERSES.get(u) or SHAPE_INVERSES.get(u)
            if inv is None: raise Skip()
            inv(old)
        assert old["version"] == v
        if case.get("mode") is not None and "mode" in old: old["mode"] = case["mode"]
        t = case.get("tweak")
        if t == "sni-bytes":
            old["client_conn"]["sni"] = bytes.fromhex(case["sni_hex"]); old["server_conn"]["sni"] = bytes.fromhex(case["sni_hex"])[::-1]
        elif t == "sni-none":
            old["client_conn"]["sni"] = None
        elif t == "empty-lists":
            old["client_conn"]["alpn_offers"] = None; old["server_conn"]["cipher_list"] = None
        elif t == "marked-true": old["marked"] = True
        elif t == "marked-false": old["marked"] = False
        elif t == "ts-null":
            if not old.get("response"): raise Skip()
            old["request"]["timestamp_end"] = int(old["request"]["timestamp_end"] or 0)
            old["response"]["timestamp_start"] = None
        elif t == "no-request":
            old.pop("request", None)
        elif t in ("host-bytes", "sni-true-bytes", "sni-true"):
            # releases that wrote format <= 18 kept host names as bytes in the address pairs
            cc, sc = old["client_conn"], old["server_conn"]
            if t != "sni-true":
                hx = [bytes.fromhex(x) for x in case["host_hex"]]
                for (c_, name), h in zip(((cc, "address"), (sc, "address"), (sc, "ip_address"), (sc, "source_address")), hx):
                    if c_.get(name): c_[name] = [h] + list(c_[name][1:])
            if t != "host-bytes":
                if not sc.get("address"): raise Skip()
                sc["sni"] = True
        elif t == "via-conn":
            via = copy.deepcopy(old["server_conn"]); via["via"] = None
            old["server_conn"]["via"] = via
        elif t == "no-ssl":
            old["server_conn"].pop("ssl_established", None)
        elif t == "resp-none": old["response"] = None
        elif t == "req-int": old["request"] = 7
        elif t == "req-replay":
            if not old.get("request"): raise Skip()
            old["request"]["is_replay"] = True
        elif t == "resp-replay":
            if not old.get("response"): raise Skip()
            old["response"]["is_replay"] = True
        elif t == "both-replay":
            if not old.get("response") or not old.get("request"): raise Skip()
            old["response"]["is_replay"] = True; old["request"]["is_replay"] = True
        elif t == "no-flf":
            if not old.get("request"): raise Skip()
            old["request"].pop("first_line_format", None)
        elif t == "no-clientcert": old["client_conn"].pop("clientcert", None)
        elif t == "alpn-none":
            old["client_conn"]["alpn_proto_negotiated"] = None; old["server_conn"]["alpn_proto_negotiated"] = b""
        elif t == "cipher-set":
            old["client_conn"]["cipher_name"] = "TLS_AES_128_GCM_SHA256"; old["server_conn"]["cipher_name"] = "X"
        elif t == "sni-true-noaddr":
            old["server_conn"]["address"] = None; old["server_conn"]["sni"] = True
        elif t == "ts-none":
            old["client_conn"]["timestamp_start"] = None
        elif t == "no-transport":
            old["client_conn"].pop("transport_protocol", None); old["server_conn"].pop("transport_protocol", None)
        elif t == "no-cipher-name":
            old["server_conn"].pop("cipher_name", None)
        elif t == "quic":
            old["client_conn"]["tls_version"] = "QUIC"
        elif t == "quic-server":
            old["server_conn"]["tls_version"] = "QUIC"
        wire = tnetstring.dumps(old)
        return tnetstring.loads(wire), wire

    # ---- oracle --------------------------------------------------------------------------------
    def oracle(self, case, obs):
        k = case["kind"]; fails = []
        cur = version.FLOW_FORMAT_VERSION
        if k == "dump":
            # "Every flow file written by a supported older version … loads into valid current flows … re-saving migrated
            #  flows and loading them again reproduces the same state"
            if not obs["supported"]:
                # "Files from … unknown format versions are rejected with an explanatory error"
                if not obs["rejected"]: fails.append(f"{case['file']}: unsupported version {obs['file_version']} was not rejected")
                return fails
            if obs["rejected"]: fails.append(f"{case['file']}: supported version {obs['file_version']} rejected")
            if obs["n"] == 0: fails.append(f"{case['file']}: no flows loaded")
            if obs["versions"] != [cur]: fails.append(f"{case['file']}: loaded flows report versions {obs['versions']}")
            if not obs["resave_equal"]: fails.append(f"{case['file']}: re-save + re-load changes the state")
        elif k == "dumpmut":
            # "Every flow file written by a supported older mitmproxy version … loads into valid current flows" — with the
            # edited field carrying the meaning it had in the old format; "re-saving … reproduces the same state"
            if "error" in obs: fails.append(f"{case['file']} with {case['edit']} edited does not load: {obs['error']}")
            elif obs["got"] != obs["want"]: fails.append(f"{case['file']}: old field {case['edit']} = {obs['want']!r} loads as {obs['got']!r}")
            elif obs["resave"] != "ok": fails.append(f"{case['file']} with {case['edit']} edited cannot be re-saved/re-loaded to the same state: {obs['resave']}")
        elif k == "dumpperm":
            # "Every flow file written by a supported older mitmproxy version … loads into valid current flows": the same
            # records written in another admissible order (each websocket record after its handshake) are the same flows
            # the recorded per-flow digests of the shipped order (corpus/C38/golden_dumps.tbl) are the independent reference;
            # the load of the shipped order in this very run is only a second opinion
            if obs["golden"] is None: fails.append(f"{case['file']}: no golden per-flow digests recorded")
            elif obs["got"] != obs["golden"]:
                fails.append(f"{case['file']} with its records in the order {obs['order']} does not load as the recorded flows "
                             f"({sum(1 for x in obs['got'] if x not in obs['golden']) if isinstance(obs['got'], list) else obs['got']} differ)")
            elif obs["got"] != obs["ref"]:
                fails.append(f"{case['file']} with its records in the order {obs['order']} loads as different flows than in the shipped order "
                             f"({len(obs['got']) if isinstance(obs['got'], list) else obs['got']} vs {len(obs['ref']) if isinstance(obs['ref'], list) else obs['ref']} flows; "
                             f"{sum(1 for x in obs['got'] if x not in obs['ref']) if isinstance(obs['got'], list) and isinstance(obs['ref'], list) else '?'} differ)")
        elif k == "dumpsplit":
            # the same old recording, spread over two files that are read one after the other, is the same flows
            if obs["golden"] is None: fails.append(f"{case['file']}: no golden per-flow digests recorded")
            elif obs["got"] != obs["golden"]:
                fails.append(f"{case['file']} split after record {case['cut']}" + (f" (with {case['between']} loaded in between)" if case["between"] else "") +
                             f" does not load as the recorded flows ({sum(1 for x in obs['got'] if x not in obs['golden'])} of {len(obs['got'])} differ)")
            if obs["mid"] is not None and obs["mid"] != obs["mid_golden"]:
                fails.append(f"{case['between']} loaded between the two parts of {case['file']} does not load as recorded")
        elif k == "current":
            # "current-format flow states pass through migration unchanged"
            if not obs["unchanged"]: fails.append("current-format state changed by migrate_flow")
        elif k == "downgrade":
            # "synthetic flow states for each historical format version … load into valid current flows" (equal to the flow they came from)
            # checked_shape_loads, asked of the real code: a format-12 record of the proved shape must come out of migrate_flow
            if obs.get("shape12") and not obs["mig_out"].startswith("ok "):
                fails.append("a format-12 record of the shape Shape12/ConnShape (format_12_records_load) was not migrated by migrate_flow")
            if "error" in obs: fails.append(f"state downgraded to v{case['to']} does not load: {obs['error']}")
            elif not obs["equal"]: fails.append(f"state downgraded to v{case['to']} migrates to a different state: {obs['diff']}")
            elif obs.get("resave") != "ok": fails.append(f"flow migrated from v{case['to']} cannot be re-saved and re-loaded to the same state: {obs['resave']}")
        elif k == "conv":
            # the facts proved of the modelled converters (conv_writes_next_version, request_preserved), asked of the real ones
            if obs["out"] is None:
                # deliberately malformed states (a field the format requires is missing / of the wrong type) only feed the model tie
                if case.get("tweak") not in MALFORMED_TWEAKS: fails.append(f"converter {case['v']} raised on a state of its own format: {obs['exc']}")
            else:
                if obs["version"] != case["v"] + 1: fails.append(f"converter {case['v']} wrote version {obs['version']}")
                if not obs["request_same"] and case["v"] not in (7, 8): fails.append(f"converter {case['v']} changed the request")
                if not obs["untouched_same"]: fails.append(f"converter {case['v']} changed id/type/error/intercepted")
                # 18→19: a host name an old release stored as bytes is that text afterwards (host_decode_valid_utf8), an
                # undecodable byte is spelled \\xNN (host_decode_escape) — expectation computed from the input bytes alone
                for name, hx, got in (obs.get("hosts") or []):
                    if hx is None: continue
                    want = ref_backslash_utf8(bytes.fromhex(hx))
                    if got != want: fails.append(f"converter 18: {name} host bytes {hx} became {got!r}, expected {want!r}")
                if obs.get("hosts") and case.get("tweak") == "sni-true-bytes":
                    hx = [h for n, h, g in obs["hosts"] if n == "server_conn.address"][0]
                    if hx is not None and obs["hosts"][-1][2] != ref_backslash_utf8(bytes.fromhex(hx)):
                        fails.append(f"converter 18: sni=True with address host {hx} became sni {obs['hosts'][-1][2]!r}")
        elif k == "convt":
            # tuple_writes_next_version, asked of the real converters; the py2-era tweaks with undecodable text only feed the tie
            want = {(0, 11): [0, 12], (0, 12): [0, 13], (0, 13): [0, 14], (0, 14): [0, 15], (0, 15): [0, 16], (0, 16): [0, 17], (0, 17): [0, 18], (0, 18): [0, 19], (0, 19): [1, 0, 0], (1, 0): [2, 0, 0], (2, 0): [3, 0, 0], (3, 0): 4}[tuple(case["v"])]
            if obs["out"] is None:
                noresp = tuple(case["v"]) in ((0, 13), (0, 15)) and not canon_out(case["state"]).get("response")   # these two index into the response
                if case.get("tweak") not in ("bytes-keys-bad", "addr-none", "no-request", "no-response", "no-state") and not noresp:
                    fails.append(f"converter {case['v']} raised on a state of its own format: {obs['exc']}")
            else:
                if obs["version"] != want: fails.append(f"converter {case['v']} wrote version {obs['version']}, expected {want}")
                if tuple(case["v"]) in ((0, 17), (0, 18), (0, 19)) and not obs["str_keys"]:
                    fails.append(f"converter {case['v']} left a bytes key at top level")
        elif k == "migfile":
            # migrate_ends_at_current, asked of the real loop: a record either raises or comes out at the current version
            for i, o in enumerate(obs["steps"]):
                if o["out"] is not None and o["version"] != cur:
                    fails.append(f"{case['file']} record {i}: migrate_flow returned version {o['version']}")
        elif k == "wsseq":
            # an old recording keeps a websocket connection as a handshake flow plus a message flow naming it: loaded, the
            # messages belong to THAT handshake flow (expectation computed from the case's roles/ids alone)
            table = {}
            for i, (r, o) in enumerate(zip(case["recs"], obs["steps"])):
                # a record carrying both metadata flags never occurred in old files: from there on the run only feeds the model tie
                if r.get("both"): break
                if o["out"] is None:
                    fails.append(f"record {i} ({r['role']}) of the run raised: {o['exc']}"); break
                if r["role"] in ("hs", "plain") and not r.get("both"):
                    if o["id"] != "id-%d" % r["id"] or o["path"] != (b"/rec%d" % i).hex() or o["ws"] is not None or o["dup"]:
                        fails.append(f"record {i} ({r['role']} id-{r['id']}) came out as id {o['id']!r}, path {bytes.fromhex(o['path'] or '')!r}, websocket {o['ws']}")
                    if r["role"] == "hs": table[r["id"]] = i
                elif r["role"] == "ws" and not r.get("both"):
                    want_ws = {"n": r["nmsg"], "cbc": r["sender"] == "client", "code": 1000 + i}
                    got_ws = None if o["ws"] is None else {k_: o["ws"][k_] for k_ in ("n", "cbc", "code")}
                    if r["hs"] in table:
                        j = table.pop(r["hs"])
                        if o["id"] != "id-%d" % r["hs"] or o["path"] != (b"/rec%d" % j).hex() or got_ws != want_ws or not o["dup"] or o["ws"]["te"] != 1000.5 + j:
                            fails.append(f"record {i}: websocket flow naming handshake id-{r['hs']} (record {j}) came out as id {o['id']!r}, path "
                                         f"{bytes.fromhex(o['path'] or '')!r}, websocket {o['ws']} (wanted {want_ws}, timestamp_end {1000.5 + j})")
                    else:
                        if o["id"] != "id-%d" % r["id"] or o["host"] != b"unknown".hex() or got_ws != want_ws or o["ws"]["te"] != 2000.5 + i:
                            fails.append(f"record {i}: websocket flow without a handshake on record came out as id {o['id']!r}, host "
                                         f"{bytes.fromhex(o['host'] or '')!r}, websocket {o['ws']} (wanted {want_ws})")
                if o["tbl"] != len(table):
                    fails.append(f"after record {i} {o['tbl']} handshake(s) are on record, expected {len(table)}")
        elif k == "idseq":
            # flows of one old connection (same timestamp_start + address) share one connection id, different connections differ
            cids, sids = {}, {}
            for i, (r, o) in enumerate(zip(case["recs"], obs["steps"])):
                if o["out"] is None:
                    fails.append(f"record {i} of the run raised: {o['exc']}"); break
                for what, key, tbl, got in (("client", r["c"], cids, o["cid"]), ("server", r["s"], sids, o["sid"])) + \
                                            ((("via", r["via"], sids, o["vid"]),) if r["via"] is not None else ()):
                    if not isinstance(got, str) or not got: fails.append(f"record {i}: {what} connection id is {got!r}"); continue
                    if key in tbl and tbl[key] != got: fails.append(f"record {i}: {what} connection {key} had id {tbl[key]} and now gets {got}")
                    if key not in tbl and got in tbl.values(): fails.append(f"record {i}: new {what} connection {key} gets the id {got} of another connection")
                    tbl.setdefault(key, got)
                if set(cids.values()) & set(sids.values()): fails.append(f"record {i}: a client and a server connection share an id")
        elif k == "future":
            # "Files from newer, unknown format versions are rejected with an explanatory error"
            v = case["version"]
            known = (tuple(v)[:2] if isinstance(v, list) else v) in compat.converters or v == cur
            if not known:
                want = "update" if isinstance(v, int) and v > cur else "unknown"
                if obs["migrate"] != want: fails.append(f"version {v}: migrate_flow gave {obs['migrate']}, expected {want}")
                if obs["reader"] != "flowread": fails.append(f"version {v}: FlowReader gave {obs['reader']}")
        return fails

    # ---- model tie: the loop outcome for every version value we try ------------------------------
    def model_lines(self, case):
        if case["kind"] == "future":
            v = case["version"]
            return ["mig " + ("int %d" % v if isinstance(v, int) else "tup %d %d" % (v[0], v[1]))]
        if case["kind"] == "downgrade":
            try: _, old, _ = self._downgrade_old(case)
            except Skip: return None
            te = (old.get("request") or {}).get("timestamp_end")
            fl = ["fadd %s %s" % (repr(te).encode().hex(), repr(te + 1).encode().hex())] if isinstance(te, float) else []
            sh = ["shape12 %s" % tnetstring.dumps(old).hex()] if case["to"] == 12 else []
            return ["mig int %d" % case["to"], "steps int %d" % case["to"]] + sh + ["tables-reset"] + fl + ["migrate %s" % tnetstring.dumps(old).hex()]
        if case["kind"] == "conv":
            try: _, wire = self._conv_input(case)
            except Skip: return None
            return ["conv %d %s" % (case["v"], wire.hex() or "-")]
        if case["kind"] == "convt":
            try: _, wire = self._convt_input(case)
            except Skip: return None
            return ["convt %d %d %s" % (case["v"][0], case["v"][1], wire.hex() or "-")]
        if case["kind"] == "migfile":
            lines = ["tables-reset"]; seen = set()
            for raw in self._mig_records(case):
                # library answer for 13->14's `timestamp_end + 1` on a float (Python double arithmetic + repr): handed to the model
                d_ = tnetstring.loads(raw)
                rq = d_.get("request", d_.get(b"request"))
                te = rq.get("timestamp_end", rq.get(b"timestamp_end")) if isinstance(rq, dict) else None
                if isinstance(te, float) and te not in seen:
                    seen.add(te); lines.append("fadd %s %s" % (repr(te).encode().hex(), repr(te + 1).encode().hex()))
                lines.append("migrate %s" % raw.hex())
            return lines
        if case["kind"] in ("wsseq", "idseq"):
            try: recs = self._ws_records(case) if case["kind"] == "wsseq" else self._id_records(case)
            except Skip: return None
            op = "conv11" if case["kind"] == "wsseq" else "conv4"
            return ["tables-reset"] + ["%s %s" % (op, tnetstring.dumps(d).hex()) for d in recs]
        if case["kind"] == "dump":
            return ["golden"]   # the golden digest table is the 'model' side for shipped dumps (not a Lean line)
        return None

    def model_obs(self, case, replies):
        if case["kind"] == "future": return replies[0]
        if case["kind"] == "downgrade":     # the table size is not compared here
            return replies[:2] + [" ".join(replies[-1].split()[:2])] + ([replies[2]] if case["to"] == 12 else [])
        if case["kind"] in ("conv", "convt"): return replies[0]
        if case["kind"] == "migfile": return [r for r in replies[1:] if r != "ok"]     # drop the acknowledgements of `fadd` lines
        if case["kind"] in ("wsseq", "idseq"):
            out = []
            for r in replies[1:]:
                out.append(r)
                if r == "none": break          # the reader stops at a record that raises
            return out
        if case["kind"] == "dump":
            g = self._golden().get(case["file"])
            return g if g is not None else "<no golden recorded>"
        return None

    def impl_view(self, case, obs):
        if case["kind"] == "future":
            v = case["version"]
            known = (tuple(v)[:2] if isinstance(v, list) else v) in compat.converters or v == version.FLOW_FORMAT_VERSION
            return "ok" if (known and obs["migrate"] == "ok") else {"update": "errUpdate", "unknown": "errUnknown", "ok": "ok"}[obs["migrate"]]
        if case["kind"] == "downgrade":
            return (["ok", str(version.FLOW_FORMAT_VERSION - case["to"])] if "error" not in obs else ["err", "?"]) + [obs["mig_out"]] + \
                   (["1" if obs["shape12"] else "0"] if case["to"] == 12 else [])
        if case["kind"] in ("conv", "convt"):
            return "none" if obs["out"] is None else "ok " + obs["out"]
        if case["kind"] in ("wsseq", "migfile"):
            return ["none" if o["out"] is None else "ok %s %d" % (o["out"], o["tbl"]) for o in obs["steps"]]
        if case["kind"] == "idseq":
            return ["none" if o["out"] is None else "ok %s %d %d %d" % (o["out"], o["nc"], o["ns"], o["drawn"]) for o in obs["steps"]]
        if case["kind"] == "dump":
            return {"n": obs["n"], "types": obs["types"], "digest": obs["digest"], "flows": obs["flows"]}
        return None

    def _golden(self):
        p = os.path.join(CORPUS, "C38", "golden_dumps.tbl")
        return json.load(open(p)) if os.path.exists(p) else {}

    def classify(self, case, obs):
        if case["kind"] == "dump": return ("dump", case["file"])
        if case["kind"] == "dumpmut": return ("dumpmut", case["file"], case["edit"], case["n"])
        if case["kind"] == "dumpperm": return ("dumpperm", case["file"], tuple(obs["order"]) if obs and "order" in obs else case["perm_seed"])
        if case["kind"] == "dumpsplit": return ("dumpsplit", case["file"], case["cut"], case["between"])
        if case["kind"] == "future": return ("future", str(case["version"]))
        if case["kind"] == "conv": return ("conv", case["v"], case.get("tweak"), case.get("mode"), digest(case["state"]))
        if case["kind"] in ("wsseq", "idseq"): return (case["kind"], json.dumps(case["recs"], sort_keys=True), digest(case["state"]))
        if case["kind"] == "convt": return ("convt", tuple(case["v"]), case.get("tweak"), digest(case["state"]))
        if case["kind"] == "migfile": return ("migfile", case["file"], case.get("perm_seed"))
        return (case["kind"], case.get("to"), case.get("mode"), case.get("variant"), digest(case["state"]))

    def branches(self, case, obs):
        if case["kind"] == "dumpmut": return ["dumpmut:" + case["edit"]]
        if case["kind"] == "dumpperm": return ["dumpperm:" + os.path.basename(case["file"])]
        if case["kind"] == "dumpsplit": return ["dumpsplit:" + os.path.basename(case["file"]) + (":between" if case["between"] else "")]
        if case["kind"] == "conv": return ["conv:v%d" % case["v"], "conv-tweak:%s" % case.get("tweak")]
        if case["kind"] == "convt": return ["convt:%d.%d" % tuple(case["v"]), "convt-tweak:%s" % case.get("tweak")]
        if case["kind"] == "migfile": return ["migfile:" + os.path.basename(case["file"])]
        if case["kind"] == "wsseq": return ["wsseq"] + sorted({"wsseq:" + r["role"] for r in case["recs"]})
        if case["kind"] == "idseq": return ["idseq"] + (["idseq:via"] if any(r["via"] is not None for r in case["recs"]) else [])
        return [case["kind"] + (":v%d" % case["to"] if case["kind"] == "downgrade" else "")] + \
               (["shape12:%d" % int(bool(obs.get("shape12")))] if case["kind"] == "downgrade" and case.get("to") == 12 and obs else [])

    def describe(self, case, obs):
        c = dict(case)
        if "state" in c: c["state"] = "<flow state %s>" % digest(c["state"])
        return {"case": c, "impl": obs}

    def shrink_candidates(self, case):
        return iter(())

    def exhaustive(self, tier):
        for p in self._dumps():
            yield {"kind": "dump", "file": os.path.relpath(p, REPO)}
        for v in range(-2, 60):
            yield {"kind": "future", "version": v}
        for a in range(0, 5):
            for b in range(0, 25):
                yield {"kind": "future", "version": [a, b]}


# values old releases stored in the top-level "mode" of a flow (their `mode` option as typed)
OLD_MODES = ["regular", "transparent", "upstream", "socks5", "reverse", "upstream:http://proxy.example:8080", "reverse:https://example.com",
             "reverse:http://127.0.0.1:8000", "dummy", ""]
CONV_MODELLED = [5, 6, 7, 8, 8, 9, 9, 10, 11, 12, 13, 14, 15, 16, 17, 18, 18, 19, 20]
MALFORMED_TWEAKS = {"no-ssl", "no-flf", "req-int"}
CONV_TWEAKS = {5: ["via-conn", "no-ssl"], 7: ["resp-none", "no-request", "req-int"], 8: ["req-replay", "resp-replay", "both-replay", "no-request", "resp-none", "no-flf"],
               9: ["via-conn", "no-clientcert", "alpn-none", "cipher-set"],
               10: ["sni-bytes", "sni-bytes", "sni-none", "empty-lists"], 12: ["marked-true", "marked-false"], 13: ["ts-null", "ts-null"],
               15: ["no-request"], 18: ["host-bytes", "host-bytes", "host-bytes", "sni-true", "sni-true-bytes", "sni-true-noaddr", "ts-none", "no-transport", "no-cipher-name"],
               20: ["quic", "quic-server"]}
def _hx(v):
    return v.hex() if isinstance(v, bytes) else str(v).encode("utf-8", "surrogateescape").hex()


def shape12_py(d):
    """Python twin of Lean `shape12B` (Model/C38_Migrate.lean): the shape under which format_12_records_load proves that the record loads"""
    def truthy(v): return bool(v)
    def host_ok(c, k):
        if k not in c: return True
        v = c[k]
        return (not truthy(v)) or isinstance(v, (list, tuple, str, bytes))
    if not isinstance(d, dict) or "marked" not in d: return False
    r = d.get("response", 0)
    if not (r is None or (isinstance(r, dict) and r.get("timestamp_start", None) is not None)): return False
    if "websocket" not in d or d["websocket"] is not None: return False
    rq = d.get("request")
    if not (isinstance(rq, dict) and "timestamp_start" in rq): return False
    cc, sc = d.get("client_conn"), d.get("server_conn")
    if not (isinstance(cc, dict) and isinstance(sc, dict)): return False
    if not all(k in cc for k in ("tls_extensions", "tls_established", "tls_version")): return False
    if not all(k in sc for k in ("tls_established", "tls_version", "sni")): return False
    if not (host_ok(cc, "address") and host_ok(cc, "sockname") and host_ok(sc, "ip_address") and host_ok(sc, "source_address") and host_ok(sc, "address")): return False
    if sc["sni"] is True:
        a = sc.get("address", 0)
        if not (a is None or (isinstance(a, (list, tuple)) and len(a) > 0)): return False
    return True


def ref_backslash_utf8(b):
    """reference for decode(errors='backslashreplace'): the longest strictly valid UTF-8 character at each position, else \\xNN for that byte"""
    out = []; i = 0
    while i < len(b):
        for n in (1, 2, 3, 4):
            try:
                ch = b[i:i + n].decode("utf-8", "strict")
            except UnicodeDecodeError:
                continue
            if len(ch) == 1:
                out.append(ch); i += n; break
        else:
            out.append("\\x%02x" % b[i]); i += 1
    return "".join(out)


def split_records(raw):
    """the byte slices of the tnetstring records of a flow file"""
    f = _io.BytesIO(raw); out = []; pos = 0
    while True:
        try: tnetstring.load(f)
        except ValueError: break
        out.append(raw[pos:f.tell()]); pos = f.tell()
    return out


def interleaving(recs, seed):
    """a pseudo-random order of the records that keeps every websocket record behind its handshake record and the
    records of one connection in their shipped order (what overlapping connections would have produced)"""
    import random
    def g(d, k): return d.get(k, d.get(k.encode() if isinstance(k, str) else k))
    def s_(x): return x.decode() if isinstance(x, bytes) else x
    groups = {}; order_of_groups = []
    for i, r in enumerate(recs):
        d = tnetstring.loads(r); md = g(d, "metadata") or {}
        hs = g(md, "websocket_handshake")
        key = s_(hs) if hs is not None else s_(g(d, "id"))
        if key not in groups: groups[key] = []; order_of_groups.append(key)
        groups[key].append(i)
    rnd = random.Random(seed); queues = [list(groups[k]) for k in order_of_groups]; out = []
    while any(queues):
        q = rnd.choice([q for q in queues if q]); out.append(q.pop(0))
    return out


DUMP_EDITS = ["conn_host_bytes", "error", "req_content", "resp_content", "status", "host", "port", "path", "req_header", "resp_reason"]


def _k(d, name):
    """the key under which `name` is stored in an old-format dict (py2-era dumps use byte-string keys)"""
    if name in d: return name
    b = name.encode()
    return b if b in d else None


def _like(sample, text):
    return text.encode() if isinstance(sample, bytes) else text


def apply_dump_edit(rec, edit, n):
    """edit ONE field of a historical record in place; return the value the loaded current flow must show"""
    bkeys = any(isinstance(k, bytes) for k in rec)
    K = (lambda s: s.encode()) if bkeys else (lambda s: s)
    req = rec.get(K("request")); resp = rec.get(K("response"))
    if edit == "error":
        rec[K("error")] = {K("msg"): ("boom-%d" % n).encode() if bkeys else "boom-%d" % n, K("timestamp"): 12.5}
        return ["boom-%d" % n, 12.5]
    if edit == "req_content" and req is not None:
        k = _k(req, "content") or _k(req, "body")
        if k is None: return None
        req[k] = b"body-%d\x00\xff" % n
        hk = _k(req, "headers")
        return (b"body-%d\x00\xff" % n).hex()
    if edit == "resp_content" and resp:
        k = _k(resp, "content") or _k(resp, "body")
        if k is None: return None
        resp[k] = b"resp-%d\x80" % n
        return (b"resp-%d\x80" % n).hex()
    if edit == "status" and resp:
        k = _k(resp, "status_code") or _k(resp, "code")
        if k is None: return None
        resp[k] = 200 + n % 300
        return 200 + n % 300
    if edit == "host" and req is not None:
        k = _k(req, "host")
        if k is None: return None
        req[k] = _like(req[k], "h%d.example" % n) if req[k] is not None else b"h%d.example" % n
        return "h%d.example" % n
    if edit == "port" and req is not None:
        k = _k(req, "port")
        if k is None: return None
        req[k] = 1 + n % 65000
        return 1 + n % 65000
    if edit == "path" and req is not None:
        k = _k(req, "path")
        if k is None: return None
        req[k] = _like(req[k], "/p%d?q=1" % n)
        return "/p%d?q=1" % n
    if edit == "req_header" and req is not None:
        k = _k(req, "headers")
        if k is None: return None
        req[k] = list(req[k]) + [[b"x-old-%d" % (n % 7), b"v-%d" % n]]
        return (b"v-%d" % n).hex()
    if edit == "conn_host_bytes":
        # formats that stored connection addresses as bytes: a host that is not valid UTF-8 (what the peer sent / a raw SNI-derived name)
        hit = False
        for cn in ("client_conn", "server_conn"):
            c = rec.get(K(cn))
            if not isinstance(c, dict): continue
            for an in ("address", "peername", "sockname", "ip_address", "source_address"):
                k = _k(c, an)
                if k is None or not c[k]: continue
                v = c[k]
                if isinstance(v, dict):
                    ak = _k(v, "address")
                    if ak is not None and v[ak] and isinstance(v[ak][0], bytes):
                        v[ak] = [b"caf\xe9-%d.example" % n] + list(v[ak][1:]); hit = True
                elif isinstance(v, (list, tuple)) and isinstance(v[0], bytes):
                    c[k] = [b"caf\xe9-%d.example" % n] + list(v[1:]); hit = True
        return "loads" if hit else None
    if edit == "resp_reason" and resp:
        k = _k(resp, "reason") or _k(resp, "msg")
        if k is None: return None
        resp[k] = _like(resp[k], "Reason %d" % n) if resp[k] is not None else b"Reason %d" % n
        return "Reason %d" % n
    return None


def read_back(f, edit):
    if edit == "conn_host_bytes": return "loads"     # what is demanded here: it loads and can be re-saved / re-loaded to the same state
    if edit == "error": return [f.error.msg, f.error.timestamp] if f.error else None
    if edit == "req_content": return f.request.raw_content.hex() if f.request.raw_content is not None else None
    if edit == "resp_content": return f.response.raw_content.hex() if f.response and f.response.raw_content is not None else None
    if edit == "status": return f.response.status_code if f.response else None
    if edit == "host": return f.request.host
    if edit == "port": return f.request.port
    if edit == "path": return f.request.path
    if edit == "req_header":
        vals = [v for k, v in f.request.headers.fields if k.startswith(b"x-old-")]
        return vals[-1].hex() if vals else None
    if edit == "resp_reason": return f.response.reason if f.response else None
    return None


def _strip_volatile(states):
    """ids minted by convert_4_5 (uuid4) are not part of the meaning of a migrated flow"""
    out = copy.deepcopy(states)
    for s in out:
        for c in ("client_conn", "server_conn"):
            if isinstance(s.get(c), dict): s[c].pop("id", None)
    return out


def canon_in(state):
    """flow state → JSON-able case payload (tagged)"""
    def enc(o):
        if isinstance(o, dict): return {"__d": [[enc(k), enc(v)] for k, v in o.items()]}
        if isinstance(o, tuple): return {"__t": [enc(x) for x in o]}
        if isinstance(o, list): return [enc(x) for x in o]
        if isinstance(o, bytes): return {"__b": o.hex()}
        if isinstance(o, float): return {"__f": repr(o)}
        return o
    return enc(state)


def canon_out(payload):
    def dec(o):
        if isinstance(o, dict):
            if "__d" in o: return {dec(k): dec(v) for k, v in o["__d"]}
            if "__t" in o: return tuple(dec(x) for x in o["__t"])
            if "__b" in o: return bytes.fromhex(o["__b"])
            if "__f" in o: return float(o["__f"])
        if isinstance(o, list): return [dec(x) for x in o]
        return o
    return dec(payload)


def _diff(a, b, path=""):
    if type(a) is not type(b): return [f"{path}: {a!r} vs {b!r}"]
    if isinstance(a, dict):
        out = []
        for k in sorted(set(a) | set(b)):
            if k not in a: out.append(f"{path}/{k}: missing before")
            elif k not in b: out.append(f"{path}/{k}: missing after")
            else: out += _diff(a[k], b[k], f"{path}/{k}")
        return out
    if isinstance(a, list):
        if len(a) != len(b): return [f"{path}: len {len(a)} vs {len(b)}"]
        out = []
        for i, (x, y) in enumerate(zip(a, b)): out += _diff(x, y, f"{path}[{i}]")
        return out
    return [] if a == b else [f"{path}: {a!r} vs {b!r}"]
