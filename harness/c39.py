"""C39 — stream saving writes each completed flow once and keeps open flows at shutdown
(mitmproxy/addons/save.py, mitmproxy/io/io.py).

A case is a history of events against the real Save addon inside taddons.context: lifecycle hooks of <=5 concurrent
flows of every type, edits of the flow objects between hooks (response/error/websocket/marked/version), option
updates (file change incl. append/overwrite, rotating strftime pattern, unopenable path; filter change incl. an
unparsable filter; stop), clock ticks for the strftime pattern and the `done` hook.  After every event the stream
files under /verif/.work are parsed back with FlowReader.
"""
import contextlib, io as pyio, json, os, shutil, tempfile, warnings
from common.check import PropertyCheck
from common.paths import WORK

warnings.simplefilter("ignore", DeprecationWarning)

from mitmproxy import exceptions, flowfilter, http, tcp, udp, dns, websocket, flow as mflow
from mitmproxy import io as mio
from mitmproxy.addons import save
from mitmproxy.test import taddons, tflow

TYPES = ["http", "tcp", "udp", "dns"]           # content code typ
START = {"http": "request", "ws": "request", "tcp": "tcp_start", "udp": "udp_start", "dns": "dns_request"}
# completion hooks per the property statement
COMPLETION = {"response", "error", "websocket_end", "tcp_end", "tcp_error", "udp_end", "udp_error", "dns_response", "dns_error"}
STARTS = set(START.values())
HOOKS_OF = {"http": ["request", "response", "error", "websocket_end"], "tcp": ["tcp_start", "tcp_end", "tcp_error"],
            "udp": ["udp_start", "udp_end", "udp_error"], "dns": ["dns_request", "dns_response", "dns_error"]}
PATS = {0: "a", 1: "sub/b", 2: "r%M", 3: "dir", 4: "d%H/x%M", 5: "h%H"}     # pattern id -> path pattern (3 is a directory: cannot be opened)
ATOMS = {"all": "~all", "http": "~http", "tcp": "~tcp", "udp": "~udp", "dns": "~dns", "ws": "~websocket",
         "resp": "~s", "err": "~e", "marked": "~marked",
         "noresp": "~q", "replay": "~replay", "post": "~m POST", "c200": "~c 200", "c404": "~c 404"}
FILES = {"a": 0, "sub/b": 1, "r0": 10, "r1": 11, "r3": 13, "h0": 300, "h2": 302, "h3": 303}
FILES.update({"d%d/x%d" % (h, m): 200 + 4 * h + m for h in range(4) for m in range(4)})


import pathlib
_OPENS = []          # (path, mode) of every Path.open performed by the addon during the current event


class _RecPath(type(pathlib.Path())):
    def open(self, mode="r", *a, **kw):
        _OPENS.append((str(self), mode))
        return super().open(mode, *a, **kw)


class _FakeNow:
    now = 0
    @classmethod
    def today(cls): return cls
    @classmethod
    def strftime(cls, fmt): return fmt.replace("%M", str(cls.now % 4)).replace("%H", str((cls.now // 4) % 4))


def flt_str(pol):
    """polish token list -> (mitmproxy filter expression, rest)"""
    t, rest = pol[0], pol[1:]
    if t in ATOMS: return ATOMS[t], rest
    if t == "not":
        a, rest = flt_str(rest); return "!( %s )" % a, rest
    a, rest = flt_str(rest); b, rest = flt_str(rest)
    return "( %s %s %s )" % (a, "&" if t == "and" else "|", b), rest


# flowfilter.parse is a pure function of the expression and takes ~65 ms (pyparsing): memoise it (results and
# ValueErrors) for the addon and for the harness; the filters come from a fixed pool that setup() parses before forking
_MEMO = {}
if not getattr(flowfilter.parse, "_c39_memo", False):
    _orig_parse = flowfilter.parse
    def _memo_parse(s):
        if s not in _MEMO:
            try: _MEMO[s] = (True, _orig_parse(s))
            except ValueError as e: _MEMO[s] = (False, e)
        ok, r = _MEMO[s]
        if ok: return r
        raise ValueError(str(r))
    _memo_parse._c39_memo = True
    flowfilter.parse = _memo_parse
_parse = flowfilter.parse


def _pool():
    atoms = sorted(ATOMS)
    out = [[a] for a in atoms] + [["not", a] for a in ("err", "resp", "ws", "marked", "http", "replay", "c200")]
    x = 12345
    def nxt(n):
        nonlocal x
        x = (x * 1103515245 + 12345) % (1 << 31); return (x >> 8) % n
    for _ in range(14):
        a, b, c = atoms[nxt(14)], atoms[nxt(14)], atoms[nxt(14)]
        k = nxt(5)
        out.append([["and", a, b], ["or", a, b], ["and", a, "not", b], ["or", "not", a, "and", b, c], ["not", "or", a, b]][k])
    return out


def eval_pol(pol, c):
    """the filter (polish token list) on a content code — written from the documented meaning of the atoms, independent of
    mitmproxy.flowfilter; returns (value, rest)"""
    t, rest = pol[0], pol[1:]
    typ = c % 4; bit = lambda k: (c // k) % 2 == 1
    if t == "all": return True, rest
    if t in ("http", "tcp", "udp", "dns"): return typ == ("http", "tcp", "udp", "dns").index(t), rest
    if t == "ws": return bit(16), rest
    if t == "resp": return bit(4), rest
    if t == "err": return bit(8), rest
    if t == "marked": return bit(32), rest
    if t == "noresp": return typ in (0, 3) and not bit(4), rest
    if t == "replay": return bit(64), rest
    if t == "post": return typ == 0 and bit(128), rest
    if t == "c200": return typ == 0 and bit(4) and not bit(256), rest
    if t == "c404": return typ == 0 and bit(4) and bit(256), rest
    if t == "not":
        a, rest = eval_pol(rest, c); return (not a), rest
    a, rest = eval_pol(rest, c); b, rest = eval_pol(rest, c)
    return ((a and b) if t == "and" else (a or b)), rest


STR2POL = {}         # filter expression handed to the option -> the polish form it was rendered from


def code_of(f):
    typ = 0 if isinstance(f, http.HTTPFlow) else 1 if isinstance(f, tcp.TCPFlow) else 2 if isinstance(f, udp.UDPFlow) else 3
    resp = 1 if getattr(f, "response", None) else 0
    ws = 1 if getattr(f, "websocket", None) is not None else 0
    post = 1 if typ == 0 and f.request.method == "POST" else 0
    s404 = 1 if typ == 0 and f.response and f.response.status_code == 404 else 0
    return (typ + 4 * resp + 8 * (1 if f.error else 0) + 16 * ws + 32 * (1 if f.marked else 0)
            + 64 * (1 if f.is_replay is not None else 0) + 128 * post + 256 * s404 + 512 * int(f.comment or "0"))


def make(t):
    if t == "http": f = tflow.tflow()
    elif t == "tcp": f = tflow.ttcpflow()
    elif t == "udp": f = tflow.tudpflow()
    else: f = tflow.tdnsflow()
    f.comment = "0"
    return f


def apply_edit(f, what):
    if what == "resp":
        if isinstance(f, http.HTTPFlow): f.response = tflow.tresp()
        elif isinstance(f, dns.DNSFlow): f.response = tflow.tdnsresp()
    elif what == "err": f.error = mflow.Error("boom", 946681207)
    elif what == "noerr": f.error = None
    elif what == "ws":
        if isinstance(f, http.HTTPFlow): f.websocket = websocket.WebSocketData()
    elif what == "mark": f.marked = "" if f.marked else ":x:"
    elif what == "replay": f.is_replay = None if f.is_replay else "request"
    elif what == "post":
        if isinstance(f, http.HTTPFlow): f.request.method = "GET" if f.request.method == "POST" else "POST"
    elif what == "s404":
        if isinstance(f, http.HTTPFlow) and f.response: f.response.status_code = 404 if f.response.status_code == 200 else 200
    elif what == "ver":
        if hasattr(f, "messages"): f.messages.append(type(f.messages[0])(True, b"more", 946681209.0) if f.messages else tcp.TCPMessage(True, b"m"))
    f.comment = str(int(f.comment) + 1)


POOL = _pool()


class Check(PropertyCheck):
    prop = "C39"
    design_ref = "§5 C39"
    level_text = ("Lean theorems about the transcribed Save addon (every hook of every flow type, save_flow, rotation, done, "
                  "configure with its error branches and the option roll-back) for ALL environments (filter matcher, "
                  "strftime, open failures), ALL states and ALL event histories: completion_appends_exactly_one_if_match, "
                  "nonmatching_never_written (step + whole-history form), started_uncompleted_written_once_at_stop "
                  "(start hook, then any history without a completion of that flow or a stop, then stop), "
                  "no_record_before_completion_except_stop, append_mode_keeps_prefix, lifecycle_written_exactly_once (start hook, "
                  "ANY interleaving without that flow's completion/stop/exit incl. filter and file changes and rotations, "
                  "completion hook: over the whole history exactly one record of the flow iff it matches at completion), "
                  "completion_record_goes_to_formatted_path + stream_file_handle_is_current_path + completion_file_reachable "
                  "(after any history the record is appended to the file named by the strftime pattern at the time of the "
                  "hook, no other file changes; the file system handle always equals the addon's current path), reachable-state forms "
                  "without the invariant hypothesis (completion_appends_exactly_one_reachable, no_record_before_completion_reachable, "
                  "lifecycle_written_exactly_once_reachable, started_uncompleted_written_once_reachable), plus the reachable-state "
                  "invariants (stream open <-> path set, writer filter = current filter, no duplicate open flows, "
                  "open flows only while streaming). The model is tied to the real Save/FilteredFlowWriter by replaying "
                  "identical histories and comparing, after every event, exception/exit status, stream open, the open-flow "
                  "set and the records appended to / truncated from every file (parsed back with FlowReader).")
    level_note = ("Oracle audit: no Skip; lenient/abstaining branches, each with a doctored near-miss in known_selftest(): "
                  "(a) sys.exit - excused only when the strftime target of that moment cannot be opened and nothing is written by "
                  "or after it; (b) a stop that changes the filter in the same update - old or new filter accepted (for every "
                  "other stop old = new); (c) events after the `done` hook are not judged (the done event itself is). Expected "
                  "matches come from the harness's own evaluator of the filter it configured on the content it gave each flow "
                  "(flowfilter.match only cross-checked); update outcomes are checked against the request (bad filter / "
                  "unopenable file must raise, option set/unset as requested, unchanged after a failure). No implementation "
                  "state is copied into the model (it receives the same events and the harness-chosen flow contents). "
                  "Transcribed this round: flowfilter.match for the 14 atoms and !,&,| (Model/C39_Flt.lean, Flt.eval: the driver's matcher "
                  "is now a model definition with theorems flt_combinators, flt_class_atoms, lifecycle_written_exactly_once_flt) and "
                  "save._mode/_path (specMode/specPath, spec_plus_prefix, spec_no_prefix; tied by the `spec` case kind; "
                  "os.path.expanduser not modelled: no spec starts with '~'). Still parameters: strftime and Path.open. "
                  "flowfilter.match, strftime and Path.open are environment parameters of the theorems; the driver "
                  "instantiates them with a 14-atom filter AST (~all ~http ~tcp ~udp ~dns ~websocket ~s ~e ~marked ~q ~replay "
                  "'~m POST' '~c 200' '~c 404' with ! & |), three strftime patterns over an hour/minute clock (r%M, d%H/x%M with "
                  "directory creation, h%H) and three unopenable paths, which the "
                  "correspondence run also validates. Iteration order of the active_flows set is abstracted (batches "
                  "compared sorted). The `save.file` command (unfiltered FlowWriter) is not part of the statement and not "
                  "modelled. Model follows save.py after the repair of F-C39a (fix commit in /repo). On a simultaneous "
                  "update(save_stream_file=None, save_stream_filter=X) the open flows are flushed through the OLD filter; "
                  "modelled as implemented, the oracle accepts either filter there.")
    technique = "Lean 4 proof (transition system, invariants, induction over histories) + differential model-vs-code correspondence"
    rule = ("per-flow lifecycles of every type (incl. WebSocket upgrade, response+error, double completion, completion "
            "without start) interleaved for <=5 flows, with option updates (append/overwrite, 6 path patterns incl. three rotating ones "
            "and unopenable, filters over 9 atoms with !,&,|, invalid filter, stop, simultaneous changes), clock ticks and "
            "`done` at any point, continuing after a stop; ~10% raw random hook soups. distinct = distinct history; "
            "non-trivial = at least one record written.")
    budget = {"quick": 2000, "thorough": 60000}
    time_budget = {"quick": 35, "thorough": 560}
    fingerprints = ["mitmproxy.addons.save:Save.configure", "mitmproxy.addons.save:Save.maybe_rotate_to_new_file",
                    "mitmproxy.addons.save:Save.save_flow", "mitmproxy.addons.save:Save.done",
                    "mitmproxy.addons.save:Save.tcp_start", "mitmproxy.addons.save:Save.tcp_end", "mitmproxy.addons.save:Save.tcp_error",
                    "mitmproxy.addons.save:Save.udp_start", "mitmproxy.addons.save:Save.udp_end", "mitmproxy.addons.save:Save.udp_error",
                    "mitmproxy.addons.save:Save.websocket_end", "mitmproxy.addons.save:Save.request", "mitmproxy.addons.save:Save.response",
                    "mitmproxy.addons.save:Save.error", "mitmproxy.addons.save:Save.dns_request", "mitmproxy.addons.save:Save.dns_response",
                    "mitmproxy.addons.save:Save.dns_error", "mitmproxy.addons.save:_path", "mitmproxy.addons.save:_mode",
                    "mitmproxy.io.io:FilteredFlowWriter.add", "mitmproxy.io.io:FilteredFlowWriter.__init__",
                    "mitmproxy.optmanager:OptManager.rollback", "mitmproxy.optmanager:OptManager.update_known",
                    "mitmproxy.flowfilter:FErr.__call__", "mitmproxy.flowfilter:FMarked.__call__", "mitmproxy.flowfilter:FHTTP.__call__",
                    "mitmproxy.flowfilter:FWebSocket.__call__", "mitmproxy.flowfilter:FTCP.__call__", "mitmproxy.flowfilter:FUDP.__call__",
                    "mitmproxy.flowfilter:FDNS.__call__", "mitmproxy.flowfilter:FReq.__call__", "mitmproxy.flowfilter:FResp.__call__",
                    "mitmproxy.flowfilter:FAll.__call__", "mitmproxy.flowfilter:FReplay.__call__", "mitmproxy.flowfilter:FMethod.__call__",
                    "mitmproxy.flowfilter:FCode.__call__", "mitmproxy.flowfilter:FNot.__call__", "mitmproxy.flowfilter:FAnd.__call__",
                    "mitmproxy.flowfilter:FOr.__call__", "mitmproxy.flowfilter:only"]
    trusted_base = ["flowfilter.match on the 9 atoms used (validated by the run, not proved)",
                    "tnetstring dump/FlowReader round trip (C36) to read the records back",
                    "the OS file semantics of 'wb'/'ab' opens as modelled by FS (validated by the run)"]
    parallel = True
    _cache = (None, None)

    # ------------------------------------------------------------------ generation
    def setup(self, tier):
        # forked workers pay a few seconds of copy-on-write warm-up each; only worth it for the long tier
        self.parallel = tier == "thorough"
        for pol in POOL: _parse(flt_str(pol)[0])
        try: _parse("~~")
        except ValueError: pass
        # the parsed pyparsing grammars are millions of long-lived objects: keep the cyclic GC of the forked workers from
        # traversing (and thereby copy-on-write duplicating) them on every full collection
        import gc
        gc.collect(); gc.freeze()

        self.known_selftest()

    def known_selftest(self):
        """doctored observations just outside each excused class must be rejected (independent of the tree under test)"""
        def meta(kind, **kw):
            m = {"kind": kind, "opt_file": True, "opt_file_after": True, "opt_filter": False, "append": False, "codes": [0, 1],
                 "matches": {"old": [[0, 0], [1, 1]], "new": [[0, 0], [1, 1]]}, "target_unopenable": False, "req": ["_", "_"]}
            m.update(kw); return m
        def st(raised=0, dead=0, stream=1, act=(), ch=()): return [raised, dead, stream, list(act), [list(c) for c in ch]]
        case = {"types": ["http", "tcp"], "events": []}
        tests = [
            # exit excused only if the target cannot be opened
            ("exit", [st(dead=1)], [meta("hook", hook="response", flow=0, code=0, ws=False)], True),
            ("exit-ok", [st(dead=1)], [meta("hook", hook="response", flow=0, code=0, ws=False, target_unopenable=True)], False),
            ("write-after-exit", [st(dead=1, ch=[[0, 0, [[0, 0]]]])], [meta("hook", hook="response", flow=0, code=0, ws=False, target_unopenable=True)], True),
            # stop: only the old or the new filter's selection of the open flows is accepted
            ("stop-third", [st(act=[1]), st(stream=0, ch=[[0, 0, [[0, 0]]]])],
             [meta("hook", hook="tcp_start", flow=1), meta("update", opt_file_after=False, req=["none", "_"], kw=["save_stream_file"])], True),
            ("stop-ok", [st(act=[1]), st(stream=0, ch=[[0, 0, [[1, 1]]]])],
             [meta("hook", hook="tcp_start", flow=1), meta("update", opt_file_after=False, req=["none", "_"], kw=["save_stream_file"])], False),
            ("stop-missing", [st(act=[1]), st(stream=0)], [meta("hook", hook="tcp_start", flow=1), meta("done")], True),
            # nothing is excused AT the done event, only after it
            ("after-done", [st(stream=0), st(ch=[[0, 0, [[0, 0]]]])], [meta("done"), meta("tick")], False),
            ("at-done", [st(stream=0, ch=[[0, 0, [[0, 0]]]])], [meta("done")], True),
            # completion of a non-matching flow must write nothing; websocket response is not a completion
            ("nonmatch", [st(ch=[[0, 0, [[0, 0]]]])], [meta("hook", hook="response", flow=0, code=0, ws=False, matches={"old": [], "new": []})], True),
            ("ws-early", [st(ch=[[0, 0, [[0, 16]]]])], [meta("hook", hook="response", flow=0, code=16, ws=True)], True),
            ("bad-filter-accepted", [st()], [meta("update", req=["_", "bad"], kw=["save_stream_filter"])], True),
        ]
        for name, steps, metas, want_fail in tests:
            got = bool(self.oracle(case, {"steps": steps, "meta": metas, "final": {}}))
            assert got == want_fail, f"C39 oracle self-test {name}: expected {'a failure' if want_fail else 'no failure'}"
        assert eval_pol(["or", "not", "ws", "and", "marked", "c404"], 0 + 4 + 32 + 256)[0] and not eval_pol(["noresp"], 1)[0]

    def _rand_filter(self, rng, depth=0):
        return rng.pick(POOL[:14]) if rng.chance(0.5) else rng.pick(POOL)

    def _rand_update(self, rng):
        r = rng.randint(0, 99)
        file = filt = "_"
        def rfile():
            x = rng.randint(0, 99)
            if x < 12: return "none"
            if x < 20: return ("a" if rng.chance(0.5) else "w") + "3"
            return ("a" if rng.chance(0.45) else "w") + str(rng.pick([0, 0, 1, 2, 2, 4, 4, 5]))
        def rfilt():
            x = rng.randint(0, 99)
            if x < 15: return "unset"
            if x < 25: return "bad"
            return ",".join(self._rand_filter(rng))
        if r < 35: file = rfile()
        elif r < 75: filt = rfilt()
        elif r < 95: file, filt = rfile(), rfilt()
        return ["update", file, filt]

    def _lifecycle(self, rng, i, t):
        """events of one flow (type t, index i)"""
        ev = []
        def hook(h): ev.append(["hook", h, i])
        def edit(w): ev.append(["edit", i, w])
        if rng.chance(0.9): hook(START["http" if t == "http" else t])
        if rng.chance(0.3): edit("mark")
        if rng.chance(0.15): edit("replay")
        if t == "http" and rng.chance(0.25): edit("post")
        if t == "http":
            r = rng.randint(0, 99)
            if r < 35:
                edit("resp")
                if rng.chance(0.4): edit("s404")
                hook("response")
            elif r < 50: edit("err"); hook("error")
            elif r < 62: edit("resp"); hook("response"); edit("err"); hook("error")
            elif r < 90:
                edit("resp"); edit("ws"); hook("response")
                for _ in range(rng.randint(0, 2)): edit("ver")
                if rng.chance(0.15): edit("err"); hook("error")
                if rng.chance(0.85): hook("websocket_end")
            # else: never completes
        else:
            for _ in range(rng.randint(0, 2)): edit("ver")
            r = rng.randint(0, 99)
            end, err = HOOKS_OF[t][1], HOOKS_OF[t][2]
            if r < 50:
                if t == "dns": edit("resp")
                hook(end)
            elif r < 75: edit("err"); hook(err)
            elif r < 85: hook(end); hook(end)
            # else: never completes
        return ev

    def _history(self, rng):
        n = rng.randint(1, 5)
        types = [rng.pick(TYPES) for _ in range(n)]
        if rng.chance(0.1):      # raw hook soup
            evs = []
            for _ in range(rng.randint(4, 30)):
                i = rng.randint(0, n - 1); r = rng.randint(0, 99)
                if r < 55: evs.append(["hook", rng.pick(HOOKS_OF[types[i]]), i])
                elif r < 75: evs.append(["edit", i, rng.pick(["resp", "err", "noerr", "ws", "mark", "ver", "replay", "post", "s404"])])
                elif r < 90: evs.append(self._rand_update(rng))
                elif r < 96: evs.append(["tick", rng.randint(0, 15)])
                else: evs.append(["done"])
            return {"types": types, "events": evs}
        lives = [self._lifecycle(rng, i, t) for i, t in enumerate(types)]
        evs = []
        if rng.chance(0.85):
            evs.append(["update", ("a" if rng.chance(0.3) else "w") + str(rng.pick([0, 0, 1, 2, 4, 5])),
                        "_" if rng.chance(0.5) else ",".join(self._rand_filter(rng))])
        while any(lives):
            r = rng.randint(0, 99)
            if r < 72:
                l = rng.pick([x for x in lives if x]); evs.append(l.pop(0))
            elif r < 88: evs.append(self._rand_update(rng))
            elif r < 95: evs.append(["tick", rng.randint(0, 3) if rng.chance(0.5) else rng.randint(0, 15)])
            elif r < 97: evs.append(["done"])
            else:
                i = rng.randint(0, n - 1); evs.append(["hook", rng.pick(HOOKS_OF[types[i]]), i])
        r = rng.randint(0, 99)
        if r < 45: evs.append(["done"])
        elif r < 75: evs.append(["update", "none", "_"])
        elif r < 85: evs.append(["update", "none", ",".join(self._rand_filter(rng))])
        return {"types": types, "events": evs}

    SPECS = ["a", "+a", "++a", "+", "", "a+", "+ a", "sub/+b", "+sub/b", "r%M", "+r%M", "+-", "x+y", "+\u00e4", "\u00e4+"]

    def generate(self, rng, tier):
        # tie of the save._path / save._mode transcription (case kind "spec"; no property clause applies to it)
        for sp in self.SPECS:
            yield {"kind": "spec", "s_hex": sp.encode().hex() or "-"}
        # small scope first: one flow of every type, each completion hook, with/without filter, stop by done/option
        for t in TYPES:
            for mode in ("w0", "a0", "w2"):
                for flt in ("_", "resp", "not,err", t, "marked"):
                    for stop in (["done"], ["update", "none", "_"]):
                        for lc in self._small_lifecycles(t):
                            yield {"types": [t, t], "events": [["update", mode, flt]] + lc + [stop]}
        while True:
            yield self._history(rng)

    @staticmethod
    def _small_lifecycles(t):
        s, e, x = HOOKS_OF[t][0], HOOKS_OF[t][1], HOOKS_OF[t][2]
        yield [["hook", s, 0], ["edit", 0, "resp"], ["hook", e, 0], ["hook", s, 1]]
        yield [["hook", s, 0], ["hook", s, 1], ["edit", 1, "err"], ["hook", x, 1], ["edit", 0, "mark"]]
        yield [["hook", s, 0], ["hook", s, 0], ["tick", 1], ["hook", e, 0], ["hook", e, 0], ["tick", 2], ["hook", e, 1]]
        if t == "http":
            yield [["hook", s, 0], ["edit", 0, "resp"], ["edit", 0, "ws"], ["hook", e, 0], ["edit", 0, "ver"], ["hook", "websocket_end", 0]]
            yield [["hook", s, 0], ["edit", 0, "resp"], ["edit", 0, "ws"], ["hook", e, 0], ["hook", s, 1]]

    # ------------------------------------------------------------------ real code
    _dir = None

    def _run(self, case):
        # one scratch directory per worker process, reused (creating/removing trees is the expensive part)
        pid = os.getpid()
        if Check._dir is None or Check._dir[0] != pid:
            root = os.path.join(WORK, "c39"); os.makedirs(root, exist_ok=True)
            d = os.path.join(root, "p%d" % pid)
            shutil.rmtree(d, ignore_errors=True)
            os.makedirs(os.path.join(d, "dir")); os.makedirs(os.path.join(d, "r2")); os.makedirs(os.path.join(d, "sub")); os.makedirs(os.path.join(d, "h1"))
            Check._dir = (pid, d)
        d = Check._dir[1]
        for name in FILES:
            try: os.unlink(os.path.join(d, name))
            except FileNotFoundError: pass
        return self._run_in(case, d)

    def _run_in(self, case, d):
        pathid = FILES
        flows = [make(t) for t in case["types"]]
        idx = {f.id: i for i, f in enumerate(flows)}
        save.datetime = _FakeNow; _FakeNow.now = 0; save.Path = _RecPath
        lines = ["reset"] + ["edit %d %d" % (i, code_of(f)) for i, f in enumerate(flows)]
        steps, meta = [], []
        raw = {}            # path name -> bytes seen last
        recs = {}           # path name -> parsed records [(flow index, code)]
        dead = False
        sa = save.Save()
        cur_filter = None   # the save_stream_filter option value (string) after the last successful update
        with taddons.context(sa) as tctx:
            def parse(b):
                return [(idx.get(f.id, 99), code_of(f)) for f in mio.FlowReader(pyio.BytesIO(b)).stream()]

            def scan():
                ch = []
                for name, pid in sorted(pathid.items(), key=lambda kv: kv[1]):
                    p = os.path.join(d, name)
                    b = open(p, "rb").read() if os.path.isfile(p) else b""
                    old = raw.get(name, b"")
                    if (p, "wb") in _OPENS and recs.get(name):      # truncated by an overwrite-mode open
                        add = parse(b); recs[name] = add; raw[name] = b
                        ch.append([pid, 0, sorted(add)]); continue
                    if b == old: continue
                    if b.startswith(old):
                        add = parse(b[len(old):]); kept = len(recs.get(name, []))
                        recs[name] = recs.get(name, []) + add
                    else:
                        add = parse(b); kept = 0; recs[name] = add
                    raw[name] = b
                    ch.append([pid, kept, sorted(add)])
                return ch

            for ev in case["events"]:
                kind = ev[0]
                del _OPENS[:]
                if kind in ("hook", "edit") and not (0 <= ev[-1 if kind == "hook" else 1] < len(flows)): continue
                raised = 0
                m = {"kind": kind, "opt_file": tctx.options.save_stream_file, "opt_filter": tctx.options.save_stream_filter}
                if kind == "hook":
                    f = flows[ev[2]]
                    if ev[1] not in HOOKS_OF[case["types"][ev[2]]]: continue
                    lines.append("hook %s %d" % (ev[1], ev[2]))
                    m.update(hook=ev[1], flow=ev[2], code=code_of(f), ws=getattr(f, "websocket", None) is not None)
                    if not dead:
                        try:
                            with contextlib.redirect_stderr(pyio.StringIO()):
                                getattr(sa, ev[1])(f)
                        except SystemExit:
                            dead = True
                elif kind == "edit":
                    if not dead: apply_edit(flows[ev[1]], ev[2])
                    else: continue
                    lines.append("edit %d %d" % (ev[1], code_of(flows[ev[1]])))
                elif kind == "tick":
                    _FakeNow.now = ev[1]; lines.append("tick %d" % ev[1])
                elif kind == "done":
                    lines.append("done")
                    if not dead: sa.done()
                elif kind == "update":
                    lines.append("update %s %s" % (ev[1], ev[2]))
                    kw = {}
                    if ev[1] != "_":
                        kw["save_stream_file"] = None if ev[1] == "none" else ("+" if ev[1][0] == "a" else "") + os.path.join(d, PATS[int(ev[1][1:])])
                    if ev[2] != "_":
                        kw["save_stream_filter"] = None if ev[2] == "unset" else "~~" if ev[2] == "bad" else flt_str(ev[2].split(","))[0]
                        if ev[2] not in ("unset", "bad"): STR2POL[kw["save_stream_filter"]] = ev[2].split(",")
                    m["req"] = [ev[1], ev[2]]
                    m["kw"] = sorted(kw)
                    if not dead and kw:
                        try:
                            tctx.options.update(**kw)
                        except exceptions.OptionsError:
                            raised = 1
                else:
                    continue
                # what the statement talks about, computed from the real objects, before looking at the files
                m["matches"] = {}
                for nm, flt in (("old", m["opt_filter"]), ("new", tctx.options.save_stream_filter)):
                    # input-derived: our own evaluation of the filter the harness configured, on the content the harness gave the flow
                    m["matches"][nm] = [[i, code_of(f)] for i, f in enumerate(flows)
                                        if (not flt) or eval_pol(STR2POL[flt], code_of(f))[0]]
                    ref = [[i, code_of(f)] for i, f in enumerate(flows) if (not flt) or flowfilter.match(_parse(flt), f)]
                    if ref != m["matches"][nm]: m.setdefault("problems", []).append("flowfilter.match disagrees with the harness evaluator for %r" % flt)
                of = tctx.options.save_stream_file
                m["target_unopenable"] = bool(of) and os.path.isdir(_FakeNow.strftime(of[1:] if of.startswith("+") else of))
                m["opt_file_after"] = tctx.options.save_stream_file
                m["append"] = bool(tctx.options.save_stream_file and tctx.options.save_stream_file.startswith("+"))
                m["append_before"] = bool(m["opt_file"] and m["opt_file"].startswith("+"))
                m["codes"] = [code_of(f) for f in flows]
                ch = scan()
                act = sorted(idx[f.id] for f in sa.active_flows)
                steps.append([raised, 1 if dead else 0, 1 if sa.stream is not None else 0, act, ch])
                m["opt_file"] = bool(m["opt_file"]); m["opt_file_after"] = bool(m["opt_file_after"]); m["opt_filter"] = bool(m["opt_filter"])
                meta.append(m)
            if sa.stream is not None:
                sa.stream.fo.close()
            # taddons.context leaves the master's logging handler installed (bound to a loop that is closed on exit)
            try: tctx.master._legacy_log_events.uninstall()
            except Exception: pass
        final = {pathid[n]: sorted(r) for n, r in recs.items() if r}
        lines.append("dump")
        return {"steps": steps, "meta": meta, "final": final}, lines

    def impl(self, case):
        if case.get("kind") == "spec":
            sp = bytes.fromhex(case["s_hex"]).decode() if case["s_hex"] != "-" else ""
            pth = save._path(sp).encode()
            obs = {"spec": ("a " if save._mode(sp) == "ab" else "w ") + (pth.hex() or "-")}
            Check._cache = (json.dumps(case, sort_keys=True), ["spec " + case["s_hex"]])
            return obs
        try:
            obs, lines = self._run(case)
        except Exception as e:
            import traceback
            obs, lines = {"exc": type(e).__name__ + ": " + str(e)[:200] + " @ " + traceback.format_exc()[-300:]}, None
        Check._cache = (json.dumps(case, sort_keys=True), lines)
        return obs

    # ------------------------------------------------------------------ the property on the real observations
    def oracle(self, case, obs):
        if "spec" in obs: return []          # transcription tie only
        if "exc" in obs: return ["unexpected exception " + obs["exc"]]
        fails = []
        sizes = {}
        was_dead = False
        pending = set()          # flows that started while saving was active and have not completed / been flushed
        for k, (st, m) in enumerate(zip(obs["steps"], obs["meta"])):
            raised, dead, stream, act, ch = st
            added = sorted(tuple(r) for c in ch for r in c[2])
            active_before = m["opt_file"]             # "With save_stream_file set": the option, not addon internals
            active_after = m["opt_file_after"]
            old_m = {tuple(x) for x in m["matches"]["old"]}; new_m = {tuple(x) for x in m["matches"]["new"]}
            fails.extend(m.get("problems", []))
            if dead:
                # ABSTAIN (exit): the statement is silent about sys.exit; excused only when the strftime target of that moment
                # cannot be opened, and nothing may be written by or after it
                if added: fails.append(f"event {k}: records written by/after sys.exit")
                if not was_dead and not m["target_unopenable"]:
                    fails.append(f"event {k}: the addon exited the process although the stream file can be opened")
                was_dead = True
                continue
            if m["kind"] == "update":
                # input-derived expectations about the update itself
                rf, rq = m["req"]
                if rq == "bad" and not raised: fails.append(f"event {k}: unparsable save_stream_filter accepted")
                if rf not in ("_", "none") and rf[1:] == "3" and not raised: fails.append(f"event {k}: unopenable save_stream_file accepted")
                if not raised and rf != "_" and (rf != "none") != active_after:
                    fails.append(f"event {k}: save_stream_file option is {'set' if active_after else 'unset'} after update {rf}")
                if raised and active_after != active_before:
                    fails.append(f"event {k}: failed update changed save_stream_file")
            # append mode ("+" prefix): a file never loses records
            for pid, kept, add in ch:
                if kept < sizes.get(pid, 0) and m["append"]:
                    fails.append(f"event {k}: file {pid} truncated from {sizes.get(pid, 0)} to {kept} records in append mode")
                sizes[pid] = kept + len(add)
            if m["kind"] == "hook" and m["hook"] in COMPLETION and not (m["hook"] in ("response", "error") and m["ws"]):
                f = m["flow"]; rec = (f, m["code"])
                if active_before:
                    # "each completion of a flow matching save_stream_filter appends exactly one record of the flow,
                    #  flows that do not match are never written"
                    want = [rec] if rec in old_m else []
                    if added != want:
                        fails.append(f"event {k}: completion {m['hook']} of flow {f} (matches={rec in old_m}) appended {added}, expected {want}")
                elif added:
                    fails.append(f"event {k}: saving inactive but {added} written")
                pending.discard(f)
            elif m["kind"] == "done" or (m["kind"] == "update" and active_before and not active_after):
                # "flows that started while saving was active but had not completed are written once when saving stops"
                # LENIENT (simultaneous filter change): when the stopping update also changes the filter either the old or the
                # new filter is accepted; for every other stop old == new, so nothing is loosened there
                cand = {(f, m["codes"][f]) for f in pending}
                want_old = sorted(cand & old_m); want_new = sorted(cand & new_m)
                if not active_before: want_old = want_new = []
                if added != want_old and added != want_new:
                    fails.append(f"event {k}: stop wrote {added}, open flows were {sorted(cand)}, matching {want_old}")
                pending.clear()
                if m["kind"] == "done": break        # ABSTAIN (after shutdown): the statement says nothing about events after `done`
            else:
                # "No record is written for a flow before its completion, except when saving stops."
                if added: fails.append(f"event {k} ({m['kind']} {m.get('hook', '')}): wrote {added} although nothing completed and saving did not stop")
                if m["kind"] == "hook" and m["hook"] in STARTS and active_before: pending.add(m["flow"])
        return fails[:4]

    # ------------------------------------------------------------------ model tie
    def model_lines(self, case):
        key = json.dumps(case, sort_keys=True)
        if Check._cache[0] != key: self.impl(case)
        return Check._cache[1]

    def model_obs(self, case, replies):
        if case.get("kind") == "spec": return {"spec": replies[0]}
        n = 1 + len(case["types"])
        return {"steps": replies[n:-1], "final": replies[-1]}

    @staticmethod
    def _recs(l): return ",".join("%d.%d" % (a, b) for a, b in l)

    def impl_view(self, case, obs):
        if "exc" in obs or "spec" in obs: return obs
        steps = []
        for raised, dead, stream, act, ch in obs["steps"]:
            chs = ";".join("%d:%d:%s" % (pid, kept, self._recs(add)) for pid, kept, add in ch) or "-"
            steps.append("%d %d %d %s %s" % (raised, dead, stream, ",".join(map(str, act)) or "-", chs))
        fin = ";".join("%d:%s" % (pid, self._recs(obs["final"][pid])) for pid in sorted(obs["final"], key=int)) or "-"
        return {"steps": steps, "final": fin}

    def classify(self, case, obs):
        if "spec" in obs: return "spec:" + case["s_hex"]
        if "exc" in obs or not obs["final"]: return None
        return json.dumps(case, sort_keys=True)

    def branches(self, case, obs):
        if "spec" in obs: return ["spec:" + obs["spec"][0]]
        if "exc" in obs: return ["exc"]
        out = []
        for (raised, dead, stream, act, ch), m in zip(obs["steps"], obs["meta"]):
            k = m["kind"]
            if k == "hook":
                out.append("hook:" + m["hook"])
                if m["hook"] in COMPLETION: out.append("completion:" + ("written" if ch else "not-written") + (":ws" if m["ws"] else ""))
            elif k == "update":
                out.append("update:" + "+".join(x.replace("save_stream_", "") for x in m["kw"]) + (":raised" if raised else ""))
                if m["opt_file"] and not m["opt_file_after"]: out.append("stop:option" + (":flushed" if ch else ""))
            elif k == "done": out.append("done" + (":flushed" if ch else ""))
            else: out.append(k)
            if dead: out.append("exited")
            for pid, kept, add in ch:
                if kept == 0 and pid in (0, 1, 10, 11, 13): out.append("file:created-or-truncated")
            if len(act) >= 2: out.append("concurrent-open>=2")
        return out

    def neighbours(self, case, rng):
        if case.get("kind") == "spec": return
        evs = case["events"]
        for i in range(len(evs) + 1):
            for extra in (["done"], ["update", "none", "_"], ["update", "w3", "_"], ["update", "_", "bad"], ["tick", 2]):
                c = dict(case); c["events"] = evs[:i] + [extra] + evs[i:]; yield c

    def exhaustive(self, tier):
        for t in TYPES:
            s, e, x = HOOKS_OF[t][:3]
            for bad in (["update", "w3", "_"], ["update", "a3", "resp"], ["update", "_", "bad"], ["update", "w3", "bad"]):
                yield {"types": [t, t], "events": [["update", "w0", "_"], ["hook", s, 0], bad, ["hook", s, 1], ["hook", e, 1], ["done"]]}
