"""C40 — backup, revert, modified and copy behave exactly (mitmproxy/flow.py, http.py, coretypes/serializable.py).

A case is an operation history over real flows of one type: edits of every component (in place and by
assignment), backup, revert, copy (copies get the next handle and can themselves be edited/backed up/copied).
After every operation get_state()/live/modified() of *every* flow is observed; component states are interned to
numbers (canonical rendering), so that the Lean heap model (which does not interpret component values) can be
run on the same history: edits tell the model the new component value, everything else is predicted by it.
"""
import json, os, warnings
from common.check import PropertyCheck

warnings.simplefilter("ignore", DeprecationWarning)

from mitmproxy import flow as mflow, tcp, udp, websocket
from mitmproxy.test import tflow, tutils
from wsproto.frame_protocol import Opcode

COMMON = ["client_conn", "server_conn", "error", "intercepted", "is_replay", "marked", "metadata", "comment",
          "timestamp_created"]          # components 0..2 are restored in place by set_state (driver: ip j = j < 3)
KEYS = {"http": COMMON + ["request", "response", "websocket"], "ws": COMMON + ["request", "response", "websocket"],
        "tcp": COMMON + ["messages"], "udp": COMMON + ["messages"], "dns": COMMON + ["request", "response"]}
TYPES = ["http", "ws", "tcp", "udp", "dns"]
MAXFLOWS = 4


_ALIEN = []


def canon(v):
    if isinstance(v, dict):
        return "{" + ",".join(sorted(canon(k) + ":" + canon(x) for k, x in v.items())) + "}"
    if isinstance(v, list): return "[" + ",".join(canon(x) for x in v) + "]"
    if isinstance(v, tuple): return "(" + ",".join(canon(x) for x in v) + ")"
    if isinstance(v, bytes): return "b" + v.hex()
    if isinstance(v, str): return json.dumps(v)
    if v is None: return "None"
    if isinstance(v, bool): return repr(int(v))      # numbers (incl. bools) by value: the equality Flow.modified() and == use
    if isinstance(v, float) and v.is_integer(): return repr(int(v))
    if isinstance(v, (int, float)): return repr(v)
    _ALIEN.append(type(v).__name__)          # not a state value: a live object leaked into get_state()
    return "?" + type(v).__name__ + repr(v)


# ------------------------------------------------------------------------------------------ edits
def _msgcls(f): return tcp.TCPMessage if isinstance(f, tcp.TCPFlow) else udp.UDPMessage


def e_cc_sni(f, a): f.client_conn.sni = ["address", "a.example", None][a]
def e_cc_alpn(f, a): f.client_conn.alpn = [b"http/1.1", b"h2", None][a]
def e_sc_addr(f, a): f.server_conn.address = [("address", 22), ("x.example", 1), None][a]
def e_sc_sni(f, a): f.server_conn.sni = ["address", "b.example", None][a]
def e_err_set(f, a): f.error = [None, mflow.Error("error", 946681207), mflow.Error("e2", 5.5)][a]
def e_err_msg(f, a):
    if f.error: f.error.msg = ["error", "m1", "e2"][a]
def e_intercept(f, a): f.intercept() if a else f.resume()
def e_replay(f, a): f.is_replay = [None, "request", "response"][a]
def e_marked(f, a): f.marked = ["", ":grapes:", "x"][a]
def e_comment(f, a): f.comment = ["", "c1", "c2"][a]
def e_meta_set(f, a): f.metadata["k%d" % (a % 2)] = [1, "s", [1, 2]][a]
def e_meta_nested(f, a):
    l = f.metadata.setdefault("l", [])
    if not isinstance(l, list) or len(l) > 2: f.metadata["l"] = []
    else: l.append(a)
def e_meta_del(f, a): f.metadata.pop(["k0", "k1", "l"][a], None)
def e_meta_replace(f, a): f.metadata = [{}, {"a": 1}, {"l": [1]}][a]
def e_ts_created(f, a): f.timestamp_created = [946681200, 1.5, 946681200.0][a]
def e_req_path(f, a): f.request.path = ["/path", "/x", "/y"][a]
def e_req_method(f, a): f.request.method = ["GET", "POST", "PUT"][a]
def e_req_content(f, a): f.request.content = [b"content", b"", b"zzz"][a]
def e_req_header(f, a):
    if a == 2: f.request.headers.pop("x-h", None)
    else: f.request.headers["x-h"] = str(a)
def e_req_replace(f, a): f.request = tutils.treq(path=[b"/path", b"/x", b"/r"][a])
def e_resp_status(f, a):
    if f.response: f.response.status_code = [200, 404, 500][a]
def e_resp_content(f, a):
    if f.response: f.response.content = [b"message", b"", b"other"][a]
def e_resp_set(f, a): f.response = [None, tutils.tresp(), tutils.tresp(status_code=404)][a]
def e_ws_append(f, a):
    if f.websocket and len(f.websocket.messages) < 5:
        f.websocket.messages.append(websocket.WebSocketMessage(Opcode.TEXT, bool(a % 2), b"m%d" % a, 946681209))
def e_ws_edit(f, a):
    if f.websocket and f.websocket.messages: f.websocket.messages[0].content = [b"hello binary", b"e1", b""][a]
def e_ws_pop(f, a):
    if f.websocket and f.websocket.messages: f.websocket.messages.pop()
def e_ws_drop(f, a):
    if f.websocket and f.websocket.messages: f.websocket.messages[-1].dropped = bool(a % 2)
def e_ws_set(f, a): f.websocket = tflow.twebsocket(messages=bool(a))
def e_ws_close(f, a):
    if f.websocket: f.websocket.close_code = [1000, 1001, None][a]
def e_msg_append(f, a):
    if len(f.messages) < 5: f.messages.append(_msgcls(f)(bool(a % 2), b"x%d" % a, 946681204.9))
def e_msg_edit(f, a):
    if f.messages: f.messages[0].content = [b"hello", b"e1", b""][a]
def e_msg_pop(f, a):
    if f.messages: f.messages.pop()
def e_msg_replace(f, a): f.messages = [[], [_msgcls(f)(True, b"hello", 946681204.2)], [_msgcls(f)(False, b"q", 1.0)]][a]
def e_dreq_id(f, a): f.request.id = [42, 5, 6][a]
def e_dreq_q(f, a):
    if f.request.questions: f.request.questions[0].name = ["dns.google", "a.example", "b.example"][a]
def e_dreq_replace(f, a): f.request = tutils.tdnsreq(id=[42, 7, 8][a])
def e_dresp_set(f, a): f.response = [None, tutils.tdnsresp(), tutils.tdnsresp(id=9)][a]
def e_dresp_code(f, a):
    if f.response: f.response.response_code = [0, 3, 2][a]


# --- empty-but-present containers and in-place edits of exactly those objects (seed c40-5 and its class)
from mitmproxy import http as _http, certs as _certs, dns as _dns
_CERT = None
def _cert():
    global _CERT
    if _CERT is None: _CERT = _certs.Cert.from_pem(open(os.path.join(os.path.dirname(_http.__file__), "..", "test", "mitmproxy", "net", "data", "text_cert"), "rb").read())
    return _CERT
def _trl(a): return [None, _http.Headers(), _http.Headers([(b"tr", b"1")])][a]
def e_req_trailers(f, a): f.request.trailers = _trl(a)
def e_req_trailer_set(f, a):
    if f.request.trailers is not None: f.request.trailers["t%d" % (a % 2)] = "v%d" % a
def e_resp_trailers(f, a):
    if f.response: f.response.trailers = _trl(a)
def e_resp_trailer_set(f, a):
    if f.response and f.response.trailers is not None: f.response.trailers["t%d" % (a % 2)] = "v%d" % a
def e_req_headers_new(f, a): f.request.headers = [_http.Headers(), _http.Headers([(b"only", b"1")]), _http.Headers()][a]
def e_resp_headers_new(f, a):
    if f.response: f.response.headers = [_http.Headers(), _http.Headers([(b"only", b"1")]), _http.Headers()][a]
def e_resp_header(f, a):
    if f.response:
        if a == 2: f.response.headers.pop("x-r", None)
        else: f.response.headers["x-r"] = str(a)
def e_req_ce(f, a):
    if a == 2: f.request.headers.pop("content-encoding", None)
    else: f.request.headers["content-encoding"] = ["gzip", "bogus"][a]
def e_resp_ce(f, a):
    if f.response:
        if a == 2: f.response.headers.pop("content-encoding", None)
        else: f.response.headers["Content-Encoding"] = ["deflate", "bogus"][a]
def e_req_te(f, a):
    if a == 2: f.request.headers.pop("transfer-encoding", None)
    else: f.request.headers["Transfer-Encoding"] = ["chunked", "identity"][a]
def _content_typed(msg, v, prefix):
    """`.content = v` described to the model: the value and what encoding.encode answers for the message's Content-Encoding"""
    if v is None or msg is None: return prefix + " contentce ~ verr"
    from mitmproxy.net import encoding as _enc
    try: r = "ok:" + _hx(_enc.encode(v, msg.headers.get("content-encoding") or "identity"))
    except ValueError: r = "verr"
    return "%s contentce %s %s" % (prefix, _hx(v), r)
def e_req_content_none(f, a): f.request.content = [None, b"", None][a]
def e_resp_content_none(f, a):
    if f.response: f.response.content = [None, b"", None][a]
def e_cc_offers(f, a):
    l = f.client_conn.alpn_offers
    if a == 2 or len(l) > 2: del l[:]
    else: l.append([b"h2", b"http/1.1"][a])
def e_cc_ciphers(f, a):
    l = f.client_conn.cipher_list
    if a == 2 or len(l) > 2: del l[:]
    else: l.append(["C1", "C2"][a])
def e_sc_certs(f, a):
    l = f.server_conn.certificate_list
    if a == 2 or len(l) > 1: del l[:]
    else: l.append(_cert())
def e_cc_certs(f, a):
    l = f.client_conn.certificate_list
    if a == 2 or len(l) > 1: del l[:]
    else: l.append(_cert())
def e_dreq_q_clear(f, a): f.request.questions = []
def e_dreq_q_append(f, a):
    if len(f.request.questions) < 3: f.request.questions.append(_dns.Question(["n0.example", "n1.example", "n2.example"][a], 1, 1))
def e_msg_clear(f, a): del f.messages[:]


# --- scalar fields in non-canonical but accepted spellings (seed c40-6 and its class): values for which a constructor /
#     from_state normalisation could differ from what the setter stored.  SPELL[name] = (component, target, values)
from mitmproxy.utils import strutils as _su
def _ab(v, enc="utf-8"): return _su.always_bytes(v, enc, "surrogateescape") if enc == "utf-8" else _su.always_bytes(v, enc)
def _auth(v):
    if isinstance(v, str):
        try: return v.encode("idna", "strict")
        except UnicodeError: return v.encode("utf8", "surrogateescape")
    return v
SPELL = {
    # request attributes: (values, what the setter stores)
    "req_version2": ("request", "req:http_version", ["HTTP/1.1", "http/2.0", b"h2"], _ab),
    "req_version3": ("request", "req:http_version", ["", "Http/1.0", b"HTTP/3"], _ab),
    "req_method2": ("request", "req:method", ["get", b"PoSt", "G\udcffT"], _ab),
    "req_method3": ("request", "req:method", ["", "GET", b"g\xffet"], _ab),
    "req_scheme2": ("request", "req:scheme", ["http", "HTTPS", b"Http"], _ab),
    "req_scheme3": ("request", "req:scheme", ["", b"", "h\udcfftp"], _ab),
    "req_path2": ("request", "req:path", ["/path", "/\u00e4", b"/\xff"], _ab),
    "req_path3": ("request", "req:path", ["", "/\udcff", b"*"], _ab),
    "req_authority2": ("request", "req:authority", ["", "Example.COM:80", b"X:1"], _auth),
    "req_port2": ("request", "req:port", [22, True, 65535], lambda v: v),
    "req_port3": ("request", "req:port", [0, False, 1], lambda v: v),
    "req_host2": ("request", "req:host", ["address", "EXAMPLE.com", b"Host.Example"], lambda v: _su.always_str(v, "idna", "strict")),
    "resp_version2": ("response", "resp:http_version", ["HTTP/1.1", "http/2.0", b"h2"], _ab),
    "resp_version3": ("response", "resp:http_version", ["", "Http/1.0", b"HTTP/3"], _ab),
    "resp_status2": ("response", "resp:status_code", [200, True, 999], lambda v: v),
    "resp_status3": ("response", "resp:status_code", [0, False, 100], lambda v: v),
    "resp_reason2": ("response", "resp:reason", ["OK", "ok", b"\xe9t"], lambda v: _ab(v, "ISO-8859-1")),
    "resp_reason3": ("response", "resp:reason", ["", b"", "Not Found"], lambda v: _ab(v, "ISO-8859-1")),
    # flow-level scalars
    "marked2": ("marked", "flow:marked", ["", ":X:", "\udcff"], lambda v: v),
    "comment2": ("comment", "flow:comment", ["", "\udcff\n", "C1"], lambda v: v),
    "ts_created2": ("timestamp_created", "flow:timestamp_created", [946681200, True, 0], lambda v: v),
    "err_msg2": ("error", "err:msg", ["", "ERROR", "e\udcff"], lambda v: v),
    "cc_sni2": ("client_conn", "cc:sni", ["", "ADDRESS", "sn\u00ef"], lambda v: v),
    "sc_sni2": ("server_conn", "sc:sni", ["", "Address", None], lambda v: v),
    "sc_addr2": ("server_conn", "sc:address", [("ADDRESS", 22), ("address", True), ("", 0)], lambda v: v),
    # websocket / tcp / udp / dns
    "ws_reason2": ("websocket", "ws:close_reason", ["", "Close Reason", "R\udcff"], lambda v: v),
    "ws_code2": ("websocket", "ws:close_code", [True, 0, 1000], lambda v: v),
    "msg_edit2": ("messages", "msg:content", [b"", b"\xff", b"HELLO"], lambda v: v),
    "msg_fc2": ("messages", "msg:from_client", [True, 1, 0], lambda v: v),
    "dreq_q2": ("request", "dns:qname", ["DNS.Google", "dns.google.", ""], lambda v: v),
    "dreq_id2": ("request", "dns:id", [True, 0, 65535], lambda v: v),
    "dresp_id2": ("response", "dnsr:id", [True, 0, 65535], lambda v: v),
}
SPELL = {k: (c, t, [eval(repr(x)) if False else x for x in vals], st) for k, (c, t, vals, st) in SPELL.items()}


def _spell_apply(name):
    comp, target, vals, _ = SPELL[name]
    kind, attr = target.split(":")
    def fn(f, a):
        v = vals[a]
        if kind == "req":
            if attr in ("host", "port") and (f.request.data.authority or "Host" in f.request.headers): return   # side effects then
            setattr(f.request, attr, v)
        elif kind == "resp":
            if f.response: setattr(f.response, attr, v)
        elif kind == "flow": setattr(f, attr, v)
        elif kind == "err":
            if f.error: f.error.msg = v
        elif kind == "cc": setattr(f.client_conn, attr, v)
        elif kind == "sc": setattr(f.server_conn, attr, v)
        elif kind == "ws":
            if f.websocket: setattr(f.websocket, attr, v)
        elif kind == "msg":
            if f.messages: setattr(f.messages[0], attr, v)
        elif kind == "dns":
            if attr == "qname":
                if f.request.questions: f.request.questions[0].name = v
            else: setattr(f.request, attr, v)
        elif kind == "dnsr":
            if f.response: setattr(f.response, attr, v)
    return fn


def _spell_typed(name, f, a, ival):
    comp, target, vals, stored = SPELL[name]
    kind, attr = target.split(":")
    v = stored(vals[a])
    if kind == "req":
        if attr in ("host", "port") and (f.request.data.authority or "Host" in f.request.headers): return None
        return "req atom %d %d" % (REQ_ATOM[attr], ival(v))
    if kind == "resp": return "resp atom %d %d" % (RESP_ATOM[attr], ival(v))
    if kind == "flow": return "atom %d %d" % (COMMON.index(attr), ival(v))
    if kind == "err": return "errmsg %d" % ival(v)
    if kind == "cc": return "conn 0 %d %d" % (list(f.client_conn.get_state()).index(attr), ival(v))
    if kind == "sc": return "conn 1 %d %d" % (list(f.server_conn.get_state()).index(attr), ival(v))
    if kind == "ws": return "ws atom %d %d" % (["closed_by_client", "close_code", "close_reason", "timestamp_end"].index(attr), ival(v))
    if kind == "msg":
        if attr == "content": return "msgs setc 0 " + _hx(v)
        return "msgs setfc 0 %d" % (1 if v else 0)
    if kind == "dns":
        if attr == "qname": return "dreq qname 0 %d" % ival(v)
        return "dreq atom %d %d" % (DNS_ATOM[attr], ival(v))
    if kind == "dnsr": return "dresp atom %d %d" % (DNS_ATOM[attr], ival(v))
    raise KeyError(name)


def _spell_table(kinds):
    return {n: (SPELL[n][0], "mut" if SPELL[n][1].split(":")[0] not in ("flow",) else "reb", _spell_apply(n))
            for n in SPELL if SPELL[n][1].split(":")[0] in kinds}


# name -> (component key, model op, function)
EDITS_COMMON = {
    "cc_offers": ("client_conn", "mut", e_cc_offers), "cc_ciphers": ("client_conn", "mut", e_cc_ciphers),
    "cc_certs": ("client_conn", "mut", e_cc_certs), "sc_certs": ("server_conn", "mut", e_sc_certs),
    "cc_sni": ("client_conn", "mut", e_cc_sni), "cc_alpn": ("client_conn", "mut", e_cc_alpn),
    "sc_addr": ("server_conn", "mut", e_sc_addr), "sc_sni": ("server_conn", "mut", e_sc_sni),
    "err_set": ("error", "reb", e_err_set), "err_msg": ("error", "mut", e_err_msg),
    "intercept": ("intercepted", "reb", e_intercept), "replay": ("is_replay", "reb", e_replay),
    "marked": ("marked", "reb", e_marked), "comment": ("comment", "reb", e_comment),
    "meta_set": ("metadata", "mut", e_meta_set), "meta_nested": ("metadata", "mut", e_meta_nested),
    "meta_del": ("metadata", "mut", e_meta_del), "meta_replace": ("metadata", "reb", e_meta_replace),
    "ts_created": ("timestamp_created", "reb", e_ts_created),
}
EDITS_HTTP = {
    "req_ce": ("request", "mut", e_req_ce), "resp_ce": ("response", "mut", e_resp_ce), "req_te": ("request", "mut", e_req_te),
    "req_trailers": ("request", "mut", e_req_trailers), "req_trailer_set": ("request", "mut", e_req_trailer_set),
    "resp_trailers": ("response", "mut", e_resp_trailers), "resp_trailer_set": ("response", "mut", e_resp_trailer_set),
    "req_headers_new": ("request", "mut", e_req_headers_new), "resp_headers_new": ("response", "mut", e_resp_headers_new),
    "resp_header": ("response", "mut", e_resp_header),
    "req_content_none": ("request", "mut", e_req_content_none), "resp_content_none": ("response", "mut", e_resp_content_none),
    "req_path": ("request", "mut", e_req_path), "req_method": ("request", "mut", e_req_method),
    "req_content": ("request", "mut", e_req_content), "req_header": ("request", "mut", e_req_header),
    "req_replace": ("request", "reb", e_req_replace), "resp_status": ("response", "mut", e_resp_status),
    "resp_content": ("response", "mut", e_resp_content), "resp_set": ("response", "reb", e_resp_set),
}
EDITS_WS = {
    "ws_append": ("websocket", "mut", e_ws_append), "ws_edit": ("websocket", "mut", e_ws_edit),
    "ws_pop": ("websocket", "mut", e_ws_pop), "ws_drop": ("websocket", "mut", e_ws_drop),
    "ws_set": ("websocket", "reb", e_ws_set), "ws_close": ("websocket", "mut", e_ws_close),
}
EDITS_MSG = {
    "msg_clear": ("messages", "mut", e_msg_clear),
    "msg_append": ("messages", "mut", e_msg_append), "msg_edit": ("messages", "mut", e_msg_edit),
    "msg_pop": ("messages", "mut", e_msg_pop), "msg_replace": ("messages", "reb", e_msg_replace),
}
EDITS_DNS = {
    "dreq_q_clear": ("request", "mut", e_dreq_q_clear), "dreq_q_append": ("request", "mut", e_dreq_q_append),
    "dreq_id": ("request", "mut", e_dreq_id), "dreq_q": ("request", "mut", e_dreq_q),
    "dreq_replace": ("request", "reb", e_dreq_replace), "dresp_set": ("response", "reb", e_dresp_set),
    "dresp_code": ("response", "mut", e_dresp_code),
}
EDITS_COMMON.update(_spell_table(("flow", "err", "cc", "sc")))
EDITS_HTTP.update(_spell_table(("req", "resp")))
EDITS_WS.update(_spell_table(("ws",)))
EDITS_MSG.update(_spell_table(("msg",)))
EDITS_DNS.update(_spell_table(("dns", "dnsr")))
EDITS = {"http": {**EDITS_COMMON, **EDITS_HTTP}, "ws": {**EDITS_COMMON, **EDITS_HTTP, **EDITS_WS},
         "tcp": {**EDITS_COMMON, **EDITS_MSG}, "udp": {**EDITS_COMMON, **EDITS_MSG},
         "dns": {**EDITS_COMMON, **EDITS_DNS}}
SPECIFIC = {"http": EDITS_HTTP, "ws": {**EDITS_HTTP, **EDITS_WS}, "tcp": EDITS_MSG, "udp": EDITS_MSG, "dns": EDITS_DNS}
CONTROL = ("backup", "revert", "copy")
# (emptying edit, arg) -> in-place edits of the emptied object
_HTTP_EMPTY = [(("req_trailers", 1), [("req_trailer_set", 0), ("req_trailer_set", 1)]),
               (("resp_trailers", 1), [("resp_trailer_set", 0), ("resp_trailer_set", 1)]),
               (("req_headers_new", 0), [("req_header", 0), ("req_header", 1), ("req_content", 2)]),
               (("resp_headers_new", 0), [("resp_header", 0), ("resp_header", 1), ("resp_content", 2)]),
               (("req_content_none", 1), [("req_header", 1)]), (("req_content_none", 0), [("req_header", 0)]),
               (("resp_content_none", 1), [("resp_header", 1)]), (("resp_content_none", 0), [("resp_header", 0)])]
EMPTY_THEN = {
    "http": _HTTP_EMPTY,
    "ws": _HTTP_EMPTY + [(("ws_set", 0), [("ws_append", 0), ("ws_append", 1)])],
    "tcp": [(("msg_replace", 0), [("msg_append", 0), ("msg_append", 1)]), (("msg_clear", 0), [("msg_append", 0), ("msg_append", 1)])],
    "udp": [(("msg_replace", 0), [("msg_append", 0), ("msg_append", 1)]), (("msg_clear", 0), [("msg_append", 0), ("msg_append", 1)])],
    "dns": [(("dreq_q_clear", 0), [("dreq_q_append", 0), ("dreq_q_append", 1)])],
    "*": [(("meta_replace", 0), [("meta_set", 0), ("meta_set", 1), ("meta_nested", 0)]),
          (("cc_offers", 2), [("cc_offers", 0), ("cc_offers", 1)]), (("cc_ciphers", 2), [("cc_ciphers", 0), ("cc_ciphers", 1)]),
          (("cc_certs", 2), [("cc_certs", 0)]), (("sc_certs", 2), [("sc_certs", 0)])],
}


# ------------------------------------------------------------------------------------------ typed layer (HTTP flows)
# The Lean model Model/C40_Http.lean predicts the component state after an edit from the edit itself; here the edit is
# described to it (never its result) and the real get_state() is rendered in the model's component syntax.
MSG_SKIP = ("headers", "content", "trailers")
REQ_ATOM = {k: i for i, k in enumerate(["http_version", "timestamp_start", "timestamp_end", "host", "port", "method", "scheme", "authority", "path"])}
RESP_ATOM = {k: i for i, k in enumerate(["http_version", "timestamp_start", "timestamp_end", "status_code", "reason"])}


def _hx(b): return bytes(b).hex() if b else "-"
def t_fields(h):
    if not isinstance(h, (tuple, list)): return "X" + type(h).__name__          # a live object instead of a state value
    return ",".join(_hx(k) + "=" + _hx(v) for k, v in h)
def t_msg(st, ival):
    return (".".join(str(ival(v)) for k, v in st.items() if k not in MSG_SKIP) + "/" + t_fields(st["headers"]) + "/" +
            ("~" if st["content"] is None else _hx(st["content"])) + "/" + ("~" if st["trailers"] is None else "!" + t_fields(st["trailers"])))
def t_wsmsg(m, ival):
    typ, fc, c, ts, d, i = m
    return "%d.%d.%s.%d.%d.%d" % (ival(typ), fc, _hx(c), ival(ts), d, i)
def t_ws(v, ival):
    if v is None: return "W~"
    return ("W" + ".".join(str(ival(v[k])) for k in ("closed_by_client", "close_code", "close_reason", "timestamp_end")) + "/" +
            ";".join(t_wsmsg(m, ival) for m in v["messages"]))
def t_meta(v, ival): return "M" + ".".join("%d=%d" % (ival(k), ival(x)) for k, x in v.items())
def t_tmsgs(v, ival): return "T" + ";".join("%d.%s.%d" % (fc, _hx(c), ival(ts)) for fc, c, ts in v)
def t_dns(v, ival):
    if v is None: return "D~"
    return ("D" + ".".join(str(ival(x)) for k, x in v.items() if k != "questions") + "/" +
            ";".join(".".join(str(ival(q[k])) for k in ("name", "type", "class_")) for q in v["questions"]))
DNS_ATOM = {k: i for i, k in enumerate(["id", "query", "op_code", "authoritative_answer", "truncation", "recursion_desired",
                                        "recursion_available", "reserved", "response_code", "answers", "authorities", "additionals", "timestamp"])}


def t_comp(key, v, ival, ftype="http"):
    if key == "messages": return t_tmsgs(v, ival)
    if ftype == "dns" and key in ("request", "response"): return t_dns(v, ival)
    if key in ("client_conn", "server_conn"): return "C" + ".".join(str(ival(x)) for x in v.values())
    if key == "error": return "E~" if v is None else "E%d.%d" % (ival(v["msg"]), ival(v["timestamp"]))
    if key == "intercepted": return "B%d" % (1 if v else 0)
    if key == "metadata": return t_meta(v, ival)
    if key == "request": return "Q" + t_msg(v, ival)
    if key == "response": return "R~" if v is None else "R" + t_msg(v, ival)
    if key == "websocket": return t_ws(v, ival)
    return "A%d" % ival(v)


def typed_edit(name, f, a, ival):
    """the typed description of edit `name` with argument a (computed BEFORE the edit runs); None = a no-op here"""
    if name in SPELL: return _spell_typed(name, f, a, ival)
    cc, sc = list(f.client_conn.get_state()), list(f.server_conn.get_state())
    if name == "cc_sni": return "conn 0 %d %d" % (cc.index("sni"), ival(["address", "a.example", None][a]))
    if name == "cc_alpn": return "conn 0 %d %d" % (cc.index("alpn"), ival([b"http/1.1", b"h2", None][a]))
    if name == "sc_addr": return "conn 1 %d %d" % (sc.index("address"), ival([("address", 22), ("x.example", 1), None][a]))
    if name == "sc_sni": return "conn 1 %d %d" % (sc.index("sni"), ival(["address", "b.example", None][a]))
    if name == "err_set": return "errset " + ["~", "%d.%d" % (ival("error"), ival(946681207)), "%d.%d" % (ival("e2"), ival(5.5))][a]
    if name == "err_msg": return "errmsg %d" % ival(["error", "m1", "e2"][a])
    if name == "intercept": return "flag %d" % (1 if a else 0)
    if name == "replay": return "atom 4 %d" % ival([None, "request", "response"][a])
    if name == "marked": return "atom 5 %d" % ival(["", ":grapes:", "x"][a])
    if name == "comment": return "atom 7 %d" % ival(["", "c1", "c2"][a])
    if name == "ts_created": return "atom 8 %d" % ival([946681200, 1.5, 946681200.0][a])
    if name == "meta_set": return "mset %d %d" % (ival("k%d" % (a % 2)), ival([1, "s", [1, 2]][a]))
    if name == "meta_nested":
        l = f.metadata.get("l")
        new = [] if (l is not None and (not isinstance(l, list) or len(l) > 2)) else (list(l or []) + [a])
        return "mset %d %d" % (ival("l"), ival(new))
    if name == "meta_del": return "mdel %d" % ival(["k0", "k1", "l"][a])
    if name == "meta_replace": return "mrep " + t_meta([{}, {"a": 1}, {"l": [1]}][a], ival)
    if name == "req_path": return "req atom %d %d" % (REQ_ATOM["path"], ival([b"/path", b"/x", b"/y"][a]))
    if name == "req_method": return "req atom %d %d" % (REQ_ATOM["method"], ival([b"GET", b"POST", b"PUT"][a]))
    if name == "req_content": return _content_typed(f.request, [b"content", b"", b"zzz"][a], "req")
    if name == "req_ce": return "req hdel " + _hx(b"content-encoding") if a == 2 else "req hset %s %s" % (_hx(b"content-encoding"), _hx([b"gzip", b"bogus"][a]))
    if name == "resp_ce": return "resp hdel " + _hx(b"content-encoding") if a == 2 else "resp hset %s %s" % (_hx(b"Content-Encoding"), _hx([b"deflate", b"bogus"][a]))
    if name == "req_te": return "req hdel " + _hx(b"transfer-encoding") if a == 2 else "req hset %s %s" % (_hx(b"Transfer-Encoding"), _hx([b"chunked", b"identity"][a]))
    if name == "req_header": return "req hdel " + _hx(b"x-h") if a == 2 else "req hset %s %s" % (_hx(b"x-h"), _hx(str(a).encode()))
    if name == "req_replace": return "reqrep Q" + t_msg(tutils.treq(path=[b"/path", b"/x", b"/r"][a]).get_state(), ival)
    if name == "resp_status": return "resp atom %d %d" % (RESP_ATOM["status_code"], ival([200, 404, 500][a]))
    if name == "resp_content": return _content_typed(f.response, [b"message", b"", b"other"][a], "resp")
    if name == "resp_set":
        r = [None, tutils.tresp(), tutils.tresp(status_code=404)][a]
        return "resprep " + ("R~" if r is None else "R" + t_msg(r.get_state(), ival))
    def conn_list(j, conn, key, new): return "conn %d %d %d" % (j, list(conn.get_state()).index(key), ival(new))
    if name in ("cc_offers", "cc_ciphers", "cc_certs", "sc_certs"):
        conn, j = (f.server_conn, 1) if name == "sc_certs" else (f.client_conn, 0)
        key = {"cc_offers": "alpn_offers", "cc_ciphers": "cipher_list", "cc_certs": "certificate_list", "sc_certs": "certificate_list"}[name]
        cur = conn.get_state()[key]                 # the list value before the edit; the new value is described, not observed
        lim = 1 if key == "certificate_list" else 2
        if a == 2 or len(cur) > lim: new = []
        else: new = list(cur) + [{"alpn_offers": [b"h2", b"http/1.1"], "cipher_list": ["C1", "C2"]}.get(key, [_cert().to_pem()] * 2)[a]]
        return conn_list(j, conn, key, new)
    def trl(a): return ["~", "!", "!" + t_fields([(b"tr", b"1")])][a]
    if name == "req_trailers": return "req tset " + trl(a)
    if name == "resp_trailers": return "resp tset " + trl(a)
    if name == "req_trailer_set": return "req thset %s %s" % (_hx(b"t%d" % (a % 2)), _hx(b"v%d" % a))
    if name == "resp_trailer_set": return "resp thset %s %s" % (_hx(b"t%d" % (a % 2)), _hx(b"v%d" % a))
    if name == "req_headers_new": return "req hrep " + ["!", "!" + t_fields([(b"only", b"1")]), "!"][a]
    if name == "resp_headers_new": return "resp hrep " + ["!", "!" + t_fields([(b"only", b"1")]), "!"][a]
    if name == "resp_header": return "resp hdel " + _hx(b"x-r") if a == 2 else "resp hset %s %s" % (_hx(b"x-r"), _hx(str(a).encode()))
    if name == "req_content_none": return _content_typed(f.request, [None, b"", None][a], "req")
    if name == "resp_content_none": return _content_typed(f.response, [None, b"", None][a], "resp")
    if name == "dreq_q_clear": return "dreq qclear"
    if name == "dreq_q_append":
        if not len(f.request.questions) < 3: return None
        return "dreq qappend %d.%d.%d" % (ival(["n0.example", "n1.example", "n2.example"][a]), ival(1), ival(1))
    if name == "msg_clear": return "msgsrep T"
    if name == "msg_append":
        if not len(f.messages) < 5: return None
        return "msgs append %d.%s.%d" % (a % 2, _hx(b"x%d" % a), ival(946681204.9))
    if name == "msg_edit": return "msgs setc 0 " + _hx([b"hello", b"e1", b""][a])
    if name == "msg_pop": return "msgs pop"
    if name == "msg_replace": return "msgsrep " + t_tmsgs([[], [(True, b"hello", 946681204.2)], [(False, b"q", 1.0)]][a], ival)
    if name == "dreq_id": return "dreq atom %d %d" % (DNS_ATOM["id"], ival([42, 5, 6][a]))
    if name == "dreq_q": return "dreq qname 0 %d" % ival(["dns.google", "a.example", "b.example"][a])
    if name == "dreq_replace": return "dreqrep " + t_dns(tutils.tdnsreq(id=[42, 7, 8][a]).get_state(), ival)
    if name == "dresp_set":
        r = [None, tutils.tdnsresp(), tutils.tdnsresp(id=9)][a]
        return "dresprep " + t_dns(None if r is None else r.get_state(), ival)
    if name == "dresp_code": return "dresp atom %d %d" % (DNS_ATOM["response_code"], ival([0, 3, 2][a]))
    w = getattr(f, "websocket", None)
    if name == "ws_append":
        if not (w and len(w.messages) < 5): return None
        return "ws append %d.%d.%s.%d.0.0" % (ival(int(Opcode.TEXT)), a % 2, _hx(b"m%d" % a), ival(946681209))
    if name == "ws_edit": return "ws setc 0 " + _hx([b"hello binary", b"e1", b""][a])
    if name == "ws_pop": return "ws pop"
    if name == "ws_drop":
        if not (w and w.messages): return None
        return "ws drop %d %d" % (len(w.messages) - 1, a % 2)
    if name == "ws_set": return "wsrep " + t_ws(tflow.twebsocket(messages=bool(a)).get_state(), ival)
    if name == "ws_close": return "ws atom 1 %d" % ival([1000, 1001, None][a])
    raise KeyError(name)


def make_flow(case):
    t, resp, err = case["type"], bool(case.get("resp")), bool(case.get("err"))
    if t == "http": return tflow.tflow(resp=resp, err=err)
    if t == "ws": return tflow.tflow(resp=True, err=err, ws=True)
    if t == "tcp": return tflow.ttcpflow(err=True if err else None)
    if t == "udp": return tflow.tudpflow(err=True if err else None)
    if t == "dns": return tflow.tdnsflow(resp=resp, err=err)
    raise ValueError(t)


class Check(PropertyCheck):
    prop = "C40"
    design_ref = "§5 C40"
    level_text = ("Lean theorems over a heap model of flows (component objects as heap cells, get_state() as a value): "
                  "revert_restores_and_clears (backup, then ANY history of operations on any flows without a revert of "
                  "that flow, then revert = the state at backup time, backup cleared), modified_iff_state_ne_backup "
                  "(+ not_modified_right_after_backup, modified_after_backup_history), "
                  "copy_fresh_id_equal_content_not_live, copy_independent (ANY history not addressed to a flow leaves "
                  "its state untouched; no-aliasing invariant sep_preserved for every operation), all for arbitrary "
                  "component value types, stores and histories (induction). Typed layer (Model/C40_Http.lean): the twelve "
                  "components of HTTPFlow.get_state() as nested records (connection field lists, Error, Request/Response "
                  "with Headers as case-insensitive multi-dict, body, trailers, WebSocketData with messages, metadata) and "
                  "edits as code (attribute assignment, Headers set/del/add = MultiDict.set_all, Message.content setter with "
                  "content-length rewrite, WebSocket message list edits, metadata dict edits, Error.msg, intercept/resume); "
                  "typed histories compile to heap histories (runT_eq_run), giving typed_edit_predicts, "
                  "typed_revert_restores (revert after ANY sequence of nested edits = id), typed_copy_independent, "
                  "typed_modified_after_backup, typed_sep_preserved, plus hdrSet_has / hdrDel_not_has / "
                  "setContent_sets_length; Message.set_content in full, incl. a Content-Encoding header (setContentCE: encode with the "
                  "header's coding, delete the header when the coding is invalid, Content-Length unless Transfer-Encoding), "
                  "proved to refine the C31 model of the same method for every message, cache and codec answer "
                  "(setContentCE_refines_C31, setContentCE_identity, hdrGet_set_self/_other, hdrGet_del); object layer "
                  "(Model/C40_Obj.lean): http.Message as an object graph with Headers/trailers objects in a heap, "
                  "get_state/from_state/copy transcribed - obj_edit_simulates (object edits = typed value edits), "
                  "reachable-store forms without the no-aliasing hypothesis (sep_reachable, typed_revert_restores_reachable, "
                  "typed_copy_independent_reachable), obj_edit_frame, fromState_fresh_roundtrip (from_state builds only fresh Headers objects and round-trips: "
                  "derived, no longer assumed, for messages), obj_copy_independent (copy, then ANY edit history of either "
                  "side incl. in-place header/trailer edits, leaves the other's state), obj_edits_simulate; generic object layer "
                  "(Model/C40_Obj2.lean) for EVERY component class - an object with an immutable part and sub-objects in a heap "
                  "(WebSocketData and its messages, TCP/UDP message lists, DNS messages and their questions, metadata values, "
                  "list-valued connection fields, Error): gobj_edit_simulates, gobj_edit_frame, gobj_fromState_fresh_roundtrip "
                  "(from_state builds only fresh sub-objects and round-trips), gobj_copy_independent (all edit histories: in-place "
                  "mutation of sub-objects, new sub-objects, append, pop, list replacement), gobj_edits_simulate, and the class "
                  "simulations ws_edit_is_generic / tmsg_edit_is_generic / dns_edit_is_generic (the generic value edits ARE the "
                  "typed model's edits of these classes). Tie: identical histories on real HTTP, WebSocket, TCP, UDP and DNS flows; "
                  "generic layer compares every flow's id/live/component states/backup/modified() after each operation; "
                  "for HTTP and WebSocket flows the typed layer is given only the DESCRIPTION of each edit and must predict "
                  "the full nested get_state() of every flow (compared token by token, incl. header lists and bodies).")
    level_note = ("generic layer (all flow types): edits are inputs (their resulting component state is observed and given "
                  "to the model) - kept as a second tie only; the typed layer (ALL flow types: HTTP, WebSocket, TCP/UDP message "
                  "lists, DNS request/response incl. questions) is given the description of the edit and predicts the result, so "
                  "no implementation state is copied into it. Oracle audit: no Skip; the generator drops operations on "
                  "non-existent handles / beyond 4 flows (never reach the implementation); the only lenient place of the oracle "
                  "is the edited component itself (the statement does not say what an edit does) - any other change of the "
                  "edited flow or of another flow is rejected (known_selftest). The oracle is relational (get_state() before "
                  "vs after) because the statement is; the input-derived reference for the state after an edit is the typed "
                  "model's prediction. Leaf values the model "
                  "never computes on (timestamps, host, path, status, connection field values, metadata values) are interned "
                  "atoms, header names/values and bodies are real bytes; set_content is modelled in full - the answer of encoding.encode (the codec "
                  "libraries are C31's parameter) is an input of the edit; nested mutation inside a metadata VALUE is given as the new value. Fresh-object allocation by from_state/copy is derived from the transcriptions of the object layers "
                  "(http.Message: C40_Obj; every other class: the generic C40_Obj2, with class-specific simulation lemmas for "
                  "WebSocketData, TCP/UDP messages and DNS messages; metadata, connections and Error are instances of the generic "
                  "theorems without a class-specific simulation lemma). The object layers are tied to the code through the typed "
                  "value model they simulate, not by a driver op of their own. Flow.set_state's in-place/re-assign split is a "
                  "parameter `ip` over which every theorem quantifies. (R1, audit round 6) Edits are guarded no-ops on absent objects, in the "
                  "harness and in the model alike: an edit of a missing response/websocket/error, a pop on an empty list, an "
                  "out-of-range index or a missing flow/component changes nothing (the harness's edit functions test before they "
                  "touch; the model's Edit.apply falls through, dropLast/set/modify ignore out-of-range) - real Python would "
                  "raise there, but such calls are never issued. (R2) 'Derived, no longer assumed' for from_state/copy freshness "
                  "means: derived from the transcription inside the object layers; WHICH sub-objects the real from_state/copy "
                  "share is observed only indirectly, through the value-level tie (states of all flows compared after every "
                  "operation - the c40-5 class shows up there), because the object layers are not run by the driver. Flow.modified() is modelled after the repair of F-C40a. A copy inherits the "
                  "source's backup including the source's id, so reverting a copy gives it the source's id: modelled as "
                  "implemented (not part of the C40 statement).")
    technique = "Lean 4 proof (heap model, induction over operation histories) + differential model-vs-code correspondence"
    rule = ("scalar fields of requests, responses, flows, connections, WebSocket data, TCP/UDP messages and DNS messages set to "
            "non-canonical but accepted spellings (case variants of http_version/method/scheme/host/authority/sni/question "
            "names, str vs bytes, non-ASCII and surrogate-bearing strings, empty strings, bools given as ints and ints as "
            "bools, boundary ints) followed by backup/revert/copy on the original and the copy; "
            "for every flow type, every container-valued component in its EMPTY-but-present form (trailers = Headers(), "
            "headers = Headers(), empty message / WebSocket message / DNS question lists, empty metadata dict, empty "
            "alpn_offers / cipher_list / certificate_list, b'' vs None bodies) set before a backup or copy and followed by in-place "
            "edits of exactly that object on the original and on the copy; then structured: for every flow type every edit x arg as [backup, edit, revert], [backup, edit, edit-back], "
            "[edit, copy, edit], then random histories (3-16 ops, <=4 flows) over edits of all components, backup, revert, "
            "copy; distinct = distinct (type, initial shape, history); non-trivial = contains a backup or a copy.")
    budget = {"quick": 3000, "thorough": 80000}
    time_budget = {"quick": 35, "thorough": 500}
    fingerprints = ["mitmproxy.flow:Flow.backup", "mitmproxy.flow:Flow.revert", "mitmproxy.flow:Flow.modified",
                    "mitmproxy.flow:Flow.copy", "mitmproxy.flow:Flow.get_state", "mitmproxy.flow:Flow.set_state",
                    "mitmproxy.flow:Flow.from_state", "mitmproxy.coretypes.serializable:Serializable.copy",
                    "mitmproxy.http:HTTPFlow.copy", "mitmproxy.http:HTTPFlow.get_state", "mitmproxy.http:HTTPFlow.set_state",
                    "mitmproxy.tcp:TCPFlow.get_state", "mitmproxy.tcp:TCPFlow.set_state",
                    "mitmproxy.udp:UDPFlow.get_state", "mitmproxy.udp:UDPFlow.set_state",
                    "mitmproxy.dns:DNSFlow.get_state", "mitmproxy.dns:DNSFlow.set_state",
                    "mitmproxy.coretypes.multidict:_MultiDict.set_all", "mitmproxy.coretypes.multidict:_MultiDict.__delitem__",
                    "mitmproxy.coretypes.multidict:_MultiDict.add", "mitmproxy.http:Message.set_content",
                    "mitmproxy.http:Headers._kconv", "mitmproxy.flow:Flow.intercept", "mitmproxy.flow:Flow.resume",
                    "mitmproxy.http:MessageData.get_state", "mitmproxy.http:MessageData.set_state",
                    "mitmproxy.http:Message.get_state", "mitmproxy.http:Message.set_state", "mitmproxy.http:Message.copy",
                    "mitmproxy.connection:Connection.get_state", "mitmproxy.connection:Connection.set_state",
                    "mitmproxy.http:Request.__init__", "mitmproxy.http:Response.__init__", "mitmproxy.http:Request.from_state",
                    "mitmproxy.http:Response.from_state", "mitmproxy.http:Message.http_version"]
    trusted_base = ["component get_state()/from_state() of Request/Response/Message/Connection objects produce deep, "
                    "value-like states (observed, not proved)",
                    "canonical rendering of component states used to intern values (numbers compared by value)"]
    parallel = True
    _cache = (None, None)

    def setup(self, tier):
        # forked workers pay seconds of copy-on-write warm-up each: single process for the quick tier
        self.parallel = tier == "thorough"
        self.known_selftest()

    def known_selftest(self):
        """doctored observations that the oracle must reject (and their undoctored twins that it must accept); independent of
        the tree under test.  The only lenient place of the oracle is the edited component itself (an edit may set component
        j to anything: the statement does not say what an edit does) — `edit-other` is the case just outside it."""
        F = lambda i, lv, c, b, m: [i, lv, list(c), b, m]
        case = {"type": "http", "ops": []}
        base = F(1, 1, [1, 2, 3], None, 0)
        tests = [
            ("backup-ok", [[base], [F(1, 1, [1, 2, 3], [1, [1, 2, 3]], 0)]], [["backup", 0, {}]], False),
            ("modified-after-backup", [[base], [F(1, 1, [1, 2, 3], [1, [1, 2, 3]], 1)]], [["backup", 0, {}]], True),
            ("edit-ok", [[base], [F(1, 1, [1, 9, 3], None, 0)]], [["e", 0, {"j": 1}]], False),
            ("edit-other", [[base], [F(1, 1, [1, 9, 4], None, 0)]], [["e", 0, {"j": 1}]], True),
            ("edit-live", [[base], [F(1, 0, [1, 9, 3], None, 0)]], [["e", 0, {"j": 1}]], True),
            ("revert-ok", [[base], [F(1, 1, [1, 2, 3], [1, [1, 2, 3]], 0)], [F(1, 1, [1, 9, 3], [1, [1, 2, 3]], 1)], [base]],
             [["backup", 0, {}], ["e", 0, {"j": 1}], ["revert", 0, {}]], False),
            ("revert-wrong", [[base], [F(1, 1, [1, 2, 3], [1, [1, 2, 3]], 0)], [F(1, 1, [1, 9, 3], [1, [1, 2, 3]], 1)], [F(1, 1, [1, 9, 3], None, 0)]],
             [["backup", 0, {}], ["e", 0, {"j": 1}], ["revert", 0, {}]], True),
            ("revert-keeps-backup", [[base], [F(1, 1, [1, 2, 3], [1, [1, 2, 3]], 0)], [F(1, 1, [1, 2, 3], [1, [1, 2, 3]], 0)]],
             [["backup", 0, {}], ["revert", 0, {}]], True),
            ("not-modified-after-edit", [[base], [F(1, 1, [1, 2, 3], [1, [1, 2, 3]], 0)], [F(1, 1, [1, 9, 3], [1, [1, 2, 3]], 0)]],
             [["backup", 0, {}], ["e", 0, {"j": 1}]], True),
            ("copy-ok", [[base], [base, F(2, 0, [1, 2, 3], None, 0)]], [["copy", 0, {"fresh": True}]], False),
            ("copy-live", [[base], [base, F(2, 1, [1, 2, 3], None, 0)]], [["copy", 0, {"fresh": True}]], True),
            ("copy-stale-id", [[base], [base, F(2, 0, [1, 2, 3], None, 0)]], [["copy", 0, {"fresh": False}]], True),
            ("copy-content", [[base], [base, F(2, 0, [1, 2, 4], None, 0)]], [["copy", 0, {"fresh": True}]], True),
            ("edit-leaks", [[base], [base, F(2, 0, [1, 2, 3], None, 0)], [F(1, 1, [1, 9, 3], None, 0), F(2, 0, [1, 9, 3], None, 0)]],
             [["copy", 0, {"fresh": True}], ["e", 0, {"j": 1}]], True),
        ]
        for name, steps, applied, want_fail in tests:
            got = bool(self.oracle(case, {"steps": steps, "applied": applied, "problems": []}))
            assert got == want_fail, f"C40 oracle self-test {name}: expected {'a failure' if want_fail else 'no failure'}"

    # ------------------------------------------------------------------ generation
    def generate(self, rng, tier):
        shapes = [("http", 0, 0), ("http", 1, 0), ("http", 0, 1), ("ws", 1, 0), ("tcp", 0, 0), ("tcp", 0, 1),
                  ("udp", 0, 0), ("dns", 0, 0), ("dns", 1, 0), ("dns", 0, 1)]
        def mk(shape, ops): return {"type": shape[0], "resp": shape[1], "err": shape[2], "ops": ops}
        # every container-valued component in its EMPTY-but-present form before backup / copy, then in-place edits of exactly
        # that object (an empty container is falsy in Python: `if x:` instead of `is not None` shares or drops it)
        for sh in shapes:
            for emp, inplace in EMPTY_THEN.get(sh[0], []) + EMPTY_THEN["*"]:
                if emp[0] not in EDITS[sh[0]]: continue
                for ip_ in inplace:
                    E, I, I2 = [emp[0], 0, emp[1]], [ip_[0], 0, ip_[1]], [ip_[0], 1, (ip_[1] + 1) % 2]
                    yield mk(sh, [E, ["backup", 0, 0], I, ["revert", 0, 0]])
                    yield mk(sh, [E, ["copy", 0, 0], I2, I, [ip_[0], 1, ip_[1]]])
                    yield mk(sh, [E, ["backup", 0, 0], ["copy", 0, 0], I, ["revert", 0, 0], I2, ["revert", 1, 0], ["copy", 1, 0], [ip_[0], 2, ip_[1]]])
        # scalar fields in non-canonical but accepted spellings: constructor (revert / copy) vs setter normalisation
        for sh in shapes:
            for n in sorted(SPELL):
                if n not in EDITS[sh[0]]: continue
                if sh[1] == 0 and SPELL[n][1].split(":")[0] in ("resp", "dnsr"): continue
                if sh[2] == 0 and SPELL[n][1].split(":")[0] == "err": continue
                for a in range(3):
                    yield mk(sh, [[n, 0, a], ["backup", 0, 0], ["revert", 0, 0], ["copy", 0, 0], [n, 1, (a + 1) % 3], ["backup", 1, 0], [n, 1, a], ["revert", 1, 0]])
        for sh in shapes:
            yield mk(sh, [["backup", 0, 0]])
            yield mk(sh, [["copy", 0, 0], ["backup", 1, 0], ["revert", 1, 0]])
            names = sorted(EDITS[sh[0]])
            for n in names:
                for a in range(3):
                    if tier == "quick" and not rng.chance(0.3): continue      # quick: a seed-dependent sample of this block
                    yield mk(sh, [["backup", 0, 0], [n, 0, a], ["revert", 0, 0]])
                    yield mk(sh, [["backup", 0, 0], [n, 0, a], [n, 0, 0], [n, 0, a], ["backup", 0, 0], ["revert", 0, 0], ["revert", 0, 0]])
                    yield mk(sh, [[n, 0, a], ["copy", 0, 0], [n, 0, (a + 1) % 3], [n, 1, (a + 2) % 3], ["backup", 1, 0], [n, 1, a], ["revert", 1, 0]])
                    if tier == "thorough":
                        for m in names:
                            yield mk(sh, [["backup", 0, 0], [n, 0, a], ["copy", 0, 0], [m, 1, (a + 1) % 3], ["revert", 1, 0], [m, 0, a], ["revert", 0, 0]])
        while True:
            sh = rng.pick(shapes)
            names = sorted(EDITS[sh[0]]); spec = sorted(SPECIFIC[sh[0]])
            n = rng.randint(3, 16)
            ops, nflows = [], 1
            raw = rng.chance(0.1)
            for _ in range(n):
                h = rng.randint(0, nflows - 1) if not raw else rng.randint(0, MAXFLOWS)
                r = rng.randint(0, 99)
                if r < 55:
                    nm = rng.pick(spec) if rng.chance(0.5) else rng.pick(names)
                    ops.append([nm, h, rng.randint(0, 2)])
                elif r < 72: ops.append(["backup", h, 0])
                elif r < 88: ops.append(["revert", h, 0])
                else:
                    ops.append(["copy", h, 0])
                    if nflows < MAXFLOWS and h < nflows: nflows += 1
            yield mk(sh, ops)

    # ------------------------------------------------------------------ real code
    def _run(self, case):
        keys = KEYS[case["type"]]; edits = EDITS[case["type"]]
        ids, vals = {}, {}
        def iid(s): return ids.setdefault(s, len(ids) + 1)
        def ival(v): return vals.setdefault(canon(v), len(vals) + 1)
        flows = [make_flow(case)]
        problems = []

        def observe():
            out = []
            for f in flows:
                st = f.get_state()
                extra = set(st) - set(keys) - {"id", "backup", "version", "type"}
                if extra: problems.append("unmodelled state keys %s" % sorted(extra))
                del _ALIEN[:]
                comps = [ival(st[k]) for k in keys]
                if _ALIEN: problems.append("get_state() contains a live %s object instead of its state" % _ALIEN[0])
                b = st["backup"]
                if b is None: bk = None
                else:
                    if b.get("backup") is not None: problems.append("nested backup inside a backup")
                    if (b.get("version"), b.get("type")) != (st["version"], st["type"]): problems.append("backup of another type/version")
                    bk = [iid(b["id"]), [ival(b[k]) for k in keys]]
                out.append([iid(st["id"]), 1 if f.live else 0, comps, bk, 1 if f.modified() else 0])
            return out

        typed = True            # every flow type has a typed (predicting) layer
        ft = case["type"]

        def observe_t():
            out = []
            for f in flows:
                st = f.get_state(); b = st["backup"]
                comps = "+".join(t_comp(k, st[k], ival, ft) for k in keys)
                bk = "-" if b is None else "%d+%s" % (iid(b["id"]), "+".join(t_comp(k, b[k], ival, ft) for k in keys))
                out.append("%d:%d:%s:%s:%d" % (iid(st["id"]), 1 if f.live else 0, comps, bk, 1 if f.modified() else 0))
            return "|".join(out)

        def lst(l): return ",".join(map(str, l)) if l else "-"
        s0 = observe()
        lines = ["reset", "new %d %d %s" % (s0[0][0], s0[0][1], lst(s0[0][2]))]
        steps, applied = [s0], []
        tlines, tsteps = [], []
        if typed:
            st0 = flows[0].get_state()
            tlines = ["treset", "tnew %d %d %s" % (s0[0][0], s0[0][1], "+".join(t_comp(k, st0[k], ival, ft) for k in keys))]
            tsteps = [observe_t()]
        for name, h, arg in case["ops"]:
            if not (0 <= h < len(flows)): continue
            f = flows[h]
            if name == "backup":
                f.backup(); lines.append("backup %d" % h); info = {}; tlines.append("tbackup %d" % h)
            elif name == "revert":
                f.revert(); lines.append("revert %d" % h); info = {}; tlines.append("trevert %d" % h)
            elif name == "copy":
                if len(flows) >= MAXFLOWS: continue
                known_ids = set(ids)
                g = f.copy(); flows.append(g)
                info = {"fresh": g.id not in known_ids and all(g.id != x.id for x in flows[:-1])}
                lines.append("copy %d %d" % (h, iid(g.id))); tlines.append("tcopy %d %d" % (h, iid(g.id)))
            else:
                if name not in edits: continue
                key, kind, fn = edits[name]
                if typed:
                    te = typed_edit(name, f, arg, ival)
                    tlines.append("tbackup 99" if te is None else "tedit %d %s" % (h, te))     # 99: no such flow = no-op
                fn(f, arg)
                j = keys.index(key)
                lines.append("%s %d %d %d" % (kind, h, j, ival(f.get_state()[key])))
                info = {"j": j}
            steps.append(observe()); applied.append([name, h, info])
            if typed: tsteps.append(observe_t())
        return {"steps": steps, "applied": applied, "problems": problems[:3], "tsteps": tsteps}, lines + (tlines if typed else [])

    def impl(self, case):
        try:
            obs, lines = self._run(case)
        except Exception as e:  # no operation of the property may raise
            obs, lines = {"exc": type(e).__name__ + ": " + str(e)[:200]}, None
        Check._cache = (json.dumps(case, sort_keys=True), lines)
        return obs

    # ------------------------------------------------------------------ the property, on the real observations
    def oracle(self, case, obs):
        if "exc" in obs: return ["operation raised " + obs["exc"]]
        fails = []
        steps = obs["steps"]
        snap = {0: None}          # handle -> (id, comps) at the time of the effective backup() (harness-tracked)
        for k, (name, h, info) in enumerate(obs["applied"]):
            pre, post = steps[k], steps[k + 1]
            # "editing either one never changes the other": every flow other than the addressed one is untouched
            for b in range(len(pre)):
                if b != h and post[b][:4] != pre[b][:4]:
                    fails.append(f"step {k} {name} on flow {h} changed flow {b}: {pre[b]} -> {post[b]}")
            if name == "backup":
                if post[h][:3] != pre[h][:3]: fails.append(f"step {k}: backup changed the flow {pre[h]} -> {post[h]}")
                if snap[h] is None: snap[h] = (pre[h][0], pre[h][2])
            elif name == "revert":
                if snap[h] is not None:
                    # "reverting restores exactly the backed-up state and clears the backup"
                    if (post[h][0], post[h][2]) != snap[h]:
                        fails.append(f"step {k}: revert gave {(post[h][0], post[h][2])}, backed-up state was {snap[h]}")
                    if post[h][3] is not None: fails.append(f"step {k}: backup not cleared by revert")
                    snap[h] = None
                elif post[h][:4] != pre[h][:4]:
                    fails.append(f"step {k}: revert without backup changed the flow")
                if post[h][1] != pre[h][1]: fails.append(f"step {k}: revert changed liveness")
            elif name == "copy":
                g = len(pre)
                # "A copy of a flow has a fresh id and equal content, is not live"
                if not info.get("fresh"): fails.append(f"step {k}: copy id is not fresh")
                if post[g][2] != pre[h][2] or post[g][3] != pre[h][3]:
                    fails.append(f"step {k}: copy content {post[g][2:4]} differs from source {pre[h][2:4]}")
                if post[g][1] != 0: fails.append(f"step {k}: copy is live")
                if post[h][:4] != pre[h][:4]: fails.append(f"step {k}: copy changed its source")
                snap[g] = snap[h]
            else:
                j = info["j"]
                if post[h][0] != pre[h][0] or post[h][1] != pre[h][1] or post[h][3] != pre[h][3] or \
                        any(post[h][2][i] != pre[h][2][i] for i in range(len(pre[h][2])) if i != j):
                    fails.append(f"step {k}: edit {name} of component {j} changed something else: {pre[h]} -> {post[h]}")
            # "a flow reports itself as modified exactly when its current state differs from its backup"
            for b in range(len(post)):
                want = 1 if (snap[b] is not None and (post[b][0], post[b][2]) != snap[b]) else 0
                if post[b][4] != want:
                    fails.append(f"step {k} ({name} on {h}): flow {b} modified()={bool(post[b][4])}, state "
                                 f"{'differs from' if want else 'equals / has no'} backup")
                if (post[b][3] is None) != (snap[b] is None) or (snap[b] is not None and tuple(post[b][3]) != snap[b]):
                    fails.append(f"step {k}: flow {b} embedded backup {post[b][3]} is not the backed-up state {snap[b]}")
        return (fails + list(obs["problems"]))[:4]      # property clauses first, then observation problems

    # ------------------------------------------------------------------ model tie
    def model_lines(self, case):
        key = json.dumps(case, sort_keys=True)
        if Check._cache[0] != key: self.impl(case)
        return Check._cache[1]

    @staticmethod
    def _render(state):
        def lst(l): return ",".join(map(str, l)) if l else "-"
        return "|".join("%d:%d:%s:%s:%d" % (i, lv, lst(c), "-" if b is None else "%d/%s" % (b[0], lst(b[1])), m)
                        for i, lv, c, b, m in state)

    def model_obs(self, case, replies):
        n = len(replies) // 2           # generic lines, then the same number of typed lines
        return {"g": replies[1:n], "t": replies[n + 1:]}

    def impl_view(self, case, obs):
        return {"g": [self._render(s) for s in obs.get("steps", [])], "t": obs.get("tsteps", [])}

    def classify(self, case, obs):
        names = [n for n, _, _ in obs.get("applied", [])]
        if "backup" not in names and "copy" not in names: return None
        return json.dumps([case["type"], case.get("resp"), case.get("err"), case["ops"]])

    def branches(self, case, obs):
        out = ["type:" + case["type"]]
        if "exc" in obs: return out + ["exc"]
        has_b = {}
        for k, (name, h, info) in enumerate(obs["applied"]):
            pre, post = obs["steps"][k], obs["steps"][k + 1]
            if name in CONTROL:
                out.append("op:" + name)
                if name == "revert": out.append("revert:" + ("with-backup" if pre[h][3] is not None else "noop"))
                if name == "backup": out.append("backup:" + ("first" if pre[h][3] is None else "repeated"))
                if name == "copy": out.append("copy:" + ("with-backup" if pre[h][3] is not None else "plain"))
            else:
                out.append("edit:" + EDITS[case["type"]][name][0])
                if pre[h][3] is not None: out.append("edit-after-backup:" + ("modified" if post[h][4] else "back-to-original"))
        return out

    def neighbours(self, case, rng):
        ops = case["ops"]
        for i in range(len(ops)):
            for ctl in CONTROL:
                c = dict(case); c["ops"] = ops[:i] + [[ctl, ops[i][1], 0]] + ops[i:]; yield c

    def exhaustive(self, tier):
        for t in TYPES:
            for n in sorted(EDITS[t]):
                for a in range(3):
                    yield {"type": t, "resp": 1, "err": 0, "ops": [["backup", 0, 0], [n, 0, a], ["copy", 0, 0], ["revert", 0, 0], ["revert", 1, 0]]}
