"""C41 — HAR export followed by HAR import preserves the exchange
(mitmproxy/addons/savehar.py SaveHar.make_har/flow_entry, mitmproxy/io/har.py request_to_flow, FlowReader HAR path)."""
import base64, gzip, io, json, zlib
from common.check import PropertyCheck, hx, unhx

from mitmproxy import connection, exceptions, http
from mitmproxy.addons.savehar import SaveHar
from mitmproxy.io import FlowReader

BODY_METHODS = ("POST", "PUT", "PATCH")


def _h(pairs):
    return [[hx(k), hx(v)] for k, v in pairs]


def _unh(pairs):
    return [(unhx(k), unhx(v)) for k, v in pairs]


def build_flow(fc):
    """one generated flow description -> a real HTTPFlow (constructed field by field, nothing normalised)"""
    req = http.Request(
        fc["host"], fc["port"], unhx(fc["method_hex"]), fc["scheme"].encode(), unhx(fc["authority_hex"]),
        unhx(fc["path_hex"]), fc["ver"].encode(), http.Headers(_unh(fc["rh"])),
        None if fc["rbody_hex"] is None else unhx(fc["rbody_hex"]), None, 1700000000.0, 1700000001.0)
    f = http.HTTPFlow(
        connection.Client(peername=("192.0.2.1", 50000), sockname=("192.0.2.2", 8080), timestamp_start=1700000000.0),
        connection.Server(address=(fc["host"], fc["port"])))
    f.request = req
    f.response = http.Response(
        fc["sver"].encode(), fc["status"], b"OK", http.Headers(_unh(fc["sh"])),
        None if fc["sbody_hex"] is None else unhx(fc["sbody_hex"]), None, 1700000002.0, 1700000003.0)
    return f


def view(f):
    """the fields the property names, of one flow"""
    rq, rs = f.request, f.response
    rb = rq.get_content(strict=False)
    sb = rs.get_content(strict=False)
    return {
        "method": hx(rq.method.encode("utf-8", "surrogateescape")),
        "url": hx(rq.pretty_url.encode("utf-8", "surrogateescape")),
        "ver": rq.http_version, "sver": rs.http_version,
        "rh": _h(rq.headers.fields), "rbody": None if rb is None else hx(rb),
        "rraw": None if rq.raw_content is None else hx(rq.raw_content),
        "status": rs.status_code,
        "sh": _h(rs.headers.fields), "sbody": None if sb is None else hx(sb),
        "sraw": None if rs.raw_content is None else hx(rs.raw_content),
    }


def no_cl(hs):
    return [[unhx(k).lower(), unhx(v)] for k, v in hs if unhx(k).lower() != b"content-length"]


def names_lower(hs):
    return [[unhx(k).lower(), unhx(v)] for k, v in hs]


class Check(PropertyCheck):
    prop = "C41"
    design_ref = "§5 C41"
    has_model = False
    parallel = False
    budget = {"quick": 1500, "thorough": 40000}
    time_budget = {"quick": 40, "thorough": 600}

    def impl(self, case):
        flows = [build_flow(fc) for fc in case["flows"]]
        orig = [view(f) for f in flows]
        try:
            har = SaveHar().make_har(flows)
            data = json.dumps(har, indent=4).encode()
        except Exception as e:
            return {"orig": orig, "stage": "export-failed", "err": type(e).__name__}
        try:
            back = list(FlowReader(io.BytesIO(data)).stream())
        except exceptions.FlowReadException as e:
            c = e.__context__
            return {"orig": orig, "stage": "import-failed", "err": type(c).__name__ if c else "FlowReadException"}
        return {"orig": orig, "stage": "ok", "back": [view(f) for f in back]}

    # The statement: "Exporting HTTP flows to a HAR file and importing that file again yields flows with the same
    # request method, URL, HTTP version, request header fields (apart from a recomputed Content-Length), request body
    # for POST, PUT and PATCH requests, response status code, response header fields and decoded response body, in the
    # same order."  One failure string per named field: "<field>[i]: ...".
    def oracle(self, case, obs):
        if obs["stage"] != "ok":
            return [f"{obs['stage']}: {obs['err']}"]
        o, b = obs["orig"], obs["back"]
        if len(o) != len(b):
            return [f"count: exported {len(o)} flows, imported {len(b)}"]
        fails = []
        for i, (x, y) in enumerate(zip(o, b)):
            if x["method"] != y["method"]: fails.append(f"method[{i}]: {x['method']} -> {y['method']}")
            if x["url"] != y["url"]: fails.append(f"url[{i}]: {unhx(x['url'])!r} -> {unhx(y['url'])!r}")
            if x["ver"] != y["ver"]: fails.append(f"version[{i}]: {x['ver']} -> {y['ver']}")
            if no_cl(x["rh"]) != no_cl(y["rh"]): fails.append(f"request-headers[{i}]: {no_cl(x['rh'])} -> {no_cl(y['rh'])}")
            if unhx(x["method"]) in (b"POST", b"PUT", b"PATCH") and x["rbody"] != y["rbody"]:
                fails.append(f"request-body[{i}]: {x['rbody']} -> {y['rbody']}")
            if x["status"] != y["status"]: fails.append(f"status[{i}]: {x['status']} -> {y['status']}")
            if names_lower(x["sh"]) != names_lower(y["sh"]):
                fails.append(f"response-headers[{i}]: {names_lower(x['sh'])} -> {names_lower(y['sh'])}")
            if x["sbody"] != y["sbody"]: fails.append(f"response-body[{i}]: {x['sbody']} -> {y['sbody']}")
        return fails

    # ------------------------------------------------------------------ generator
    HOSTS = ["example.com", "a.example.org", "192.0.2.7", "xn--bcher-kva.example", "localhost"]
    PATHS = [b"/", b"/index.html", b"/a/b?x=1&y=2", b"/q?x=%C3%A9", b"/s%20p", b"/p;v=1?q#f", b"*", b"/\xc3\xa9"]
    CTS = [b"text/plain", b"text/plain; charset=utf-8", b"text/plain; charset=latin-1", b"text/html", b"application/json",
           b"application/octet-stream", b"image/png", b"text/css", b"application/x-www-form-urlencoded",
           b"text/plain; charset=utf-16", b"text/plain; charset=bogus", b"text/html; charset=gbk", b"application/xml",
           b"multipart/form-data; boundary=xx"]
    CODINGS = [b"gzip", b"deflate", b"br", b"zstd", b"identity", b"bogus", b"GZIP"]
    HDR_POOL = [(b"Accept", b"*/*"), (b"accept", b"text/html"), (b"X-A", b"1"), (b"X-A", b"2"), (b"x-a", b"3"),
                (b"User-Agent", b"ua/1.0 (x; y)"), (b"Cookie", b"a=b; c=d"), (b"Cookie", b"e=f"),
                (b"X-Empty", b""), (b"X-Utf8", "é€".encode()), (b"X-Latin1", b"caf\xe9"), (b"X-Sp", b"a  b\tc"),
                (b"Referer", b"http://example.com/?q=\"x\""), (b"X-Bs", b"a\\b"), (b"Connection", b"keep-alive")]
    SHDR_POOL = [(b"Server", b"nginx"), (b"Set-Cookie", b"a=b; Path=/; HttpOnly"), (b"Set-Cookie", b"c=d; Secure; SameSite=Lax"),
                 (b"set-cookie", b"e=f"), (b"Location", b"/x"), (b"Vary", b"Accept"), (b"vary", b"Cookie"),
                 (b"X-Utf8", "ü".encode()), (b"X-Latin1", b"\xfc"), (b"Cache-Control", b"no-cache"), (b"X-Empty", b""),
                 (b"Date", b"Mon, 01 Jan 2024 00:00:00 GMT")]
    TEXTS = ["hello", "hello world\n" * 12, "héllo wörld €", "{\"a\": [1, 2, \"é\"]}", "a=1&b=2&c=%C3%A9",
             "<html><head><meta charset=\"latin-1\"></head><body>café</body></html>", "@charset \"utf-8\";\nbody{}",
             "<?xml version=\"1.0\" encoding=\"iso-8859-1\"?><a>é</a>", "﻿bom text", "日本語のテキスト", "x" * 300, "tab\tcr\r\nlf"]

    def gen_body(self, rng, ct):
        k = rng.weighted([(2, "empty"), (5, "text"), (2, "bin"), (1, "enc"), (1, "bom"), (1, "mixed")])
        if k == "empty": return b""
        if k == "text":
            t = rng.pick(self.TEXTS)
            enc = rng.weighted([(6, "utf-8"), (2, "latin-1"), (1, "utf-16"), (1, "gbk")])
            try: return t.encode(enc)
            except UnicodeError: return t.encode("utf-8")
        if k == "bin":
            return rng.bytes_(rng.pick([1, 4, 40, 130]))
        if k == "enc":
            return rng.pick(self.TEXTS).encode("utf-8")
        if k == "bom":
            return rng.pick([b"\xff\xfe", b"\xfe\xff", b"\xef\xbb\xbf", b"\xff\xfe\x00\x00", b"\x00\x00\xfe\xff"]) + rng.pick(self.TEXTS).encode("utf-16le")[:rng.randint(0, 20)]
        t = bytearray(rng.pick(self.TEXTS).encode("utf-8"))
        for _ in range(rng.randint(1, 3)):
            t.insert(rng.randint(0, len(t)), rng.getrandbits(8))
        return bytes(t)

    def code_body(self, rng, body, coding):
        c = coding.lower()
        try:
            if c == b"gzip": return gzip.compress(body, mtime=0) if rng.chance(0.7) else zlib.compress(body)
            if c == b"deflate": return zlib.compress(body)
            if c == b"br":
                import brotli; return brotli.compress(body)
            if c == b"zstd":
                from mitmproxy.net.encoding import encode_zstd; return encode_zstd(body)
        except Exception:
            pass
        return body

    def gen_msg(self, rng, pool, is_req, ver):
        hs = []
        for _ in range(rng.weighted([(2, 0), (3, 1), (3, 3), (2, 6)])):
            hs.append(rng.pick(pool))
        ct = rng.pick(self.CTS) if rng.chance(0.7) else None
        body = self.gen_body(rng, ct)
        if ct is not None:
            hs.insert(rng.randint(0, len(hs)), (rng.pick([b"Content-Type", b"content-type", b"CONTENT-TYPE"]), ct))
        if rng.chance(0.12 if not is_req else 0.04):
            coding = rng.pick(self.CODINGS)
            if rng.chance(0.85): body = self.code_body(rng, body, coding)
            hs.insert(rng.randint(0, len(hs)), (rng.pick([b"Content-Encoding", b"content-encoding"]), coding))
        r = rng.random()
        if r < 0.55:
            hs.insert(rng.randint(0, len(hs)), (rng.pick([b"Content-Length", b"content-length"]), str(len(body)).encode()))
        elif r < 0.62:
            hs.insert(rng.randint(0, len(hs)), (b"Content-Length", str(len(body) + rng.randint(1, 5)).encode()))
        elif r < 0.70 and ver == "HTTP/1.1":
            hs.insert(rng.randint(0, len(hs)), (b"Transfer-Encoding", b"chunked"))
        if rng.chance(0.03):
            hs.insert(rng.randint(0, len(hs)), (b"Content-Length", str(len(body)).encode()))
        return hs, body

    def gen_flow(self, rng):
        ver = rng.weighted([(5, "HTTP/1.1"), (3, "HTTP/2.0"), (2, "HTTP/3"), (0.4, "HTTP/1.0")])
        method = rng.weighted([(5, b"GET"), (4, b"POST"), (2, b"PUT"), (2, b"PATCH"), (1, b"DELETE"), (1, b"HEAD"),
                               (1, b"OPTIONS"), (0.4, b"post"), (0.3, b"CONNECT"), (0.3, b"M-SEARCH")])
        scheme = rng.pick(["http", "https"])
        host = rng.pick(self.HOSTS)
        port = rng.weighted([(7, 80 if scheme == "http" else 443), (2, 8080), (1, 443 if scheme == "http" else 80)])
        path = rng.pick(self.PATHS) if method == b"OPTIONS" else rng.pick([p for p in self.PATHS if p != b"*"])
        hp = host if port == (80 if scheme == "http" else 443) else f"{host}:{port}"
        rh, rbody = self.gen_msg(rng, self.HDR_POOL, True, ver)
        if method not in (b"POST", b"PUT", b"PATCH", b"post") and rng.chance(0.8):
            rbody = b""
            rh = [(k, v) for k, v in rh if k.lower() not in (b"content-length", b"content-encoding", b"transfer-encoding")]
        authority = b""
        if ver in ("HTTP/2.0", "HTTP/3"):
            authority = hp.encode()
            if rng.chance(0.15): rh.insert(0, (b"host", hp.encode()))
        else:
            r = rng.random()
            if r < 0.75: rh.insert(0, (rng.pick([b"Host", b"host"]), hp.encode()))
            elif r < 0.80: rh.insert(0, (b"Host", f"{host}:{port}".encode()))
            elif r < 0.85: rh.insert(0, (b"Host", hp.upper().encode()))
            elif r < 0.90: rh.insert(0, (b"Host", b"other.example.net"))
            elif r < 0.93: rh.insert(rng.randint(0, len(rh)), (b"Host", hp.encode())); rh.append((b"Host", hp.encode()))
        if method == b"CONNECT":
            authority = f"{host}:{port}".encode(); path = b""
        sver = ver if rng.chance(0.95) else rng.pick(["HTTP/1.1", "HTTP/2.0"])
        sh, sbody = self.gen_msg(rng, self.SHDR_POOL, False, sver)
        status = rng.weighted([(6, 200), (1, 201), (1, 204), (1, 301), (1, 304), (1, 404), (1, 500), (0.5, 999), (0.3, 600)])
        if status in (204, 304) and rng.chance(0.8):
            sbody = b""
        return {"method_hex": hx(method), "scheme": scheme, "host": host, "port": port, "path_hex": hx(path),
                "authority_hex": hx(authority), "ver": ver, "rh": _h(rh), "rbody_hex": hx(rbody),
                "status": status, "sver": sver, "sh": _h(sh), "sbody_hex": hx(sbody)}

    def generate(self, rng, tier):
        while True:
            n = rng.weighted([(8, 1), (1, 2), (1, 3)])
            yield {"flows": [self.gen_flow(rng) for _ in range(n)]}

    def classify(self, case, obs):
        return json.dumps(case, sort_keys=True)

    def branches(self, case, obs):
        out = ["stage:" + obs["stage"]]
        for fc in case["flows"]:
            out.append("ver:" + fc["ver"]); out.append("method:" + unhx(fc["method_hex"]).decode().upper())
        return out
