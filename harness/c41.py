"""C41 — HAR export followed by HAR import preserves the exchange
(mitmproxy/addons/savehar.py SaveHar.make_har/flow_entry, mitmproxy/io/har.py request_to_flow, FlowReader HAR path)."""
import base64, gzip, io, json, zlib
from common.check import PropertyCheck, hx, unhx

from mitmproxy import connection, exceptions, http
from mitmproxy.addons.savehar import SaveHar
from mitmproxy.io import FlowReader, read_flows_from_paths
from mitmproxy.test import taddons
from common.paths import WORK
import os
from mitmproxy.io.har import request_to_flow
from mitmproxy.net import encoding as mencoding
from mitmproxy.net.http.headers import assemble_content_type, infer_content_encoding, parse_content_type
from mitmproxy.utils import strutils

BODY_METHODS = ("POST", "PUT", "PATCH")


def _h(pairs):
    return [[hx(k), hx(v)] for k, v in pairs]


def _unh(pairs):
    return [(unhx(k), unhx(v)) for k, v in pairs]


def build_flow(fc):
    """one generated flow description -> a real HTTPFlow (constructed field by field, nothing normalised)"""
    req = http.Request(
        fc["host"], fc["port"], unhx(fc["method_hex"]), fc["scheme"].encode(), unhx(fc["authority_hex"]),
        unhx(fc["path_hex"]), fc["ver"].encode(), http.Headers(_unh(fc["rh"])),
        None if fc["rbody_hex"] is None else unhx(fc["rbody_hex"]), None, 1700000000.0, 1700000001.0)
    f = http.HTTPFlow(
        connection.Client(peername=("192.0.2.1", 50000), sockname=("192.0.2.2", 8080), timestamp_start=1700000000.0),
        connection.Server(address=(fc["host"], fc["port"])))
    f.request = req
    f.response = http.Response(
        fc["sver"].encode(), fc["status"], b"OK", http.Headers(_unh(fc["sh"])),
        None if fc["sbody_hex"] is None else unhx(fc["sbody_hex"]), None, 1700000002.0, 1700000003.0)
    return f


def view(f):
    """the fields the property names, of one flow"""
    rq, rs = f.request, f.response
    rb = rq.get_content(strict=False)
    sb = rs.get_content(strict=False)
    return {
        "method": hx(rq.method.encode("utf-8", "surrogateescape")),
        "url": hx(rq.pretty_url.encode("utf-8", "surrogateescape")),
        "ver": rq.http_version, "sver": rs.http_version,
        "rh": _h(rq.headers.fields), "rbody": None if rb is None else hx(rb),
        "rraw": None if rq.raw_content is None else hx(rq.raw_content),
        "status": rs.status_code,
        "sh": _h(rs.headers.fields), "sbody": None if sb is None else hx(sb),
        "sraw": None if rs.raw_content is None else hx(rs.raw_content),
    }


def reset_cache():
    """mitmproxy.net.encoding keeps a one-element cache that makes encode()/decode() depend on the previous call
    (encode(b"", "deflate") returns b"" right after decode(b"", "deflate")); the tie asks every question afresh"""
    mencoding._cache = mencoding.CachedDecode(None, None, None, None)


def tx(s):
    """a Python str on the wire: hex of its UTF-8 (surrogatepass) bytes"""
    return hx(s.encode("utf-8", "surrogatepass"))


def show_hdrs(pairs):
    return ",".join(f"{k}:{v}" for k, v in pairs) or "-"


class LibTable:
    """the library answers the Lean model may ask for one flow, computed with the real library functions
    along the model's data flow (wire format: see Driver/C41.lean)"""

    def __init__(self):
        self.t = {}

    def put(self, tag, args, ans):
        self.t[",".join([tag] + args)] = ans

    def sdec(self, b):
        s = b.decode("utf-8", "surrogateescape")
        self.put("sd", [hx(b)], tx(s)); return s

    def senc(self, s):
        try: b = s.encode("utf-8", "surrogateescape")
        except UnicodeEncodeError: b = None
        self.put("se", [tx(s)], "!" if b is None else hx(b)); return b

    def upper(self, s):
        u = s.upper(); self.put("up", [tx(s)], tx(u)); return u

    def b64enc(self, b):
        s = base64.b64encode(b).decode(); self.put("be", [hx(b)], tx(s)); return s

    def b64dec(self, s):
        try: b = base64.b64decode(s)
        except Exception: b = None
        self.put("bd", [tx(s)], "!" if b is None else hx(b)); return b

    def mostly_bin(self, b):
        # the model computes is_mostly_bin itself (Model/C41_Lib.lean) and only asks whether the cut prefix is valid UTF-8
        s = b
        if len(s) > 100:
            for cut in range(100, min(104, len(s))):
                if (s[cut] >> 6) != 0b10:
                    s = s[:cut]; break
            else:
                s = s[:100]
        try: s.decode(); ok = True
        except ValueError: ok = False
        self.put("u8", [hx(s)], "01" if ok else "00")
        return strutils.is_mostly_bin(b)

    def ce_dec(self, ce, raw):
        reset_cache()
        try:
            r = mencoding.decode(raw, ce)
            if not isinstance(r, bytes): r = None
        except ValueError: r = None
        self.put("cd", [tx(ce), hx(raw)], "!" if r is None else hx(r)); return r

    def ce_enc(self, ce, b):
        reset_cache()
        try:
            r = mencoding.encode(b, ce)
            if not isinstance(r, bytes): r = None
        except ValueError: r = None
        self.put("ce", [tx(ce), hx(b)], "!" if r is None else hx(r)); return r

    def str_prims(self, ct):
        """str.lower / str.strip answers for the pieces parse_content_type looks at (the driver computes ASCII ones itself)"""
        parts = ct.split(";", 1)
        ts = parts[0].split("/", 1)
        for t in ts: self.put("lo", [tx(t)], tx(t.lower()))
        if len(parts) == 2:
            for i in parts[1].split(";"):
                for x in i.split("=", 1): self.put("st", [tx(x)], tx(x.strip()))

    def infer(self, ct, content):
        # the model computes infer_content_encoding itself and only asks for the three regex searches and str primitives
        import re
        self.str_prims(ct)
        for tag, m in (("rm", re.search(rb"""<meta[^>]+charset=['"]?([^'">]+)""", content, re.IGNORECASE)),
                       ("rx", re.search(rb"""<\?xml[^\?>]+encoding=['"]([^'"\?>]+)""", content, re.IGNORECASE)),
                       ("rc", re.match(rb"""@charset "([^"]+)";""", content, re.IGNORECASE))):
            self.put(tag, [hx(content)], "!" if m is None else hx(m.group(1)))
        r = infer_content_encoding(ct, content)
        self.put("lo", [tx(r)], tx(r.lower()))
        for m_ in (re.search(rb"""<meta[^>]+charset=['"]?([^'">]+)""", content, re.IGNORECASE),):
            if m_:
                g = m_.group(1).decode("ascii", "ignore"); self.put("lo", [tx(g)], tx(g.lower()))
        return r

    def cs_dec(self, cs, b):
        try:
            r = mencoding.decode(b, cs)
            if not isinstance(r, str): r = None
        except ValueError: r = None
        self.put("xd", [tx(cs), hx(b)], "!" if r is None else tx(r)); return r

    def cs_enc(self, cs, s):
        try:
            r = mencoding.encode(s, cs)
            if not isinstance(r, bytes): r = None
        except ValueError: r = None
        self.put("xe", [tx(cs), tx(s)], "!" if r is None else hx(r)); return r

    def ct_utf8(self, ct):
        p = parse_content_type(ct) or ("text", "plain", {})
        p[2]["charset"] = "utf-8"
        r = assemble_content_type(*p).encode("utf-8", "surrogateescape")
        self.str_prims(ct); self.senc(assemble_content_type(*p)); return r

    def idna_prims(self, text):
        """the IDNA slow-path answers the model's host transcription (Model/C41_Host.lean) may ask about `text`:
        text.encode("idna") when text is not ASCII, raw.decode("idna") when the A-label form contains xn--"""
        try:
            raw = text.encode("idna")
            if not text.isascii(): self.put("ide", [tx(text)], hx(raw))
        except UnicodeError:
            if not text.isascii(): self.put("ide", [tx(text)], "!")
            return
        for r in (raw, raw[:-1] if raw.endswith(b".") else raw):
            if b"xn--" in r:
                try: self.put("idd", [hx(r)], tx(r.decode("idna")))
                except UnicodeError: self.put("idd", [hx(r)], "!")

    def url_prims(self, u):
        import urllib.parse
        try: hn = urllib.parse.urlsplit(u).hostname
        except ValueError: hn = None
        if hn: self.idna_prims(hn)

    def auth_prims(self, h):
        from mitmproxy.net.http import url as murl
        m = murl._authority_re.match(h)
        if m:
            host = m.group("host")
            if host.startswith("[") and host.endswith("]"): host = host[1:-1]
            self.idna_prims(host)

    def url_hostport(self, u):
        self.url_prims(u)
        try: r = http.Request.make("GET", u, "", [(b"Host", b"x")]).headers["Host"]
        except Exception: r = None
        return r

    def url_pretty(self, u, h):
        self.url_prims(u)
        if h: self.auth_prims(h)
        try:
            rq = http.Request.make("GET", u, "", [])
            if h is not None:       # set AFTER make: the url setter would rewrite an existing Host header
                rq.headers = http.Headers([(b"Host", h.encode("utf-8", "surrogateescape"))])
            r = rq.pretty_url
        except Exception: r = ""
        return r

    # ---- the model's data flow (mirror of Model/C41.lean, only to know which questions are asked)
    def hget(self, hdrs, k):
        vs = [self.sdec(v) for n, v in hdrs if n.lower() == k]
        return ", ".join(vs) if vs else None

    def get_content(self, hdrs, body):
        ce = self.hget(hdrs, b"content-encoding")
        if ce:
            d = self.ce_dec(ce, body)
            return body if d is None else d
        return body

    def get_text(self, hdrs, body):
        c = self.get_content(hdrs, body)
        t = self.cs_dec(self.infer(self.hget(hdrs, b"content-type") or "", c), c)
        return self.sdec(c) if t is None else t

    def set_content(self, hdrs, value):
        ce = self.hget(hdrs, b"content-encoding")
        raw = self.ce_enc(ce, value) if ce else value
        if raw is None:
            hdrs = [(n, v) for n, v in hdrs if n.lower() != b"content-encoding"]; raw = value
        return hdrs, raw

    def decode_msg(self, hdrs, body):
        if not body: return
        d = self.get_content(hdrs, body)
        self.set_content([(n, v) for n, v in hdrs if n.lower() != b"content-encoding"], d)

    def walk(self, f):
        rq, rs = f.request, f.response
        m = self.upper(self.sdec(rq.data.method))
        purl = rq.pretty_url
        url = f"https://{purl}/" if m == "CONNECT" else purl
        self.sdec(rq.data.http_version); self.sdec(rs.data.http_version)
        rh, sh = list(rq.headers.fields), list(rs.headers.fields)
        for n, v in rh + sh:
            self.senc(self.sdec(n)); self.senc(self.sdec(v))
        post = self.get_text(rh, rq.raw_content) if m in BODY_METHODS else ""
        content = self.get_content(sh, rs.raw_content)
        if content and self.mostly_bin(content):
            text = self.b64enc(content); b64 = True
        else:
            text = self.get_text(sh, rs.raw_content); b64 = False
        # import
        mb = self.senc(m)
        if mb is not None: self.upper(self.sdec(mb))
        hp = self.url_hostport(url)
        host_after = self.hget(rh, b"host")
        if hp is not None and host_after is not None:
            hpb = self.senc(hp)
            if hpb is not None: host_after = self.sdec(hpb)
        self.url_pretty(url, host_after)
        ct = self.hget(rh, b"content-type") or ""
        b = self.cs_enc(self.infer(ct, b""), post)
        h1 = rh
        if b is None:
            b = self.senc(post)
            h1 = [(n, v) for n, v in rh if n.lower() != b"content-type"] + [(b"content-type", self.ct_utf8(ct))]
        if b is not None:
            h2, raw = self.set_content(h1, b)
            self.decode_msg(h2, raw)
        if b64:
            rc = self.b64dec(text)
        else:
            rc = self.cs_enc(self.infer(self.hget(sh, b"content-type") or "", b""), text)
            if rc is None: rc = self.senc(text)
        if rc is not None:
            h2, raw = self.set_content(sh, rc)
            ce = self.hget(sh, b"content-encoding")
            self.decode_msg(sh, raw if ce else rc)
        return ";".join(f"{k}={v}" for k, v in self.t.items()) or "-"


BITS = ["ver", "method", "urlparse", "url", "host", "noce", "reqtext", "respcl", "resptext"]

import codecs, re as _re


def ref_parse_ct(c):
    parts = c.split(";", 1)
    ts = parts[0].split("/", 1)
    if len(ts) != 2: return None
    d = {}
    if len(parts) == 2:
        for i in parts[1].split(";"):
            cl = i.split("=", 1)
            if len(cl) == 2: d[cl[0].strip()] = cl[1].strip()
    return d


def ref_infer(content_type, content=b""):
    """the harness' own statement of which charset a body has (a transcription of the documented rules of
    infer_content_encoding on the tree the findings were recorded on): BOM, charset parameter, json/html/xml/
    javascript/css defaults and in-body declarations, latin-1 fallback, gb2312/gbk -> gb18030.  Used ONLY to
    decide whether a failure is an instance of F-C41f / F-C41h; a library that starts answering differently
    cannot excuse itself."""
    enc = None
    if content.startswith(b"\x00\x00\xfe\xff"): enc = "utf-32be"
    elif content.startswith(b"\xff\xfe\x00\x00"): enc = "utf-32le"
    elif content.startswith(b"\xfe\xff"): enc = "utf-16be"
    elif content.startswith(b"\xff\xfe"): enc = "utf-16le"
    elif content.startswith(b"\xef\xbb\xbf"): enc = "utf-8-sig"
    else:
        d = ref_parse_ct(content_type)
        if d: enc = d.get("charset")
    if not enc and "json" in content_type: enc = "utf8"
    if not enc and "html" in content_type:
        m = _re.search(rb"""<meta[^>]+charset=['"]?([^'">]+)""", content, _re.IGNORECASE)
        enc = m.group(1).decode("ascii", "ignore") if m else "utf8"
    if not enc and "xml" in content_type:
        m = _re.search(rb"""<\?xml[^\?>]+encoding=['"]([^'"\?>]+)""", content, _re.IGNORECASE)
        enc = m.group(1).decode("ascii", "ignore") if m else "utf8"
    if not enc and ("javascript" in content_type or "ecmascript" in content_type): enc = "utf8"
    if not enc and "text/css" in content_type:
        m = _re.match(rb"""@charset "([^"]+)";""", content, _re.IGNORECASE)
        enc = m.group(1).decode("ascii", "ignore") if m else "utf8"
    if not enc: enc = "latin-1"
    if enc.lower() in ("gb2312", "gbk"): enc = "gb18030"
    return enc


_NOT_CHARSETS = ("none", "identity", "gzip", "deflate", "deflateraw", "br", "zstd")


class RefLib(LibTable):
    """LibTable whose charset questions are answered by the harness' reference (ref_infer + CPython codecs)"""

    def infer(self, ct, content):
        return ref_infer(ct, content)

    def cs_dec(self, cs, b):
        if cs.lower() in _NOT_CHARSETS: return LibTable.cs_dec(self, cs, b)
        try: r = codecs.decode(b, cs.lower(), "strict")
        except Exception: return None
        return r if isinstance(r, str) else None

    def cs_enc(self, cs, s):
        if cs.lower() in _NOT_CHARSETS: return LibTable.cs_enc(self, cs, s)
        try: r = codecs.encode(s, cs.lower(), "strict")
        except Exception: return None
        return r if isinstance(r, bytes) else None


def ref_url_risky(f):
    """input property behind F-C41c / F-C41d: the URL shown for the flow is not plain ASCII with a lower-case host,
    or the Host field is not exactly one canonical host[:non-default-port]"""
    rq = f.request
    u = rq.pretty_url
    hosts = [v for n, v in rq.headers.fields if n.lower() == b"host"]
    risky_url = (not u.isascii()) or len(hosts) > 1 or any(v != v.lower() or not v.isascii() for v in hosts) \
        or rq.data.host != rq.data.host.lower() or not rq.data.host.isascii() or "xn--" in u.lower() \
        or any(b"xn--" in v.lower() for v in hosts) or rq.method == "CONNECT" or rq.data.path == b"*"
    dflt = {"http": 80, "https": 443}.get(rq.scheme)
    def canonical(v):
        h, _, p = v.rpartition(b":")
        if h and p.isdigit():
            return h.lower() if int(p) == dflt else h.lower() + b":" + p
        return v.lower()
    risky_host = len(hosts) > 1 or any(canonical(v) != v for v in hosts) or risky_url
    return risky_url, risky_host


def ref_predict(f):
    """what the recorded findings say happens to THIS input, computed with the harness' reference only (RefLib):
    the request/response bodies the text path yields, whether set_text has to rewrite Content-Type, which error
    url.parse is expected to raise.  known() excuses a failure only if the observation equals this prediction."""
    rl = RefLib()
    rq, rs = f.request, f.response
    rh, sh = list(rq.headers.fields), list(rs.headers.fields)
    m = rq.method
    # request: postData.text -> set_text
    rc = rl.get_content(rh, rq.raw_content)
    post = rl.get_text(rh, rq.raw_content) if m in BODY_METHODS else ""
    b = rl.cs_enc(ref_infer(rl.hget(rh, b"content-type") or "", b""), post)
    ct_rewrite = b is None
    if b is None:
        try: b = post.encode("utf-8", "surrogateescape")
        except UnicodeEncodeError: b = None
    # response: content.text / base64
    sc = rl.get_content(sh, rs.raw_content)
    if sc and strutils.is_mostly_bin(sc):
        sb = sc
    else:
        t = rl.get_text(sh, rs.raw_content)
        sb = rl.cs_enc(ref_infer(rl.hget(sh, b"content-type") or "", b""), t)
        if sb is None:
            try: sb = t.encode("utf-8", "surrogateescape")
            except UnicodeEncodeError: sb = None
    # URL
    u = rq.pretty_url
    eurl = f"https://{u}/" if m == "CONNECT" else u
    hosts = [v for n, v in rh if n.lower() == b"host"]
    urlfail = []          # exception types url.parse may raise on the exported URL
    if (len(hosts) > 1 and m != "CONNECT" and not (rq.is_http2 or rq.is_http3)) or " " in eurl: urlfail.append("ValueError")
    if not eurl.isascii(): urlfail.append("UnicodeEncodeError")
    ru, rhost = ref_url_risky(f)
    return {"pred_rbody": None if b is None else hx(b), "ct_rewrite": ct_rewrite, "pred_sbody": None if sb is None else hx(sb),
            "urlfail": urlfail, "risky_url": ru, "risky_host": rhost, "connect": m == "CONNECT", "eurl": eurl}


def url_norm(u):
    """URL up to what F-C41c records: host case, IDNA spelling of the host, empty path vs '/'"""
    import urllib.parse
    try:
        p = urllib.parse.urlsplit(u)
        host = p.hostname or ""
        try: host = host.encode("idna").decode()
        except UnicodeError: pass
        return (p.scheme, host.lower(), p.port, p.path or "/", p.query, p.fragment)
    except ValueError:
        return ("?", u)


def py_hset(h, name, v):
    """MultiDict.set_all(name, [v]) on (lower-name, value) pairs"""
    out, done = [], False
    for k, x in h:
        if k == name:
            if not done: out.append([k, v]); done = True
        else: out.append([k, x])
    if not done: out.append([name, v])
    return out


def guard_bits(f, lt=None):
    """the guard conjuncts of Model/C41_Spec.lean (guardBits), evaluated with the real library functions:
    which of the recorded defect classes F-C41a..h this flow is in (False = in the class)"""
    lt = lt or LibTable()
    rq, rs = f.request, f.response
    rh, sh = list(rq.headers.fields), list(rs.headers.fields)
    m = lt.upper(lt.sdec(rq.data.method))
    purl = rq.pretty_url
    eurl = f"https://{purl}/" if m == "CONNECT" else purl      # exportUrl
    hp = lt.url_hostport(eurl)
    hosts = [v for n, v in rh if n.lower() == b"host"]
    g_host = True
    if hp is not None and hosts:
        hpb = lt.senc(hp)
        g_host = hpb is not None and hosts == [hpb]
    req_ce = any(n.lower() == b"content-encoding" for n, _ in rh)
    resp_ce = any(n.lower() == b"content-encoding" for n, _ in sh)
    post = lt.get_text(rh, rq.raw_content) if m in BODY_METHODS else ""
    b = lt.cs_enc(lt.infer(lt.hget(rh, b"content-type") or "", b""), post)
    g_reqtext = b is not None and (m not in BODY_METHODS or b == rq.raw_content)
    body = rs.raw_content
    g_respcl = (body == b"" or any(n.lower() == b"transfer-encoding" for n, _ in sh)
                or [v for n, v in sh if n.lower() == b"content-length"] == [str(len(body)).encode()])
    if body != b"" and lt.mostly_bin(body):
        g_resptext = True
    else:
        t = lt.get_text(sh, body)
        rc = lt.cs_enc(lt.infer(lt.hget(sh, b"content-type") or "", b""), t)
        if rc is None: rc = lt.senc(t)
        g_resptext = rc == body
    return {"ver": rq.data.http_version in (b"HTTP/1.1", b"HTTP/3"), "method": m != "CONNECT", "urlparse": hp is not None,
            "url": lt.url_pretty(eurl, lt.hget(rh, b"host")) == purl, "host": g_host,
            "noce": not req_ce and not resp_ce, "req_ce": req_ce, "resp_ce": resp_ce,
            "reqtext": g_reqtext, "respcl": g_respcl, "resptext": g_resptext}


def bits_str(g):
    return "".join("1" if g[k] else "0" for k in BITS)


def table_for(f):
    lt = LibTable()
    guard_bits(f, lt)
    rq, rs = f.request, f.response
    lt.ct_utf8(lt.hget(list(rq.headers.fields), b"content-type") or "")
    lt.infer(lt.hget(list(rs.headers.fields), b"content-type") or "", lt.get_content(list(rs.headers.fields), rs.raw_content))
    lt.mostly_bin(lt.get_content(list(rs.headers.fields), rs.raw_content))
    return lt.walk(f)


def predictions(f):
    """the real values of the helpers the model now computes itself: is_mostly_bin(response content),
    infer_content_encoding(response ct, content), infer_content_encoding(request ct), set_text's rewritten Content-Type"""
    rq, rs = f.request, f.response
    c = rs.get_content(strict=False)
    rct, sct = rq.headers.get("content-type", ""), rs.headers.get("content-type", "")
    p = parse_content_type(rct) or ("text", "plain", {})
    p[2]["charset"] = "utf-8"
    return " ".join(["1" if strutils.is_mostly_bin(c) else "0", tx(infer_content_encoding(sct, c)), tx(infer_content_encoding(rct)),
                     hx(assemble_content_type(*p).encode("utf-8", "surrogateescape"))])


def flow_line(f):
    rq, rs = f.request, f.response
    return " ".join(["rt", hx(rq.data.method), tx(rq.pretty_url), hx(rq.data.http_version),
                     show_hdrs(_h(rq.headers.fields)), hx(rq.raw_content), str(rs.status_code),
                     hx(rs.data.http_version), show_hdrs(_h(rs.headers.fields)), hx(rs.raw_content), table_for(f)])


def entry_view(e):
    rq, rs = e["request"], e["response"]
    pd = rq.get("postData")
    return " ".join([tx(rq["method"]), tx(rq["url"]), tx(rq["httpVersion"]),
                     show_hdrs([(tx(h["name"]), tx(h["value"])) for h in rq["headers"]]),
                     "!" if pd is None else tx(pd["text"]), str(rs["status"]), tx(rs["httpVersion"]),
                     show_hdrs([(tx(h["name"]), tx(h["value"])) for h in rs["headers"]]),
                     tx(rs["content"]["text"]), tx(rs["content"]["encoding"]) if "encoding" in rs["content"] else "!"])


def raw_view(f):
    rq, rs = f.request, f.response
    return " ".join([hx(rq.data.method), tx(rq.pretty_url), hx(rq.data.http_version), show_hdrs(_h(rq.headers.fields)),
                     hx(rq.raw_content), str(rs.status_code), hx(rs.data.http_version), show_hdrs(_h(rs.headers.fields)),
                     hx(rs.raw_content)])


def no_cl(hs):
    return [[unhx(k).lower(), unhx(v)] for k, v in hs if unhx(k).lower() != b"content-length"]


def names_lower(hs):
    return [[unhx(k).lower(), unhx(v)] for k, v in hs]


QUANTIFIED_VERSIONS = ("HTTP/1.1", "HTTP/2.0", "HTTP/3")   # statement: versions (HTTP/1.1, HTTP/2, HTTP/3)

# finding id -> (guard conjunct whose failure puts a flow into the class, failure tags the class can cause)
FINDINGS = [
    ("F-C41a", "ver", ("version",)),
    ("F-C41b", "method", ("url",)),
    ("F-C41c", "urlparse", ("import-failed",)),
    ("F-C41c", "url", ("url",)),
    ("F-C41d", "host", ("request-headers",)),
    ("F-C41e", "req_noce", ("request-headers", "request-body")),
    ("F-C41e", "resp_noce", ("response-headers", "response-body")),
    ("F-C41f", "reqtext", ("request-headers", "request-body")),
    ("F-C41g", "respcl", ("response-headers",)),
    ("F-C41h", "resptext", ("response-headers", "response-body")),
]


class Check(PropertyCheck):
    prop = "C41"
    design_ref = "§5 C41"
    level_text = ("Lean theorems import_export_preserves_partial / _guarded / _transcribed: for EVERY list of flows and every "
                  "set of library primitives obeying the stated codec laws, the model of SaveHar.flow_entry/make_har -> json -> "
                  "har.request_to_flow - including the Message.get_content/get_text/set_content/set_text/decode and Headers "
                  "operations it calls AND transcriptions of strutils.is_mostly_bin, infer_content_encoding, parse_content_type/"
                  "assemble_content_type, set_text's Content-Type rewrite AND (round 4, over the C33 model) url.parse / hostport / unparse / "
                  "parse_authority / Request.url / pretty_url - succeeds and returns the flows in order with the "
                  "same method, URL, request fields apart from Content-Length, request body (POST/PUT/PATCH), status, response "
                  "fields, decoded response body and HTTP version, provided each flow passes a decidable guard with one conjunct "
                  "per recorded defect class (F-C41a..h); the unguarded statement is refuted in Lean on concrete flows "
                  "(import_export_preserves_counterexample*: one refutation per guard conjunct - version, coding, length, host, and since round 6 "
                  "connect, urlparse, reqtext, resptext - so every conjunct of the guard is individually necessary). infer_header_charset / infer_no_sniff / gRespText_of_roundtrip / "
                  "gReqText_of_roundtrip / mostlyBin_printable reduce the text conjuncts of the guard to input properties plus a "
                  "codec round trip on the body; urlHostport_getter / urlPretty_getter / url_guards_of_getter turn the URL and Host "
                  "conjuncts (F-C41c/d) into theorems for every flow whose URL is scheme://host[:port]/path with http/https, a lower-case "
                  "ASCII host, port 1..65535, ASCII path and whose Host field is absent or exactly host[:port]; "
                  "import_export_preserves_url_transcribed is the guarded round trip over that library. Round 5: is_valid_host (C13.validHostT), "
                  "_check_bracketed_host (IPvFuture regex + C22.parseIp) and the ASCII fast paths of the idna codec are transcribed too "
                  "(Model/C41_Host.lean, tied by the `hf` driver op on a pool of host texts and by every flow case); dns_host_lib_facts / "
                  "getterUrlOk_of_dns / url_guards_of_dns_name discharge the former library hypotheses idnaAscii, hostValid, bracketedOk "
                  "for DNS-name hosts, so F-C41c/d are excluded from input properties alone; import_export_preserves_host_transcribed. "
                  "Clause table (statement clause -> theorem / oracle clause): method, URL, request fields apart from Content-Length, "
                  "request body for POST/PUT/PATCH, status, response fields, decoded response body -> the seven conjuncts of sameButVer "
                  "in import_export_preserves_partial / oracle clauses method[i], url[i], request-headers[i], request-body[i], status[i], "
                  "response-headers[i], response-body[i]; HTTP version -> the gVer conclusion of _partial and `same` in _guarded / "
                  "version[i]; 'yields flows ... in the same order' -> the existential + InOrder of _partial/_guarded and roundtrip_length / "
                  "import-failed and count, on each route (file, @mem, @hardump). Tie per flow: exported HAR entry fields, the re-imported flow field by field "
                  "(exact header spelling/order, raw bodies, versions, import failure), the nine guard bits, and the model's own "
                  "predictions of is_mostly_bin / infer_content_encoding / the rewritten Content-Type must equal the real code.")
    level_note = ("partial by necessity: the code violates the full statement in 8 classes (known/C41.json), so the universal "
                  "theorem carries the guard guardButVer/gVer. Still parameters (Prim): utf-8/surrogateescape, str.upper/lower/"
                  "strip, UTF-8 validity, base64, content codings, charset codecs, the three re.search calls of "
                  "infer_content_encoding, and of the URL side only the SLOW path of the IDNA codec (decoding names that contain xn--, "
                  "encoding non-ASCII names; C13.Idna.idnaOf would reduce the former to the nameprep tables) - urlsplit's scheme/netloc "
                  "reading, hostname/port, the re-assembly of the rest, hostport, unparse, parse_authority, pretty_url, is_valid_host, "
                  "_check_bracketed_host and the idna fast paths are transcribed; for IPv6-literal hosts the C33 fact bracketedOk and for "
                  "all hosts the input condition restStable (normRestPy scheme path = path) stay hypotheses of the URL theorems; and JSON; assumed laws: "
                  "senc(sdec b)=b, ASCII fixed, method upper/encode round trip, b64decode(b64encode b)=b, json.loads(json.dumps x)=x. "
                  "Their answers are passed per case from the real functions (driver reports lib-miss if it needs an answer it was "
                  "not given; ASCII cases of sdec/senc/lower/strip/utf8 are computed by the driver). "
                  "The model's list functions roundtrip/importAll are executed on the whole list of every multi-flow case (driver op rtl: all "
                  "imported flows in order, or `fail` when one entry fails - as FlowReader loses the whole file), single flows by op rt. "
                  "The theorems' comparison `same` is EXACT on header field names, spelling and order; the oracle asks less of the code - it "
                  "compares header names case-folded (HTTP field names are case-insensitive) and request fields apart from Content-Length - so "
                  "`same` is the model's (stronger) conclusion, not the oracle's comparison; the exact spelling/order of the real imported "
                  "headers is nevertheless compared with the model by the tie. "
                  "Routes: every case is exported by the real save.har command (export_har) to a FILE and read back with "
                  "read_flows_from_paths (the statement's route), additionally through make_har/json.dumps/FlowReader in memory (@mem, the "
                  "route the model tie uses: the file serialisation itself - json.dumps/loads and the UTF-8 file encoding - is the Json "
                  "parameter of the model, only its law is assumed) and through the hardump option (SaveHar.done); the oracle is applied to "
                  "each route. .zhar (zlib) files are not generated: FlowReader does not read them. "
                  "Outside the model: flows without response, missing (None) bodies, websocket messages, cookies/query/timing "
                  "fields of the HAR entry, trailers, charset names that denote byte-to-byte codecs; HTTP/1.0 is generated but "
                  "its version is outside the statement's quantifier and not demanded. Which oracle failures count as instances of a "
                  "recorded finding is decided by known(): the observed deviation must EQUAL the deviation the finding predicts for "
                  "this input, computed by the harness' own reference (ref_predict: ref_infer + CPython codecs, ref_url_risky), not "
                  "from the answers of the library under test; known_selftest() checks positives and near misses on every run.")
    technique = "Lean 4 proof (field mapping model, codecs as parameters with laws) + per-flow differential correspondence with the real export/import"
    rule = ("small-scope sweep first (methods x versions x body kinds x Content-Length/Content-Encoding/Host variants), then "
            "random flows: methods incl. lower-case/CONNECT/extension, HTTP/1.1 / 2.0 / 3 (/1.0), header sets with duplicates, "
            "case variants, empty / non-ASCII / non-UTF-8 values, plus tie-only `hostfn` cases (host texts: IPv6/IPvFuture/IPv4 literals, DNS names, "
            "long/empty labels, xn--, non-ASCII, mutated) for the host transcriptions, content types with good, bad and sniffed charsets, content "
            "codings (valid, invalid, mismatching), text/binary/BOM/mixed bodies, mis-labelled bodies (declared charset x bytes that are "
            "valid in it / valid UTF-8 instead / contain 0x81 0x8d 0x8f 0x90 0x9d / binary), Host variants, 1-3 flows per file. "
            "distinct = distinct case; every case is non-trivial (a full export+import).")
    has_model = True
    parallel = False
    budget = {"quick": 1000, "thorough": 30000}
    time_budget = {"quick": 25, "thorough": 480}
    fingerprints = ["mitmproxy.addons.savehar:SaveHar.flow_entry", "mitmproxy.addons.savehar:SaveHar.make_har",
                    "mitmproxy.addons.savehar:SaveHar.export_har", "mitmproxy.addons.savehar:SaveHar.done",
                    "mitmproxy.io.io:read_flows_from_paths",
                    "mitmproxy.addons.savehar:SaveHar.format_multidict", "mitmproxy.io.har:fix_headers",
                    "mitmproxy.io.har:request_to_flow", "mitmproxy.io.io:FlowReader.stream",
                    "mitmproxy.http:Message.get_content", "mitmproxy.http:Message.set_content",
                    "mitmproxy.http:Message.get_text", "mitmproxy.http:Message.set_text", "mitmproxy.http:Message.decode",
                    "mitmproxy.http:Request.make", "mitmproxy.http:Request._update_host_and_authority",
                    "mitmproxy.coretypes.multidict:_MultiDict.set_all", "mitmproxy.utils.strutils:is_mostly_bin",
                    "mitmproxy.net.http.headers:infer_content_encoding", "mitmproxy.net.http.headers:parse_content_type",
                    "mitmproxy.net.http.headers:assemble_content_type", "mitmproxy.net.http.url:parse",
                    "mitmproxy.net.http.url:hostport", "mitmproxy.net.http.url:unparse", "mitmproxy.net.http.url:parse_authority",
                    "mitmproxy.http:Request.url", "mitmproxy.http:Request.pretty_url", "mitmproxy.http:Request.host_header",
                    "mitmproxy.net.check:is_valid_host"]
    trusted_base = ["CPython codecs (utf-8/surrogateescape, charset codecs), base64, json, zlib/brotli/zstd, urllib as the "
                    "library parameters of the model (answers taken from the real functions per case; laws assumed)",
                    "urllib.parse.urlsplit / ipaddress / the idna codec behind mitmproxy.net.http.url, transcribed via the C33, C13 and C22 models (their own checks tie them); IDNA slow path a parameter"]

    HOSTFN_POOL = ["::1", "fe80::1%eth0", "2001:db8::ff00:42:8329", "::ffff:1.2.3.4", "1.2.3.4", "1:2", ":::", "v1.x", "vF.a:b", "v.x", "vg.x",
                   "v1.", "v1.a\nb", "example.com", "EXAMPLE.com.", "a_b.example", "-x.example", "a..b", ".", "", "a" * 63 + ".com", "a" * 64 + ".com",
                   ".".join(["abcdefgh"] * 29), "xn--bcher-kva.example", "xn--a.example", "xn--", "b\u00fccher.example", "\u00e9", "exa mple.com",
                   "example.com\n", "1.2.3.256", "01.2.3.4", "localhost", "192.0.2.7", "[::1]", "::1]", "%", "a%b"]

    def hostfn(self, text):
        import urllib.parse
        from mitmproxy.net import check as ncheck
        lt = LibTable(); lt.idna_prims(text)
        try: urllib.parse._check_bracketed_host(text); vb = 1
        except ValueError: vb = 0
        try: rt = tx(text.encode("idna").decode("idna"))
        except UnicodeError: rt = "!"
        table = ";".join(f"{k}={v}" for k, v in lt.t.items()) or "-"
        return f"{vb} {1 if ncheck.is_valid_host(text) else 0} {rt}", f"hf {tx(text)} {table}"

    def impl(self, case):
        if case.get("kind") == "hostfn":
            # tie-only case kind for the transcriptions of Model/C41_Host.lean (no clause of the property is asked here)
            real, _ = self.hostfn(unhx(case["text_hex"]).decode("utf-8", "surrogatepass"))
            return {"stage": "hostfn", "tie": [real], "guards": [], "refs": [], "orig": [], "routes": {}}
        flows = [build_flow(fc) for fc in case["flows"]]
        orig = [view(f) for f in flows]
        guards = [guard_bits(f) for f in flows]
        # the same conjuncts with the charset questions answered by the harness' reference instead of the code under
        # test, plus input properties for the URL/Host classes: only these decide what known() may excuse
        refs = []
        for f, g in zip(flows, guards):
            r = guard_bits(f, RefLib())
            ru, rh_ = ref_url_risky(f)
            d = {"ver": g["ver"], "method": g["method"], "urlparse": g["urlparse"] or not ru, "url": g["url"] or not ru,
                 "host": g["host"] or not rh_, "req_ce": g["req_ce"], "resp_ce": g["resp_ce"], "noce": g["noce"],
                 "reqtext": r["reqtext"], "respcl": g["respcl"], "resptext": r["resptext"]}
            d.update(ref_predict(f))
            refs.append(d)
        try:
            har = SaveHar().make_har(flows)
            data = json.dumps(har, indent=4).encode()
        except Exception as e:
            return {"orig": orig, "stage": "export-failed", "err": type(e).__name__, "tie": None, "guards": guards, "refs": refs}
        # per-entry view for the model tie: the HAR entry written and the flow request_to_flow makes of it
        tie = []; imported = []
        for e in json.loads(data)["log"]["entries"]:
            reset_cache()
            try: i = raw_view(request_to_flow(e))
            except Exception: i = "fail"
            fl = flows[len(tie)]
            imported.append(i)
            tie.append(f"E {entry_view(e)} I {i} G {bits_str(guards[len(tie)])} P {predictions(fl)}")
        if len(flows) >= 2:
            # the whole list through the model's `roundtrip`/`importAll` (driver op rtl): all flows in order, or the file is lost
            tie.append("L fail" if "fail" in imported else f"L {len(imported)} " + " / ".join(imported))
        def read(fn):
            reset_cache()
            try:
                return {"stage": "ok", "err": None, "back": [view(f) for f in fn()]}
            except exceptions.FlowReadException as e:
                c = e.__context__
                return {"stage": "import-failed", "err": type(c).__name__ if c else "FlowReadException", "back": None}
        # route "file": the save.har command (export_har) writes a FILE, read_flows_from_paths reads it
        d = os.path.join(WORK, "c41"); os.makedirs(d, exist_ok=True)
        path = os.path.join(d, f"rt-{os.getpid()}.har")
        try:
            SaveHar().export_har(flows, path)
            file_bytes = open(path, "rb").read()
        except Exception as e:
            return {"orig": orig, "stage": "export-failed", "err": type(e).__name__, "tie": tie, "guards": guards, "refs": refs, "routes": {}}
        rfile = read(lambda: read_flows_from_paths([path]))
        # route "mem": make_har -> json.dumps -> FlowReader on the bytes (what the harness did before round 6)
        routes = {"mem": read(lambda: list(FlowReader(io.BytesIO(data)).stream()))}
        # route "hardump": the hardump option, written by SaveHar.done()
        path2 = os.path.join(d, f"rt-{os.getpid()}-dump.har")
        try:
            sa = SaveHar()
            with taddons.context(sa) as tctx:
                tctx.configure(sa, hardump=path2)
                for f in flows: sa.response(f)
                sa.done()
            dump_bytes = open(path2, "rb").read()
            if dump_bytes != file_bytes:
                routes["hardump"] = read(lambda: read_flows_from_paths([path2]))
        except Exception as e:
            routes["hardump"] = {"stage": "export-failed", "err": type(e).__name__, "back": None}
        finally:
            for p_ in (path, path2):
                try: os.unlink(p_)
                except OSError: pass
        return {"orig": orig, "stage": rfile["stage"], "err": rfile["err"], "back": rfile["back"], "tie": tie, "guards": guards,
                "refs": refs, "routes": routes}

    def model_lines(self, case):
        if case.get("kind") == "hostfn":
            return [self.hostfn(unhx(case["text_hex"]).decode("utf-8", "surrogatepass"))[1]]
        lines = [flow_line(build_flow(fc)) for fc in case["flows"]]
        if len(lines) >= 2:
            lines.append("rtl " + " ".join(l[3:] for l in lines))
        return lines

    def model_obs(self, case, replies):
        return list(replies)

    def impl_view(self, case, obs):
        return obs["tie"]

    # The statement: "Exporting HTTP flows to a HAR file and importing that file again yields flows with the same
    # request method, URL, HTTP version, request header fields (apart from a recomputed Content-Length), request body
    # for POST, PUT and PATCH requests, response status code, response header fields and decoded response body, in the
    # same order."  One failure string per named field: "<field>[i]: ...".
    def oracle(self, case, obs):
        """the statement, applied to every export/import route: the save.har FILE read back with read_flows_from_paths
        (failures without suffix), the in-memory make_har/json/FlowReader route (@mem) and, when its file differs from
        the save.har file, the hardump-option file (@hardump)"""
        if obs["stage"] == "hostfn": return []
        fails = self.oracle_route(obs, obs["stage"], obs.get("err"), obs.get("back"), "")
        for name, r in (obs.get("routes") or {}).items():
            fails += self.oracle_route(obs, r["stage"], r["err"], r["back"], "@" + name)
        return fails

    def oracle_route(self, obs, stage, err, back, sfx):
        if stage != "ok":
            return [f"{stage}{sfx}: {err}"]
        o, b = obs["orig"], back
        if len(o) != len(b):
            return [f"count{sfx}: exported {len(o)} flows, imported {len(b)}"]
        fails = []
        for i, (x, y) in enumerate(zip(o, b)):
            t = f"[{i}]{sfx}"
            if x["method"] != y["method"]: fails.append(f"method{t}: {x['method']} -> {y['method']}")
            if x["url"] != y["url"]: fails.append(f"url{t}: {unhx(x['url'])!r} -> {unhx(y['url'])!r}")
            if x["ver"] in QUANTIFIED_VERSIONS and x["ver"] != y["ver"]: fails.append(f"version{t}: {x['ver']} -> {y['ver']}")
            if no_cl(x["rh"]) != no_cl(y["rh"]): fails.append(f"request-headers{t}: {no_cl(x['rh'])} -> {no_cl(y['rh'])}")
            if unhx(x["method"]) in (b"POST", b"PUT", b"PATCH") and x["rbody"] != y["rbody"]:
                fails.append(f"request-body{t}: {x['rbody']} -> {y['rbody']}")
            if x["status"] != y["status"]: fails.append(f"status{t}: {x['status']} -> {y['status']}")
            if names_lower(x["sh"]) != names_lower(y["sh"]):
                fails.append(f"response-headers{t}: {names_lower(x['sh'])} -> {names_lower(y['sh'])}")
            if x["sbody"] != y["sbody"]: fails.append(f"response-body{t}: {x['sbody']} -> {y['sbody']}")
        return fails

    # ------------------------------------------------------------------ generator
    HOSTS = ["example.com"] * 4 + ["a.example.org"] * 3 + ["192.0.2.7"] * 3 + ["localhost"] * 3 + ["xn--bcher-kva.example"]
    PATHS = [b"/", b"/index.html", b"/a/b?x=1&y=2", b"/q?x=%C3%A9", b"/s%20p", b"/p;v=1?q#f", b"*"] * 3 + [b"/\xc3\xa9"]
    CTS = [b"text/plain", b"text/plain; charset=utf-8", b"text/plain; charset=latin-1", b"text/html", b"application/json",
           b"application/octet-stream", b"image/png", b"text/css", b"application/x-www-form-urlencoded",
           b"text/plain; charset=utf-16", b"text/plain; charset=bogus", b"text/html; charset=gbk", b"application/xml",
           b"multipart/form-data; boundary=xx", b"text/plain; charset=ISO-8859-1", b"text/html; charset=iso-8859-1",
           b"text/plain; charset=us-ascii", b"text/plain; charset=windows-1252", b"text/plain; charset=shift_jis",
           b"text/plain; charset=UTF-8", b"application/x-www-form-urlencoded; charset=ISO-8859-1"]
    # declared charset x what the bytes really are (mis-labelled bodies)
    LABELS = ["ISO-8859-1", "iso-8859-1", "us-ascii", "latin-1", "latin1", "utf-8", "UTF-8", "windows-1252", "cp1252",
              "shift_jis", "iso-8859-15", "koi8-r", "ascii", "utf-16", "gbk"]
    MISTEXTS = ["P\u00c1GINA NO ENCONTRADA", "T\u00cdTULO: \u00ddmir y \u00d0\u00f3rr", "NA\u00cfVE caf\u00e9", "\u00c1", "plain ascii",
                "\u20ac 5 \u201cquoted\u201d \u2013 dash", "\u00e9\u00e8\u00ea \u00fc\u00f6\u00e4 \u00df", "\u65e5\u672c\u8a9e", "\u041f\u0440\u0438\u0432\u0435\u0442"]
    ODD = [0x81, 0x8d, 0x8f, 0x90, 0x9d, 0x80, 0xa0, 0xff]
    CODINGS = [b"gzip", b"deflate", b"br", b"zstd", b"identity", b"bogus", b"GZIP"]
    HDR_POOL = [(b"Accept", b"*/*"), (b"accept", b"text/html"), (b"X-A", b"1"), (b"X-A", b"2"), (b"x-a", b"3"),
                (b"User-Agent", b"ua/1.0 (x; y)"), (b"Cookie", b"a=b; c=d"), (b"Cookie", b"e=f"),
                (b"X-Empty", b""), (b"X-Utf8", "é€".encode()), (b"X-Latin1", b"caf\xe9"), (b"X-Astral", "\U0001f600 \U00010348".encode()),
                (b"X-SurrBytes", b"a\xed\xb3\xa9b"), (b"X-Hi", b"\x80\xff\xfe"), (b"X-Trunc", b"ok \xe2\x82"), (b"X-Sp", b"a  b\tc"),
                (b"Referer", b"http://example.com/?q=\"x\""), (b"X-Bs", b"a\\b"), (b"Connection", b"keep-alive")]
    SHDR_POOL = [(b"Server", b"nginx"), (b"Set-Cookie", b"a=b; Path=/; HttpOnly"), (b"Set-Cookie", b"c=d; Secure; SameSite=Lax"),
                 (b"set-cookie", b"e=f"), (b"Location", b"/x"), (b"Vary", b"Accept"), (b"vary", b"Cookie"),
                 (b"X-Utf8", "ü".encode()), (b"X-Latin1", b"\xfc"), (b"X-Astral", "\U0001f680".encode()), (b"X-SurrBytes", b"\xed\xa0\x80"),
                 (b"X-Hi", b"\xc0\xaf \xf5"), (b"Cache-Control", b"no-cache"), (b"X-Empty", b""),
                 (b"Date", b"Mon, 01 Jan 2024 00:00:00 GMT")]
    TEXTS = ["hello", "hello world\n" * 12, "héllo wörld €", "{\"a\": [1, 2, \"é\"]}", "a=1&b=2&c=%C3%A9",
             "<html><head><meta charset=\"latin-1\"></head><body>café</body></html>", "@charset \"utf-8\";\nbody{}",
             "<?xml version=\"1.0\" encoding=\"iso-8859-1\"?><a>é</a>", "﻿bom text", "日本語のテキスト", "x" * 300, "tab\tcr\r\nlf", "astral \U0001f600 text \U00010348 end",
             "mostly ascii text with an astral \U0001f4a9 char " * 3]

    def gen_mislabelled(self, rng):
        """(content-type, body): declared charset x actual bytes that are (a) valid in the declared charset,
        (b) valid UTF-8 whatever the label says, (c) text with bytes undefined in common code pages, (d) binary"""
        label = rng.pick(self.LABELS)
        ct = rng.pick([b"text/plain", b"text/html", b"application/x-www-form-urlencoded", b"text/csv"]) + b"; charset=" + label.encode()
        t = rng.pick(self.MISTEXTS)
        k = rng.weighted([(3, "a"), (4, "b"), (2, "c"), (1, "d")])
        if k == "a":
            try: return ct, t.encode(label)
            except (UnicodeError, LookupError): return ct, t.encode("utf-8")
        if k == "b": return ct, t.encode("utf-8")
        if k == "c":
            b = bytearray(("some text " + t).encode("latin-1", "replace") * rng.randint(1, 3))
            for _ in range(rng.randint(1, 2)): b.insert(rng.randint(0, len(b)), rng.pick(self.ODD))
            return ct, bytes(b)
        return ct, rng.bytes_(rng.pick([3, 30, 120]))

    def gen_body(self, rng, ct):
        k = rng.weighted([(2, "empty"), (5, "text"), (2, "bin"), (1, "enc"), (1, "bom"), (1, "mixed")])
        if k == "empty": return b""
        if k == "text":
            t = rng.pick(self.TEXTS)
            enc = rng.weighted([(6, "utf-8"), (2, "latin-1"), (1, "utf-16"), (1, "gbk")])
            try: return t.encode(enc)
            except UnicodeError: return t.encode("utf-8")
        if k == "bin":
            return rng.bytes_(rng.pick([1, 4, 40, 130]))
        if k == "enc":
            return rng.pick(self.TEXTS).encode("utf-8")
        if k == "bom":
            return rng.pick([b"\xff\xfe", b"\xfe\xff", b"\xef\xbb\xbf", b"\xff\xfe\x00\x00", b"\x00\x00\xfe\xff"]) + rng.pick(self.TEXTS).encode("utf-16le")[:rng.randint(0, 20)]
        t = bytearray(rng.pick(self.TEXTS).encode("utf-8"))
        for _ in range(rng.randint(1, 3)):
            t.insert(rng.randint(0, len(t)), rng.getrandbits(8))
        return bytes(t)

    def code_body(self, rng, body, coding):
        c = coding.lower()
        try:
            if c == b"gzip": return gzip.compress(body, mtime=0) if rng.chance(0.7) else zlib.compress(body)
            if c == b"deflate": return zlib.compress(body)
            if c == b"br":
                import brotli; return brotli.compress(body)
            if c == b"zstd":
                from mitmproxy.net.encoding import encode_zstd; return encode_zstd(body)
        except Exception:
            pass
        return body

    def gen_msg(self, rng, pool, is_req, ver):
        hs = []
        for _ in range(rng.weighted([(2, 0), (3, 1), (3, 3), (2, 6)])):
            hs.append(rng.pick(pool))
        ct = rng.pick(self.CTS) if rng.chance(0.7) else None
        body = self.gen_body(rng, ct)
        if rng.chance(0.25):
            ct, body = self.gen_mislabelled(rng)
        if ct is not None:
            hs.insert(rng.randint(0, len(hs)), (rng.pick([b"Content-Type", b"content-type", b"CONTENT-TYPE"]), ct))
        if rng.chance(0.12 if not is_req else 0.04):
            coding = rng.pick(self.CODINGS)
            if rng.chance(0.85): body = self.code_body(rng, body, coding)
            hs.insert(rng.randint(0, len(hs)), (rng.pick([b"Content-Encoding", b"content-encoding"]), coding))
        r = rng.random()
        if r < 0.55:
            hs.insert(rng.randint(0, len(hs)), (rng.pick([b"Content-Length", b"content-length"]), str(len(body)).encode()))
        elif r < 0.62:
            hs.insert(rng.randint(0, len(hs)), (b"Content-Length", str(len(body) + rng.randint(1, 5)).encode()))
        elif r < 0.70 and ver == "HTTP/1.1":
            hs.insert(rng.randint(0, len(hs)), (b"Transfer-Encoding", b"chunked"))
        if rng.chance(0.03):
            hs.insert(rng.randint(0, len(hs)), (b"Content-Length", str(len(body)).encode()))
        return hs, body

    def gen_flow(self, rng):
        ver = rng.weighted([(5, "HTTP/1.1"), (3, "HTTP/2.0"), (2, "HTTP/3"), (0.4, "HTTP/1.0")])
        method = rng.weighted([(5, b"GET"), (4, b"POST"), (2, b"PUT"), (2, b"PATCH"), (1, b"DELETE"), (1, b"HEAD"),
                               (1, b"OPTIONS"), (0.4, b"post"), (0.3, b"CONNECT"), (0.3, b"M-SEARCH")])
        scheme = rng.pick(["http", "https"])
        host = rng.pick(self.HOSTS)
        port = rng.weighted([(7, 80 if scheme == "http" else 443), (2, 8080), (1, 443 if scheme == "http" else 80)])
        path = rng.pick(self.PATHS) if method == b"OPTIONS" else rng.pick([p for p in self.PATHS if p != b"*"])
        hp = host if port == (80 if scheme == "http" else 443) else f"{host}:{port}"
        rh, rbody = self.gen_msg(rng, self.HDR_POOL, True, ver)
        if method not in (b"POST", b"PUT", b"PATCH", b"post") and rng.chance(0.8):
            rbody = b""
            rh = [(k, v) for k, v in rh if k.lower() not in (b"content-length", b"content-encoding", b"transfer-encoding")]
        authority = b""
        if ver in ("HTTP/2.0", "HTTP/3"):
            authority = hp.encode()
            if rng.chance(0.15): rh.insert(0, (b"host", hp.encode()))
        else:
            r = rng.random()
            if r < 0.75: rh.insert(0, (rng.pick([b"Host", b"host"]), hp.encode()))
            elif r < 0.80: rh.insert(0, (b"Host", f"{host}:{port}".encode()))
            elif r < 0.85: rh.insert(0, (b"Host", hp.upper().encode()))
            elif r < 0.90: rh.insert(0, (b"Host", b"other.example.net"))
            elif r < 0.93: rh.insert(rng.randint(0, len(rh)), (b"Host", hp.encode())); rh.append((b"Host", hp.encode()))
        if method == b"CONNECT":
            authority = f"{host}:{port}".encode(); path = b""
        sver = ver if rng.chance(0.95) else rng.pick(["HTTP/1.1", "HTTP/2.0"])
        sh, sbody = self.gen_msg(rng, self.SHDR_POOL, False, sver)
        status = rng.weighted([(6, 200), (1, 201), (1, 204), (1, 301), (1, 304), (1, 404), (1, 500), (0.5, 999), (0.3, 600)])
        if status in (204, 304) and rng.chance(0.8):
            sbody = b""
        return {"method_hex": hx(method), "scheme": scheme, "host": host, "port": port, "path_hex": hx(path),
                "authority_hex": hx(authority), "ver": ver, "rh": _h(rh), "rbody_hex": hx(rbody),
                "status": status, "sver": sver, "sh": _h(sh), "sbody_hex": hx(sbody)}

    def sweep(self):
        """small scope, systematic: method x version x request body x response body/headers variants"""
        bodies = [b"", b"hello", "h\u00e9llo".encode(), bytes(range(0, 40)), b"\xff\xfe\x00\x01"]
        # declared charset x UTF-8 / single-byte spellings of letters whose UTF-8 or cp125x bytes are "odd" (0x81 0x8d 0x8f 0x90 0x9d)
        for label in ("ISO-8859-1", "us-ascii", "latin1", "utf-8", "windows-1252", "shift_jis"):
            for text in ("P\u00c1GINA", "T\u00cdTULO \u00dd \u00d0 \u00cf", "caf\u00e9", "\u20ac"):
                for enc in ("utf-8", "latin-1", "cp1252"):
                    try: b = text.encode(enc)
                    except UnicodeError: continue
                    ctv = b"text/plain; charset=" + label.encode()
                    for method in (b"GET", b"POST"):
                        yield {"flows": [{
                            "method_hex": hx(method), "scheme": "http", "host": "example.com", "port": 80, "path_hex": hx(b"/m"),
                            "authority_hex": "-", "ver": "HTTP/1.1",
                            "rh": _h([(b"Host", b"example.com")] + ([(b"Content-Type", ctv), (b"Content-Length", str(len(b)).encode())] if method == b"POST" else [])),
                            "rbody_hex": hx(b if method == b"POST" else b""), "status": 200, "sver": "HTTP/1.1",
                            "sh": _h([(b"Content-Type", ctv), (b"Content-Length", str(len(b)).encode())]), "sbody_hex": hx(b)}]}
        for method in (b"GET", b"POST", b"PUT", b"PATCH", b"DELETE", b"HEAD", b"OPTIONS"):
            for ver in ("HTTP/1.1", "HTTP/2.0", "HTTP/3"):
                for rb in (bodies if method in (b"POST", b"PUT", b"PATCH") else [b""]):
                    for sb in bodies:
                        for variant in ("cl", "nocl", "te", "gzip", "ct-utf8", "ct-latin1"):
                            rh = [(b"Host", b"example.com")] if ver == "HTTP/1.1" else []
                            if rb: rh += [(b"Content-Type", b"text/plain; charset=utf-8"), (b"Content-Length", str(len(rb)).encode())]
                            body = sb; sh = [(b"Server", b"s")]
                            if variant == "cl": sh.append((b"Content-Length", str(len(sb)).encode()))
                            elif variant == "te": sh.append((b"Transfer-Encoding", b"chunked"))
                            elif variant == "gzip":
                                body = gzip.compress(sb, mtime=0)
                                sh += [(b"Content-Encoding", b"gzip"), (b"Content-Length", str(len(body)).encode())]
                            elif variant == "ct-utf8":
                                sh += [(b"Content-Type", b"text/html; charset=utf-8"), (b"Content-Length", str(len(sb)).encode())]
                            elif variant == "ct-latin1":
                                sh += [(b"Content-Type", b"text/plain; charset=latin-1"), (b"Content-Length", str(len(sb)).encode())]
                            yield {"flows": [{
                                "method_hex": hx(method), "scheme": "http", "host": "example.com", "port": 80,
                                "path_hex": hx(b"/p?q=1"), "authority_hex": hx(b"" if ver == "HTTP/1.1" else b"example.com"),
                                "ver": ver, "rh": _h(rh), "rbody_hex": hx(rb), "status": 200, "sver": ver, "sh": _h(sh),
                                "sbody_hex": hx(body)}]}

    def generate(self, rng, tier):
        sw = list(self.sweep())
        if tier == "quick":
            sw = [c for i, c in enumerate(sw) if i < 120 or i % 4 == rng.randint(0, 3)]
        yield from sw
        for t in self.HOSTFN_POOL:
            yield {"kind": "hostfn", "text_hex": tx(t)}
        while True:
            if rng.chance(0.03):
                t = rng.pick(self.HOSTFN_POOL)
                if rng.chance(0.5) and t:
                    i = rng.randint(0, len(t) - 1)
                    t = t[:i] + rng.pick([":", ".", "%", "v", "x", "-", "_", "0", "f", "]", "\n", "\u00fc", "xn--"]) + t[i + rng.randint(0, 1):]
                yield {"kind": "hostfn", "text_hex": tx(t)}
                continue
            n = rng.weighted([(8, 1), (1, 2), (1, 3)])
            yield {"flows": [self.gen_flow(rng) for _ in range(n)]}

    def classify(self, case, obs):
        return json.dumps(case, sort_keys=True)

    def branches(self, case, obs):
        if obs["stage"] == "hostfn": return ["kind:hostfn:" + obs["tie"][0][:3]]
        out = ["stage:" + obs["stage"], f"flows:{len(case['flows'])}"]
        for fc, g in zip(case["flows"], obs["guards"]):
            out.append("ver:" + fc["ver"]); out.append("method:" + unhx(fc["method_hex"]).decode().upper())
            bad = [k for k in BITS if not g[k]]
            out.append("guard:all-hold" if not bad else "guard:fails:" + "+".join(bad))
        for g, r in zip(obs["guards"], obs["refs"]):
            d = [k for k in BITS if g[k] != r[k]]
            if d: out.append("guard-vs-reference-differs:" + "+".join(d))
        if obs["stage"] == "ok":
            out.append("oracle:" + ("pass" if not self.oracle(case, obs) else "fail"))
        return out

    def known(self, case, obs, failure):
        """A failure is an instance of a recorded finding iff the observed deviation of that field EQUALS what the
        finding says happens to this input, predicted by the harness' own reference (ref_predict: ref_infer + CPython
        codecs, input properties for the URL/Host classes) - never "some failure on an input that looks like the
        class".  The bits computed from the code's own library answers (obs["guards"]) are only compared with the
        Lean guard by the tie."""
        tag = failure.split(":", 1)[0]
        stage, err, back = obs["stage"], obs.get("err"), obs.get("back")
        if "@" in tag:
            tag, route = tag.split("@", 1)
            R = (obs.get("routes") or {}).get(route)
            if R is None: return None
            stage, err, back = R["stage"], R["err"], R["back"]
        if tag.startswith("import-failed"):
            # F-C41c: url.parse raises on the exported URL of some flow, with the predicted exception
            return "F-C41c" if stage == "import-failed" and any(err in r["urlfail"] for r in obs["refs"]) else None
        if "[" not in tag or stage != "ok": return None
        field, idx = tag[:-1].split("["); i = int(idx)
        x, y, r = obs["orig"][i], back[i], obs["refs"][i]
        body_ok = y["sbody"] == x["sbody"] or (y["sbody"] is not None and y["sbody"] == r["pred_sbody"])
        if field == "version":
            # F-C41a: exactly "HTTP/2.0" -> "HTTP/1.1"
            return "F-C41a" if (x["ver"], y["ver"]) == ("HTTP/2.0", "HTTP/1.1") else None
        if field == "url":
            if r["connect"]:                                 # F-C41b: CONNECT, imported URL is empty
                return "F-C41b" if y["url"] == "-" else None
            if r["risky_url"] and url_norm(unhx(x["url"]).decode("utf-8", "surrogateescape")) == url_norm(unhx(y["url"]).decode("utf-8", "surrogateescape")):
                return "F-C41c"                              # same URL up to host case / IDNA spelling / empty path
            return None
        if field == "request-headers":
            exp, used = no_cl(x["rh"]), []
            got = no_cl(y["rh"])
            hosts = [v for k, v in exp if k == b"host"]
            if hosts and r["risky_host"]:
                import urllib.parse
                u = unhx(y["url"]).decode("utf-8", "surrogateescape") if not r["connect"] else r["eurl"]
                try:
                    sp = urllib.parse.urlsplit(u)
                    nl = sp.netloc
                    if r["connect"] and nl.endswith(":443"): nl = nl[:-4]
                    hp = nl.lower().encode("utf-8", "surrogateescape")
                except ValueError:
                    hp = None
                got_hosts = [v for k, v in got if k == b"host"]
                if hp is not None and got_hosts in ([hp], [unhx(y["url"])] if False else [hp]):
                    e2 = py_hset(exp, b"host", hp)
                    if e2 != exp: exp = e2; used.append("F-C41d")
            if any(k == b"content-encoding" for k, _ in exp) and not any(k == b"content-encoding" for k, _ in got):
                exp = [[k, v] for k, v in exp if k != b"content-encoding"]; used.append("F-C41e")
            if r["ct_rewrite"]:
                cts = [v for k, v in got if k == b"content-type"]
                if len(cts) == 1 and cts[0].lower().endswith(b"charset=utf-8"):
                    e2 = py_hset(exp, b"content-type", cts[0])
                    if e2 != exp: exp = e2; used.append("F-C41f")
            return used[0] if used and exp == got else None
        if field == "request-body":
            # F-C41f: the imported body is the reference's re-encoding of postData.text
            return "F-C41f" if y["rbody"] is not None and y["rbody"] == r["pred_rbody"] and y["rbody"] != x["rbody"] else None
        if field == "response-headers":
            if not body_ok: return None
            exp, got = names_lower(x["sh"]), names_lower(y["sh"])
            ce_removed = any(k == b"content-encoding" for k, _ in exp) and not any(k == b"content-encoding" for k, _ in got)
            if ce_removed: exp = [[k, v] for k, v in exp if k != b"content-encoding"]
            raw = unhx(y["sraw"]) if y["sraw"] is not None else b""
            if (raw or ce_removed) and not any(k == b"transfer-encoding" for k, _ in exp):
                exp = py_hset(exp, b"content-length", str(len(raw)).encode())
            if exp != got: return None
            if ce_removed: return "F-C41e"
            return "F-C41h" if y["sbody"] != x["sbody"] else "F-C41g"
        if field == "response-body":
            # F-C41h: the imported decoded body is the reference's re-encoding of content.text
            return "F-C41h" if y["sbody"] is not None and y["sbody"] == r["pred_sbody"] and y["sbody"] != x["sbody"] else None
        return None

    def shrink_candidates(self, case):
        """generic reductions, but never touch method / path / authority (an empty path or method is not a flow the
        generator can produce and fails for unrelated reasons)"""
        from common.check import generic_shrink
        if "flows" not in case: return
        keep = ("method_hex", "path_hex", "authority_hex")
        for c in generic_shrink(case):
            if len(c["flows"]) == len(case["flows"]) and any(a[k] != b[k] for a, b in zip(c["flows"], case["flows"]) for k in keep):
                continue
            yield c

    # ------------------------------------------------------------------ classifier self-test (notes/known_audit.txt)
    def setup(self, tier):
        self.known_selftest()

    def known_selftest(self):
        """per finding: the positive witness, (a) the same input with a DIFFERENT deviation, (b) an input just outside
        the class showing the same kind of deviation; known() must answer id / None / None.  Observations of the
        near misses are the real ones with the imported flow edited by hand."""
        import copy, gzip as _gz
        H = _h

        def base(**kw):
            fc = {"method_hex": hx(b"GET"), "scheme": "http", "host": "example.com", "port": 80, "path_hex": hx(b"/"),
                  "authority_hex": "-", "ver": "HTTP/1.1", "rh": H([(b"Host", b"example.com"), (b"X-A", b"1")]), "rbody_hex": "-",
                  "status": 200, "sver": "HTTP/1.1", "sh": H([(b"Server", b"s")]), "sbody_hex": "-"}
            fc.update(kw); return {"flows": [fc]}

        def edited(case, **edit):
            o = copy.deepcopy(self.impl(case))
            if "stage" in edit:
                o["stage"], o["err"] = edit["stage"], edit["err"]; return o
            for k, v in edit.items(): o["back"][0][k] = v
            return o

        def drop(hs, name):
            return [p for p in hs if unhx(p[0]).lower() != name]

        gz = _gz.compress(b"hello", mtime=0)
        html = b'<html><head><meta charset="latin-1"></head><body>caf\xe9</body></html>'
        h2 = base(ver="HTTP/2.0", sver="HTTP/2.0", authority_hex=hx(b"example.com"), rh=H([(b"X-A", b"1")]))
        h3 = base(ver="HTTP/3", sver="HTTP/3", authority_hex=hx(b"example.com"), rh=H([(b"X-A", b"1")]))
        con = base(method_hex=hx(b"CONNECT"), scheme="https", port=443, path_hex="-", authority_hex=hx(b"example.com:443"), rh=[])
        nonascii = base(path_hex=hx(b"/\xc3\xa9"))
        upper = base(rh=H([(b"Host", b"EXAMPLE.com"), (b"X-A", b"1")]))
        host80 = base(rh=H([(b"Host", b"example.com:80"), (b"X-A", b"1")]))
        gzr = base(sh=H([(b"Server", b"s"), (b"Content-Encoding", b"gzip"), (b"Content-Length", str(len(gz)).encode())]), sbody_hex=hx(gz))
        okr = base(sh=H([(b"Server", b"s"), (b"Content-Length", b"5")]), sbody_hex=hx(b"hello"))
        binp = base(method_hex=hx(b"POST"), rh=H([(b"Host", b"example.com"), (b"Content-Length", b"4")]), rbody_hex=hx(b"\xff\xfe\x00\x01"))
        okp = base(method_hex=hx(b"POST"), rh=H([(b"Host", b"example.com"), (b"Content-Length", b"5")]), rbody_hex=hx(b"hello"))
        nocl = base(sbody_hex=hx(b"hello"))
        te = base(sh=H([(b"Server", b"s"), (b"Transfer-Encoding", b"chunked")]), sbody_hex=hx(b"hello"))
        meta = base(sh=H([(b"Content-Type", b"text/html"), (b"Content-Length", str(len(html)).encode())]), sbody_hex=hx(html))
        plain = base()
        O = self.impl
        T = [
            # F-C41a
            (h2, O(h2), "version[0]", "F-C41a"),
            (h2, edited(h2, rh=[]), "request-headers[0]", None),                       # same input, other clause
            (h2, edited(h2, ver="HTTP/1.0"), "version[0]", None),                      # same input, other version outcome
            (h3, edited(h3, ver="HTTP/1.1"), "version[0]", None),                      # HTTP/3 must survive
            # F-C41b
            (con, O(con), "url[0]", "F-C41b"),
            (con, edited(con, url=hx(b"other.example:443")), "url[0]", None),
            (plain, edited(plain, url="-"), "url[0]", None),
            # F-C41c
            (nonascii, O(nonascii), "import-failed", "F-C41c"),
            (nonascii, edited(nonascii, stage="import-failed", err="TypeError"), "import-failed", None),
            (plain, edited(plain, stage="import-failed", err="UnicodeEncodeError"), "import-failed", None),
            (upper, O(upper), "url[0]", "F-C41c"),
            (upper, edited(upper, url=hx(b"http://example.com/other")), "url[0]", None),
            (plain, edited(plain, url=hx(b"http://example.com/x")), "url[0]", None),
            # F-C41d
            (host80, O(host80), "request-headers[0]", "F-C41d"),
            (host80, edited(host80, rh=drop(O(host80)["back"][0]["rh"], b"x-a")), "request-headers[0]", None),
            (host80, edited(host80, rh=H([(b"Host", b"evil.example"), (b"X-A", b"1")])), "request-headers[0]", None),
            (plain, edited(plain, rh=H([(b"Host", b"example.org"), (b"X-A", b"1")])), "request-headers[0]", None),
            # F-C41e
            (gzr, O(gzr), "response-headers[0]", "F-C41e"),
            (gzr, edited(gzr, sh=drop(O(gzr)["back"][0]["sh"], b"server")), "response-headers[0]", None),
            (gzr, edited(gzr, sbody=hx(b"HELLO")), "response-body[0]", None),
            (okr, edited(okr, sh=drop(O(okr)["back"][0]["sh"], b"server")), "response-headers[0]", None),
            # F-C41f
            (binp, O(binp), "request-body[0]", "F-C41f"),
            (binp, O(binp), "request-headers[0]", "F-C41f"),
            (binp, edited(binp, rbody=hx(b"abcd")), "request-body[0]", None),
            (okp, edited(okp, rbody=hx(b"HELLO")), "request-body[0]", None),
            (okp, edited(okp, rh=H([(b"Host", b"example.com"), (b"content-type", b"text/plain; charset=utf-8")])), "request-headers[0]", None),
            # F-C41g
            (nocl, O(nocl), "response-headers[0]", "F-C41g"),
            (nocl, edited(nocl, sh=H([(b"Server", b"s"), (b"content-length", b"99")])), "response-headers[0]", None),
            (te, edited(te, sh=H([(b"Server", b"s"), (b"Transfer-Encoding", b"chunked"), (b"content-length", b"5")])), "response-headers[0]", None),
            (okr, edited(okr, sh=H([(b"Server", b"s"), (b"Content-Length", b"6")])), "response-headers[0]", None),
            # F-C41h
            (meta, O(meta), "response-body[0]", "F-C41h"),
            (meta, O(meta), "response-headers[0]", "F-C41h"),
            (meta, edited(meta, sbody=hx(b"garbage")), "response-body[0]", None),
            (meta, edited(meta, sbody=hx(b"garbage")), "response-headers[0]", None),
            (okr, edited(okr, sbody=hx(b"HELLO")), "response-body[0]", None),
        ]
        for n, (case, obs, tag, want) in enumerate(T):
            got = self.known(case, obs, tag + ": selftest")
            assert got == want, f"known_selftest #{n}: {tag} expected {want}, got {got}"
        # every positive witness really is an oracle failure of that field on the real code
        for case, obs, tag, want in T:
            if want:
                assert any(f.startswith(tag) for f in self.oracle(case, obs)), f"known_selftest: witness for {want} ({tag}) no longer fails"

    def neighbours(self, case, rng):
        for i, fc in enumerate(case.get("flows", [])):
            for k, vals in (("ver", ["HTTP/1.1", "HTTP/2.0", "HTTP/3"]), ("status", [200, 204, 404])):
                for v in vals:
                    c = dict(fc); c[k] = v
                    if k == "ver": c["sver"] = v
                    yield {"flows": case["flows"][:i] + [c] + case["flows"][i + 1:]}
            for key in ("rh", "sh"):
                for j in range(len(fc[key])):
                    c = dict(fc); c[key] = fc[key][:j] + fc[key][j + 1:]
                    yield {"flows": case["flows"][:i] + [c] + case["flows"][i + 1:]}
        for _ in range(200):
            yield {"flows": [self.gen_flow(rng)]}

    def exhaustive(self, tier):
        return self.sweep()
