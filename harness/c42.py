"""C42 — filter expressions mean what the documented grammar says (mitmproxy/flowfilter.py).

A case is an expression tree together with ONE rendering of it (spacing, redundant parentheses, `&` or
juxtaposition for a conjunction, quoted or unquoted arguments with escapes) — or a raw/mutated string that only
serves the model-vs-code tie.  The real `flowfilter.parse` must accept every rendering, build exactly the tree that
was rendered (class names, n-ary nesting) and give, on every flow of a fixed pool of flows of every type, the
verdict the documentation promises: atoms by an independent reference reading of the operator table, composites by
not/all/any.  The compiled Lean parser (the model the theorems are about) is run on the same strings and must
return the same tree or the same refusal, and the same verdicts when fed the per-atom verdicts.
"""
import os, re, warnings
from common.check import PropertyCheck, Skip

warnings.simplefilter("ignore", DeprecationWarning)
from mitmproxy import flowfilter as ff
from mitmproxy import dns, http, tcp, udp
from mitmproxy.test import tflow, tutils

UNARY = [c.code for c in ff.filter_unary]
REX = [c.code for c in ff.filter_rex]
INT = [c.code for c in ff.filter_int]
BARE = ff.FUrl.code
CLS = {c.code: c for c in list(ff.filter_unary) + list(ff.filter_rex) + list(ff.filter_int)}
WS_CHARS = " \t\n\r"
RESERVED = set("()~'\"" + WS_CHARS)          # what an unquoted argument may not contain (docs: filters.md)
MAX_GROUP = {"quick": 2, "thorough": 3}      # parenthesis nesting (pyparsing's infix_notation is exponential in it)


def tx(s: str) -> str:
    return s.encode("utf-8").hex() or "-"


def untx(h: str) -> str:
    return "" if h == "-" else bytes.fromhex(h).decode("utf-8")


# ------------------------------------------------------------------------------------------------
# the flow pool: flows of every type, with and without response / error / websocket / marks / replay / metadata
def build_pool():
    P = []

    def add(f, **kw):
        for k, v in kw.items(): setattr(f, k, v)
        P.append(f)

    H = http.Headers
    add(tflow.tflow())
    add(tflow.tflow(resp=True))
    add(tflow.tflow(err=True))
    add(tflow.tflow(resp=True, err=True))
    add(tflow.tflow(ws=True, resp=True))
    add(tflow.twebsocketflow())
    add(tflow.twebsocketflow(err=True), marked=":star:")
    add(tflow.tflow(resp=True), marked=":star:")
    add(tflow.tflow(), marked="x")
    add(tflow.tflow(resp=True), is_replay="request")
    add(tflow.tflow(resp=True), is_replay="response")
    add(tflow.tflow(), is_replay="request", marked="GET")
    add(tflow.tflow(resp=True), metadata={"key": "value", "n": 200})
    add(tflow.tflow(), metadata={"hello": "world"}, comment="first line\nsecond line")
    add(tflow.tflow(resp=True), comment="GET 200 hello")
    add(tflow.tflow(req=tutils.treq(method=b"POST", host="example.com", port=443, scheme=b"https", path=b"/post?a=1&b=2",
                                    headers=H(((b"Host", b"example.com"), (b"Content-Type", b"application/json"))),
                                    content=b'{"hello": "world"}'),
                    resp=tutils.tresp(status_code=404, headers=H(((b"Content-Type", b"text/html; charset=utf-8"),)),
                                      content=b"<html>not found</html>")))
    add(tflow.tflow(req=tutils.treq(method=b"PUT", host="xn--bcher-kva.example", path=b"/a b\tc"),
                    resp=tutils.tresp(status_code=301, headers=H(((b"Location", b"http://address/x"), (b"content-type", b"image/png"))),
                                      content=b"\x89PNG\r\n\x00\xff")))
    add(tflow.tflow(req=tutils.treq(method=b"OPTIONS", path=b"*", content=b""),
                    resp=tutils.tresp(status_code=204, headers=H(((b"Content-Type", b"application/javascript"),)), content=b"")))
    add(tflow.tflow(req=tutils.treq(headers=H(((b"content-type", b"text/css"), (b"X-Tab", b"a\tb"), (b"x-q", b"it's \"q\""))),
                                    content=b"a\tb\nline2\r\nit's"),
                    resp=tutils.tresp(status_code=200, headers=H(((b"content-type", b"font/woff2"), (b"Set-Cookie", b"a=b"), (b"set-cookie", b"c=d"))),
                                      content=b"GET hello 200")))
    add(tflow.tflow(req=tutils.treq(content=None), resp=tutils.tresp(content=None, status_code=500)))
    add(tflow.tflow(req=tutils.treq(host="192.168.0.1", port=8080, headers=H(((b"Host", b"pretty.example"),))),
                    resp=tutils.tresp(headers=H(((b"content-encoding", b"gzip"), (b"content-type", b"text/javascript"))),
                                      content=b"\x1f\x8b not really gzip")))
    add(tflow.tflow(req=tutils.treq(method=b"get", path=b"/\xc3\xa9\xd1\x88?q=(a|b)"),
                    resp=tutils.tresp(content="café шгн".encode(), headers=H(((b"content-type", b"text/plain"),)))))
    f = tflow.tflow(resp=True); f.client_conn.peername = None; f.server_conn.address = None; add(f)
    f = tflow.tflow(resp=True); f.client_conn.peername = ("10.0.0.7", 51234); f.server_conn.address = ("example.org", 443); add(f)
    add(tflow.tflow(resp=tutils.tresp(status_code=200, headers=H(((b"content-type", b"application/font-woff"),)))), marked="note", comment="x")
    add(tflow.tflow(resp=tutils.tresp(status_code=200, headers=H(((b"content-type", b"application/x-javascript"),)))))
    add(tflow.tflow(resp=tutils.tresp(status_code=200, headers=H(((b"x", b"image/gif"),)))))
    # tcp / udp
    add(tflow.ttcpflow())
    add(tflow.ttcpflow(err=True))
    add(tflow.ttcpflow(messages=[]), marked="tcp")
    add(tflow.ttcpflow(messages=[tcp.TCPMessage(True, b"GET / HTTP/1.1\r\nhost: example.com\r\n\r\n", 1.0),
                                 tcp.TCPMessage(False, b"HTTP/1.1 200 OK\r\n\r\nhello\tworld", 2.0)]), comment="raw http")
    add(tflow.ttcpflow(), is_replay="request", metadata={"a": "b"})
    add(tflow.tudpflow())
    add(tflow.tudpflow(err=True))
    add(tflow.tudpflow(messages=[udp.UDPMessage(False, b"only server 200", 1.0)]), marked=":star:")
    add(tflow.tudpflow(messages=[udp.UDPMessage(True, b"only client\x00\xff", 1.0)]))
    # dns
    add(tflow.tdnsflow())
    add(tflow.tdnsflow(resp=True))
    add(tflow.tdnsflow(err=True))
    add(tflow.tdnsflow(req=tutils.tdnsreq(questions=[])))
    add(tflow.tdnsflow(req=tutils.tdnsreq(questions=[dns.Question("example.com", dns.types.AAAA, dns.classes.IN)]), resp=True), marked="dns")
    add(tflow.tdnsflow(resp=True), is_replay="response", comment="dns.google lookup", metadata={"key": "dns"})
    # neither http nor tcp/udp/dns
    add(tflow.tdummyflow())
    add(tflow.tdummyflow(err=True), marked="dummy", comment="GET", metadata={"hello": "GET"})
    f = tflow.tdummyflow(); f.client_conn.peername = None; add(f)
    # flows that tell \d/\D, \w/\W, \s/\S, \b/\B apart: URL without digits, bodies all digits / without digits or blanks / with blanks
    add(tflow.tflow(req=tutils.treq(host="example.test", port=80, path=b"/abc", headers=H(((b"host", b"example.test"),)), content=b"12345"),
                    resp=tutils.tresp(content=b"hello", status_code=200, headers=H(((b"etag", b"777"),)))),
        marked="42", comment="nodigits", metadata={"k": "v"})
    add(tflow.tflow(req=tutils.treq(host="example.test", port=80, path=b"/", headers=H(((b"x", b"a b"),)), content=b"a b\tc"),
                    resp=tutils.tresp(content=b"...---", status_code=200, headers=H(((b"y", b"--"),)))),
        marked="-", comment="  ", metadata={})
    add(tflow.ttcpflow(messages=[tcp.TCPMessage(True, b"2024", 1.0), tcp.TCPMessage(False, b"----", 2.0)]))
    # Content-Encoding x body: unknown / known-but-wrong / several codings / identity / correct, on the request, the response,
    # both; the plain and the decoded texts carry different needles and the compressed bytes carry neither
    import gzip, zlib, brotli
    try: from compression import zstd
    except ImportError: from backports import zstd
    PLAIN, DEC = b"needle-plain hello 123", b"needle-decoded world 456"
    def msgs(rq_ce, rq_body, rs_ce, rs_body, status=200):
        rh = [(b"host", b"enc.example")] + ([(b"Content-Encoding", rq_ce)] if rq_ce is not None else [])
        sh = [(b"content-type", b"text/plain")] + ([(b"content-encoding", rs_ce)] if rs_ce is not None else [])
        return tflow.tflow(req=tutils.treq(host="enc.example", port=80, path=b"/enc", method=b"POST", headers=H(tuple(rh)), content=rq_body),
                           resp=tutils.tresp(status_code=status, headers=H(tuple(sh)), content=rs_body))
    gz = gzip.compress(DEC, mtime=0)
    add(msgs(b"aws-chunked", PLAIN, None, b"ok"))
    add(msgs(None, b"ask", b"aws-chunked", PLAIN))
    add(msgs(b"bogus", PLAIN, b"utf-8", PLAIN))
    add(msgs(b"gzip", PLAIN, None, b"ok"))
    add(msgs(None, b"ask", b"gzip", PLAIN, 404))
    add(msgs(b"gzip", PLAIN, b"gzip", PLAIN))
    add(msgs(None, b"ask", b"deflate", PLAIN))
    add(msgs(None, b"ask", b"br", PLAIN))
    add(msgs(b"zstd", PLAIN, None, b"ok"))
    add(msgs(None, b"ask", b"gzip, br", gz))
    add(msgs(b"identity", PLAIN, b"identity", DEC))
    add(msgs(b"gzip", gz, None, b"ok"))
    add(msgs(None, b"ask", b"GZIP", gz))
    add(msgs(b"gzip", gz, b"gzip", gzip.compress(PLAIN, mtime=0)))
    add(msgs(None, b"ask", b"deflate", zlib.compress(DEC)))
    add(msgs(None, b"ask", b"br", brotli.compress(DEC)))
    add(msgs(None, b"ask", b"zstd", zstd.compress(DEC)))
    add(msgs(b"gzip", None, b"br", None))                       # streamed bodies with a coding announced
    add(msgs(b"", PLAIN, b"", DEC))                             # empty Content-Encoding value
    f = msgs(None, b"ask", b"gzip", PLAIN); f.websocket = tflow.twebsocket(); add(f)
    return P


# ------------------------------------------------------------------------------------------------
# reference reading of the operator table (docstring of flowfilter.py, the per-operator help strings, filters.md):
# which strings of a flow an operator's regex is applied to / what a unary operator tests
def _ct_values(msg):
    return [v for k, v in msg.headers.fields if k.lower() == b"content-type"]


def _hdr_lines(msg):
    return [k + b": " + v for k, v in msg.headers.fields]      # "Patterns are matched against 'name: value' strings"


def ref_decode(coding, raw):
    """independent content decoder (stdlib / brotli / zstd directly, not Message.get_content): the decoded bytes, or None
    when the coding cannot be applied (unknown coding, several codings, bytes that are not so encoded)"""
    import gzip as _gzip, zlib as _zlib
    c = coding.lower()
    try:
        if c in ("identity", "none"): return raw
        if c == "gzip":
            d = _zlib.decompressobj(47); return d.decompress(raw) + d.flush()     # gzip or zlib framing
        if c == "deflate":
            try: return _zlib.decompress(raw)
            except _zlib.error: return _zlib.decompress(raw, -15)
        if c == "br":
            import brotli; return brotli.decompress(raw)
        if c == "zstd":
            try: from compression import zstd as _z
            except ImportError: from backports import zstd as _z
            return _z.decompress(raw)
    except Exception:
        return None
    return None


def ref_body(msg):
    """what ~b/~bq/~bs search in an HTTP message: the decoded body when the Content-Encoding can be applied, the body AS
    RECEIVED when it cannot (or there is none); None when there is no body (streamed)"""
    raw = msg.raw_content
    if raw is None: return None
    ce = msg.headers.get("content-encoding")
    if not ce: return raw
    d = ref_decode(ce, raw) if raw else raw
    return raw if d is None else d


def _bodies(f, want_req, want_resp):
    out = []
    if isinstance(f, http.HTTPFlow):
        if want_req and f.request and ref_body(f.request) is not None: out.append(ref_body(f.request))
        if want_resp and f.response and ref_body(f.response) is not None: out.append(ref_body(f.response))
        if f.websocket:
            out += [m.content for m in f.websocket.messages if (want_req if m.from_client else want_resp)]
    elif isinstance(f, (tcp.TCPFlow, udp.UDPFlow)):
        out += [m.content for m in f.messages if (want_req if m.from_client else want_resp)]
    elif isinstance(f, dns.DNSFlow):
        if want_req and f.request: out.append(str(f.request).encode())
        if want_resp and f.response: out.append(str(f.response).encode())
    return out


ASSETS = [rb"text/javascript", rb"application/x-javascript", rb"application/javascript", rb"text/css", rb"image/.*", rb"font/.*", rb"application/font.*"]

REF_UNARY = {
    "a": lambda f: isinstance(f, http.HTTPFlow) and bool(f.response) and any(re.search(a, v) for a in ASSETS for v in _ct_values(f.response)),
    "e": lambda f: bool(f.error),
    "http": lambda f: isinstance(f, http.HTTPFlow),
    "marked": lambda f: f.marked != "",
    "replay": lambda f: f.is_replay is not None,
    "replayq": lambda f: f.is_replay == "request",
    "replays": lambda f: f.is_replay == "response",
    "q": lambda f: isinstance(f, (http.HTTPFlow, dns.DNSFlow)) and f.response is None,
    "s": lambda f: isinstance(f, (http.HTTPFlow, dns.DNSFlow)) and f.response is not None,
    "tcp": lambda f: isinstance(f, tcp.TCPFlow),
    "udp": lambda f: isinstance(f, udp.UDPFlow),
    "dns": lambda f: isinstance(f, dns.DNSFlow),
    "websocket": lambda f: isinstance(f, http.HTTPFlow) and f.websocket is not None,
    "all": lambda f: True,
}
_isH = lambda f: isinstance(f, http.HTTPFlow)
# code -> (binary?, extra flags, flow -> list of subjects)
REF_REX = {
    "b": (True, re.DOTALL, lambda f: _bodies(f, True, True)),
    "bq": (True, re.DOTALL, lambda f: _bodies(f, True, False)),
    "bs": (True, re.DOTALL, lambda f: _bodies(f, False, True)),
    "t": (True, 0, lambda f: (_ct_values(f.request) + (_ct_values(f.response) if f.response else [])) if _isH(f) else []),
    "tq": (True, 0, lambda f: _ct_values(f.request) if _isH(f) else []),
    "ts": (True, 0, lambda f: _ct_values(f.response) if _isH(f) and f.response else []),
    "d": (False, 0, lambda f: [f.request.host, f.request.pretty_host] if _isH(f) else []),
    "dst": (False, 0, lambda f: [f"{f.server_conn.address[0]}:{f.server_conn.address[1]}"] if f.server_conn and f.server_conn.address else []),
    "src": (False, 0, lambda f: [f"{f.client_conn.peername[0]}:{f.client_conn.peername[1]}"] if f.client_conn and f.client_conn.peername else []),
    "h": (True, re.MULTILINE, lambda f: (_hdr_lines(f.request) + (_hdr_lines(f.response) if f.response else [])) if _isH(f) else []),
    "hq": (True, re.MULTILINE, lambda f: _hdr_lines(f.request) if _isH(f) else []),
    "hs": (True, re.MULTILINE, lambda f: _hdr_lines(f.response) if _isH(f) and f.response else []),
    "m": (True, 0, lambda f: [f.request.data.method] if _isH(f) else []),
    "u": (False, 0, lambda f: [f.request.pretty_url] if _isH(f) else
          ([f.request.questions[0].name] if isinstance(f, dns.DNSFlow) and f.request and f.request.questions else [])),
    "meta": (False, re.MULTILINE, lambda f: ["\n".join(f"{k}: {v}" for k, v in f.metadata.items())]),
    "marker": (False, 0, lambda f: [f.marked] if f.marked else []),     # "Match marked flows with specified marker"
    "comment": (False, re.MULTILINE, lambda f: [f.comment]),
}
REF_INT = {"c": lambda f, n: isinstance(f, http.HTTPFlow) and f.response is not None and f.response.status_code == n}


HDR_CODES = ("h", "hq", "hs")
# what the code searches for ~h/~hq/~hs: the header block as sent, lines joined (and ended) by CRLF  -> finding F-C42a
HDR_BLOCK = {
    "h": lambda f: ([bytes(f.request.headers)] + ([bytes(f.response.headers)] if f.response else [])) if _isH(f) else [],
    "hq": lambda f: [bytes(f.request.headers)] if _isH(f) else [],
    "hs": lambda f: [bytes(f.response.headers)] if _isH(f) and f.response else [],
}


def tree_rex_atoms(t):
    """the (operator, argument) pairs of the regex leaves of a tree"""
    if t[0] == "R": return [(t[1], t[2])]
    if t[0] == "N": return tree_rex_atoms(t[1])
    if t[0] in "AO": return [p for x in t[1] for p in tree_rex_atoms(x)]
    return []


def bad_pairs(t):
    """the `compiles` answers the model is given for a rendered tree: the (operator:argument) pairs the REAL re.compile
    refuses (bytes or str pattern and flags as the operator's class compiles it)"""
    return sorted({"%s:%s" % (tx(c), tx(a)) for c, a in tree_rex_atoms(t) if not compiles(c, a)})


# regex arguments that do not compile - for every operator, only as a bytes pattern, only as a str pattern
BAD_ARGS = ["(", "[a", "*x", "(?P<n>a)(?P<n>b)", "\\", ")", "a{2,1}", "(?<=a+)b", "a)b", "[z-a]", "(?P<1>x)", "x**", "\\u1234", "\\N{BULLET}",
            "(?L)a", "(?u)a", "\\8", "(?i"]


def has_hdr_atom(t):
    if t[0] == "R": return t[1] in HDR_CODES
    if t[0] == "N": return has_hdr_atom(t[1])
    if t[0] in "AO": return any(has_hdr_atom(x) for x in t[1])
    return False


def _hx(b): return b.hex() or "-"
def _opt(b): return "none" if b is None else _hx(b)
def _txt(t): return t.encode("utf-8", "surrogatepass")


def flow_view(f):
    """the parts of a real flow the operators look at, as the 20 fields of the driver op `lv` (Driver/C42.lean) -
    field access only; what is searched and with which flags is the model's prediction"""
    kind = ("http" if isinstance(f, http.HTTPFlow) else "tcp" if isinstance(f, tcp.TCPFlow) else
            "udp" if isinstance(f, udp.UDPFlow) else "dns" if isinstance(f, dns.DNSFlow) else "other")
    def hmsg(m):
        if m is None: return "none"
        cts = [v for k, v in m.headers.fields if k.lower() == b"content-type"]
        raw, ce = m.raw_content, m.headers.get("content-encoding")
        dec = None if (raw is None or not ce) else (ref_decode(ce, raw) if raw else raw)
        return "/".join([_hx(bytes(m.headers)), ",".join(_hx(v) for v in cts) or ".", _opt(raw),
                         "none" if ce is None else _hx(_txt(ce)), "fail" if dec is None else _hx(dec)])
    def dirs(ms): return ",".join(("c:" if m.from_client else "s:") + _hx(m.content) for m in ms) or "."
    H = kind == "http"; D = kind == "dns"
    req = f.request if (H or D) else None
    resp = f.response if (H or D) else None
    addr = lambda a: None if not a else _txt("%s:%s" % (a[0], a[1]))
    rep = {None: "none", "request": "request", "response": "response"}.get(f.is_replay, "other")
    return [kind, hmsg(req) if H else "none", hmsg(resp) if H else "none",
            _hx(req.data.method) if H else "-", _hx(_txt(req.host)) if H else "-", _hx(_txt(req.pretty_host)) if H else "-",
            _hx(_txt(req.pretty_url)) if H else "-", str(resp.status_code) if H and resp else "0",
            ("none" if f.websocket is None else dirs(f.websocket.messages)) if H else "none",
            dirs(f.messages) if kind in ("tcp", "udp") else ".",
            _opt(str(req).encode() if D and req else None), _opt(str(resp).encode() if D and resp else None),
            _opt(_txt(req.questions[0].name) if D and req and req.questions else None),
            _opt(addr(f.client_conn.peername if f.client_conn else None)), _opt(addr(f.server_conn.address if f.server_conn else None)),
            _hx(_txt("\n".join(f"{k}: {v}" for k, v in f.metadata.items()))), _hx(_txt(f.marked)), _hx(_txt(f.comment)),
            "1" if f.error else "0", rep]


INT_PROBES = [200, 404, 301, 204, 500, 0, 7]


def compiles(code, arg):
    spec = REF_REX.get(code)
    binary = spec[0] if spec else issubclass(CLS[code], ff._BinRex)
    try:
        re.compile(arg.encode() if binary else arg, re.IGNORECASE)
        return True
    except Exception:
        return False


# ------------------------------------------------------------------------------------------------
# trees: ["U",code] ["R",code,arg] ["I",code,n] ["N",t] ["A",[t..]] ["O",[t..]]
def shape_of_tree(t):
    k = t[0]
    if k == "U": return "U" + t[1]
    if k == "R": return "R%s:%s" % (t[1], tx(t[2]))
    if k == "I": return "I%s:%d" % (t[1], t[2])
    if k == "N": return "N(" + shape_of_tree(t[1]) + ")"
    return k + "(" + ",".join(shape_of_tree(x) for x in t[1]) + ")"


def shape_of_tok(t):
    if isinstance(t, ff.FAnd): return "A(" + ",".join(shape_of_tok(x) for x in t.lst) + ")"
    if isinstance(t, ff.FOr): return "O(" + ",".join(shape_of_tok(x) for x in t.lst) + ")"
    if isinstance(t, ff.FNot): return "N(" + shape_of_tok(t.itm) + ")"
    if isinstance(t, ff._Rex): return "R%s:%s" % (t.code, tx(t.expr))
    if isinstance(t, ff._Int): return "I%s:%d" % (t.code, t.num)
    return "U" + t.code


def atoms_of_tok(t, out):
    if isinstance(t, (ff.FAnd, ff.FOr)):
        for x in t.lst: atoms_of_tok(x, out)
    elif isinstance(t, ff.FNot): atoms_of_tok(t.itm, out)
    else: out.append(t)
    return out


def tree_tokens(t):
    k = t[0]
    if k == "U": return ["U", tx(t[1])]
    if k == "R": return ["R", tx(t[1]), tx(t[2])]
    if k == "I": return ["I", tx(t[1]), str(t[2])]
    if k == "N": return ["N"] + tree_tokens(t[1])
    return [k, str(len(t[1]))] + [x for c in t[1] for x in tree_tokens(c)]


def canon_print(t):
    """mirror of the Lean `print` (Model/C42_Print.lean); returns (text, number of parenthesised groups).
    The driver's `pr` op must produce the same text - the model predicts the string, the real parser reads it."""
    groups = [0]
    def arg(a):
        if a != "" and not (set(a) & RESERVED): return a
        return '"' + "".join("\\" + c if c in '"\\' else "\\n" if c == "\n" else "\\r" if c == "\r" else c for c in a) + '"'
    def pr(lvl, w, t):
        k = t[0]
        if k == "U": return w + "~" + t[1]
        if k == "R": return w + "~" + t[1] + " " + arg(t[2])
        if k == "I": return w + "~" + t[1] + " " + str(t[2])
        if k == "N": return w + "!" + pr(1, "", t[1])
        kd, need = (2, "&") if k == "A" else (3, "|")
        if lvl >= kd: return prl(kd, need, w, t[1])
        groups[0] += 1
        return w + "(" + prl(kd, need, "", t[1]) + ")"
    def prl(kd, op, w, l):
        return pr(kd - 1, w, l[0]) + "".join(" " + op + pr(kd - 1, " ", x) for x in l[1:])
    return pr(3, "", t), groups[0]


def tree_ops(t):
    if t[0] in "URI": return 0
    if t[0] == "N": return 1 + tree_ops(t[1])
    return 1 + sum(tree_ops(x) for x in t[1])


# regexes that differ only in the case of an escape class mean different things although matching is case-insensitive
CASE_PAIRS = [("\\d", "\\D"), ("\\w", "\\W"), ("\\s", "\\S"), ("\\b", "\\B"), ("^\\d+$", "^\\D+$"), ("\\w\\S\\w", "\\W\\S\\W"),
              ("\\w\\s\\w", "\\w\\S\\W"), ("^\\w+$", "^\\W+$"), ("\\bget\\b", "\\Bget\\B"), ("e\\b", "E\\B"), ("[\\d]", "[\\D]"),
              ("\\d|\\s", "\\D|\\S")]
ARGS = ["GET", "get", "POST", "example", "example\\.com", "address", "hello", "world", "200", "2..", "^host", "^content-type: text",
        "html$", "qvalue$", "^header: qvalue$", ".", ".*", "", "a|b", "hello|GET", "\\d+", "\\w+@", "foo.*bar", "[a-c]+", "it's", "\"q\"",
        "a b", "a\tb", "line2", "first line$", "^second", "second line", "key: value", ":star:", "x", "star", "^$", "^", "café",
        "шгн", "é", "path", "/path$", "22$", "127\\.0", "dns.google", "google$", "(a|b)", "\\(a\\|b\\)", "!x", "&", "|",
        "!", "a&b", "a!b", "~q", "\\\\", "\\.", "\\", "it\\'s", "^GET$", "png", "image/", "\\x00", " ", "a\x0bb", "n: 200", "8\\.8", "me$", "needle", "needle-plain", "needle-decoded", "^needle-plain hello 123$", "\\x1f\\x8b", "world 456$", "plain|decoded"] + [a for pair in CASE_PAIRS for a in pair]


def gen_atom(rng):
    r = rng.random()
    if r < 0.35: return ["U", rng.pick(UNARY)]
    if r < 0.45: return ["I", rng.pick(INT), rng.pick([200, 404, 301, 204, 500, 0, 7, 99999999999999999999])]
    for _ in range(20):
        code = rng.pick(REX) if rng.chance(0.6) else BARE
        arg = rng.pick(ARGS)
        if rng.chance(0.1): arg += rng.pick(ARGS)
        if compiles(code, arg): return ["R", code, arg]
    return ["R", BARE, "x"]


def gen_tree(rng, depth, atoms=None):
    if depth <= 0 or rng.chance(0.25):
        return list(rng.pick(atoms)) if atoms else gen_atom(rng)
    k = rng.weighted([(2, "N"), (3, "A"), (3, "O")])
    if k == "N": return ["N", gen_tree(rng, depth - 1, atoms)]
    n = rng.weighted([(5, 2), (3, 3), (1, 4)])
    return [k, [gen_tree(rng, depth - 1, atoms) for _ in range(n)]]


def gen_prec(rng, lvl, nest, size=3):
    """a tree shaped along the precedence levels (juxtaposition > | > & > ! > operand): it can be written without
    parentheses; an operand is, `nest` permitting, now and then a whole sub-expression (which then needs a group)"""
    def items(sub):
        return [gen_prec(rng, sub, nest, size) for _ in range(rng.weighted([(5, 2), (3, 3), (1, 4)]) if size >= 3 else 2)]
    if lvl == 4: return ["A", items(3)] if rng.chance(0.35) else gen_prec(rng, 3, nest, size)
    if lvl == 3: return ["O", items(2)] if rng.chance(0.4) else gen_prec(rng, 2, nest, size)
    if lvl == 2: return ["A", items(1)] if rng.chance(0.4) else gen_prec(rng, 1, nest, size)
    if lvl == 1: return ["N", gen_prec(rng, 1, nest, size)] if rng.chance(0.3) else gen_prec(rng, 0, nest, size)
    if nest > 0 and rng.chance(0.12):
        t = gen_prec(rng, 4, nest - 1, 2)
        if t[0] in "AO": return t
    return gen_atom(rng)


class Renderer:
    """mirror of the Lean concrete syntax (Model/C42_Spec.lean): every token carries its leading whitespace;
    an unquoted word must be followed by whitespace, `)` or the end; juxtaposed terms are separated by whitespace"""

    def __init__(self, rng, max_group, p_redundant=0.12, canonical=False, max_count=99):
        self.rng, self.max_group, self.p_red, self.canon = rng, max_group, p_redundant, canonical
        self.max_count, self.count = max_count, 0

    def ows(self):
        if self.canon: return ""
        return self.rng.weighted([(6, ""), (3, " "), (1, "  "), (1, "\t"), (0.5, "\n"), (0.5, " \r\n ")])

    def ws(self):
        if self.canon: return " "
        return self.rng.weighted([(8, " "), (1, "  "), (1, "\t"), (0.5, "\n"), (0.5, "\r\n"), (0.5, " \t ")])

    def quoted(self, arg):
        q = self.rng.pick("\"'")
        out, toks = [], []
        def raw(c): out.append(c); toks.extend(["r", tx(c)])
        def esc(c): out.append("\\" + c); toks.extend(["e", tx(c)])
        for c in arg:
            if c == "\\": esc("\\")
            elif c == q: esc(q)
            elif c == "\n": esc("n")
            elif c == "\r": esc("r")
            elif c == "\t": esc("t") if self.rng.chance(0.5) else raw(c)
            elif c == "\f": esc("f") if self.rng.chance(0.5) else raw(c)
            elif not c.isalnum() and ord(c) < 128 and self.rng.chance(0.1): esc(c)    # redundant backslash before punctuation
            else: raw(c)
        return q + "".join(out) + q, ["q", tx(q), str(len(arg))] + toks

    def arg(self, a, bare):
        """(text, ends-in-unquoted-word, tokens)"""
        can_unq = a != "" and not (set(a) & RESERVED) and not (bare and a[0] in "!&|")
        if can_unq and self.rng.chance(0.6): return a, True, ["w", tx(a)]
        s, toks = self.quoted(a)
        return s, False, toks

    def atom(self, t):
        k = t[0]
        if k == "U": return "~" + t[1], False, ["u", tx(t[1])]
        if k == "I":
            z = "" if self.canon else self.rng.weighted([(8, ""), (1, "0"), (1, "000")])
            w = self.ws()
            return "~%s%s%s%d" % (t[1], w, z, t[2]), False, ["i", tx(t[1]), tx(w), tx("%s%d" % (z, t[2]))]
        if t[1] == BARE and self.rng.chance(0.5):
            s, e, toks = self.arg(t[2], True)
            return s, e, ["b"] + toks
        s, e, toks = self.arg(t[2], False)
        w = self.ws()
        return "~" + t[1] + w + s, e, ["r", tx(t[1]), tx(w)] + toks

    def r0(self, t, g):
        if t[0] in "URI" and not (g < self.max_group and self.rng.chance(self.p_red)):
            s, e, toks = self.atom(t)
            w = self.ows()
            return w + s, e, ["a", tx(w)] + toks
        self.count += 1
        if g >= self.max_group or self.count > self.max_count: raise Skip()
        s, _, toks = self.r4(t, g + 1)
        w1, w2 = self.ows(), self.ows()
        return w1 + "(" + s + w2 + ")", False, ["g", tx(w1)] + toks + [tx(w2)]

    def r1(self, t, g):
        if t[0] == "N" and not (g < self.max_group and self.rng.chance(self.p_red)):
            s, e, toks = self.r1(t[1], g)
            w = self.ows()
            return w + "!" + s, e, ["n", tx(w)] + toks
        return self.r0(t, g)

    def chain(self, items, kind, op, sub, g):
        out, e, toks = sub(items[0], g)
        toks = ["c", kind, str(len(items) - 1)] + toks
        for x in items[1:]:
            sep = self.ws() if (e or kind == "juxt") else self.ows()
            s, e, tk = sub(x, g)
            out += sep + op + s
            toks += [tx(sep)] + tk
        return out, e, toks

    def r2(self, t, g):
        if t[0] == "A" and not (g < self.max_group and self.rng.chance(self.p_red)):
            return self.chain(t[1], "and", "&", self.r1, g)
        return self.r1(t, g)

    def r3(self, t, g):
        if t[0] == "O" and not (g < self.max_group and self.rng.chance(self.p_red)):
            return self.chain(t[1], "or", "|", self.r2, g)
        return self.r2(t, g)

    def r4(self, t, g):
        nested = t[0] == "A" and any(x[0] in "AO" for x in t[1])
        if t[0] == "A" and (self.rng.chance(0.9 if nested else 0.5) or (nested and g >= self.max_group)):
            return self.chain(t[1], "juxt", "", self.r3, g)
        return self.r3(t, g)

    def render(self, t):
        """(string, concrete-syntax tokens for the Lean `C`, trailing white space)"""
        self.count = 0
        s, _, toks = self.r4(t, 0)
        w = self.ows()
        return s + w, toks, w


MUT_ALPHABET = list("()!&|~\"'\\ \t\nabq3x24u0") + ["~q", "~u ", "~c ", "~hq ", "~marker ", "~all", " & ", " | ", "\\\"", "é"]


MUT_NOPAREN = [x for x in MUT_ALPHABET if x != "("]
PARSE_LIMIT = {"quick": 4.0, "thorough": 12.0}     # seconds per flowfilter.parse call, see Check._parse_limited


class _ParseTooSlow(BaseException):
    pass


QUOTE_SOUP = ["\\", "\\\\", "x", "u", "0", "3", "2", "4", "a", "F", "g", "t", "n", "r", "f", "7", "\"", "'", " ", "\t", "\n", "\r", "é", "~", "("]


class Check(PropertyCheck):
    prop = "C42"
    design_ref = "§5 C42"
    level_text = ("Lean, for ALL trees / texts / flows / regex engines (mutual induction over the concrete syntax and over trees, no "
                  "bounds): parse_render / parse_render_exact / parse_render_struct - every documented way of writing a tree "
                  "(`Renders`: any white space before any token, redundant parentheses anywhere, `&` or juxtaposition, unquoted or "
                  "quoted arguments with escapes, leading zeros) is accepted by the modelled parser and read back as exactly that "
                  "tree; parse_render_uncompilable (the only refusals are non-compiling regexes); a total canonical printer with "
                  "parse_print (parse . print = id for every operator code of the generated tables, every argument string incl. "
                  "empty / quotes / backslashes / white space / parentheses / `~`, every number, any nesting), print_renders, "
                  "printable_iff_parsable + not_printable_unparsable (the expressible trees are exactly: codes from the tables, "
                  "FAnd/FOr with >= 2 members - nothing else is ever produced by the parser), print_parse_normal (print . parse is a "
                  "normal form); the precedence statements not_tighter_than_and, and_tighter_than_or, juxtaposition_loosest; and "
                  "evaluation as the Boolean algebra of the leaf verdicts for every tree: eval_not / eval_and_all / eval_or_any, "
                  "eval_hom (homomorphic extension of the leaf valuation), eval_congr (depends on leaves only through their "
                  "verdicts), double negation, De Morgan, flattening, permutation invariance, absorption of the one-member wrapper, "
                  "eval_total; the body operators' reading of an HTTP message (`searched` = get_content(strict=False) with the "
                  "content decoder as a parameter): body_searched / body_searched_some / bodyLeaf_total - a verdict on every flow, "
                  "searching the decoded bytes when the Content-Encoding can be applied and the bytes as received when it cannot; "
                  "which part of a flow every operator reads and with which flags (Model/C42_Leaf.lean `leafReads` / `unaryV` / `intV` "
                  "over an abstract flow view, transcribed from the `__call__` methods, regex engine and content decoder as "
                  "parameters): rex_flags_pinned (IGNORECASE for every regex operator, MULTILINE exactly ~h ~hq ~hs ~meta ~comment, "
                  "DOTALL exactly ~b ~bq ~bs, bytes/str pattern - pinned against tables regenerated from the classes), "
                  "parse_render_documented (a documented rendering is accepted and its verdict is the table's reading of the tree), "
                  "only_http / only_gating (the @only decorators), both_sides_split (~b = ~bq or ~bs, ~h = ~hq or ~hs, ~t = ~tq or "
                  "~ts on every flow), body_ops_http (on HTTP flows the body operators are the `bodyLeaf` over request/response), unary_table (~q = not ~s on HTTP/DNS, ~replay = ~replayq or ~replays, ~all); the fuel of the "
                  "parser model is immaterial: parse_fuel_independent / parseStruct_any_fuel (any fuel larger than the text gives "
                  "the same parse), parse_consumes (every parser returns a suffix no longer than its input). CLAUSE MAP ONLY, not counted "
                  "as results (definitional: they hold by rfl / one unfolding and say what the definitions are; their content is the tie "
                  "of those definitions): doc_eval (what docSem is; tie: `lv`), the verdict conjunct of parse_render (the content is "
                  "parse_render_exact), body_searched (what `searched` is; tie: `bd`), eval_total (true by typing; the real-code side is "
                  "the oracle clause `raised`). "
                  "The model transcribes the pyparsing grammar of flowfilter._make (MatchFirst order of the operator tables, "
                  "WordEnd(alphanums), CharsNotIn words, QuotedString unescaping as pyparsing 3.3.2 really does it, "
                  "infix_notation([!,&,|]) inside OneOrMore, groups holding a whole expression, tabs kept); the operator tables are "
                  "regenerated from flowfilter.py on every run and their side conditions re-proved by evaluation. Tie: the compiled "
                  "model is compared with the real flowfilter.parse on every generated rendering, on sequences, and on mutated/raw "
                  "strings (same tree or same refusal, same verdicts on a pool of 68 flows of every type when fed the real leaves' "
                  "verdicts); every generated layout is also sent as a term of the Lean concrete syntax and must print (Lean "
                  "`render`) to the tested text, satisfy the Lean `WF` and denote the tested tree; the Lean `print` of every "
                  "generated tree must equal the harness' canonical text, which the REAL parser must read back as the tree (the "
                  "model predicts the string, the code parses it); the real code is checked directly against the tree that was "
                  "written and an independent reference reading of every operator (bodies decoded by an independent decoder), a filter "
                  "call that raises on any pool flow is a failure of its own clause, and for every HTTP message of the pool the model "
                  "predicts, from the raw bytes, the header and the independent decoder's outcome, what get_content(strict=False) returns; "
                  "and for every pool flow the model is given only the flow's fields (`view` cases) and PREDICTS which byte strings "
                  "every operator searches and with which flags - the verdicts formed from that with CPython's re must equal those of "
                  "the real leaf objects for every operator x ~100 probe regexes, every unary operator and ~c. The model of flowfilter.parse "
                  "ITSELF (`parse compiles`, not only the structural parser) is run by the driver op `pc` for every rendering, with "
                  "`compiles` answered by the real re.compile per (operator, argument) of the rendered tree, and `uncomp` cases feed "
                  "renderings with ONE non-compiling argument (syntax errors; str-only escapes under bytes operators and bytes-only "
                  "flags under str operators) to the real parser: it must raise ValueError exactly when the model's argsOk is false "
                  "(parse_render_uncompilable / parse_render_exact on both sides of the boundary).")
    level_note = ("still assumed / outside the proofs: the regex engine is a parameter (`compiles`, per-leaf verdicts `Sem`): the "
                  "theorems hold for every engine; the `render` cases only use compiling regexes, the `uncomp` cases put one non-compiling "
                  "argument into a documented rendering, and `compiles` of the model is answered by the real re.compile (op `pc`); the content decoder is a parameter "
                  "too; which part of a flow each operator reads is now a Lean transcription tied on the whole pool (the extraction of "
                  "the view fields from the real flow objects - bytes(headers), pretty_url, str(dns message), ... - is plain field "
                  "access in the harness and is trusted); the hand-written Python reference stays as the independent oracle (one "
                  "recorded deviation: F-C42a, ~h/~hq/~hs read the CRLF-joined block - the model transcribes what the code does, the "
                  "reference what the documentation says; its classifier is self-tested against near misses on every run); pyparsing itself is modelled, not verified - the tie is "
                  "differential; int() of more than 4300 digits "
                  "(ValueError) and lone surrogates are outside the generated domain; parenthesis nesting in generated cases is "
                  "capped (2 quick / 3 thorough, most cases have none) because pyparsing's infix_notation takes time exponential in "
                  "it (~10 ms without, ~100 ms with one group, up to 1 s with two levels, minutes for some 3-level expressions of 200 "
                  "characters; a generated case whose real parse exceeds 4 s quick / 12 s thorough is skipped; the canonical text is "
                  "parsed by the real code only when it needs no more groups than the rendering did) - the theorems have no such cap.")
    technique = "Lean 4 proof (mutual induction over concrete syntax) + regenerated operator tables + differential correspondence with flowfilter.parse"
    rule = ("trees over all operator codes (unary / regex+argument / int / naked regex) with Not/And/Or: 60% shaped along the "
            "precedence levels (writable without parentheses, up to 4-5 levels deep), 25% arbitrary nesting up to the tier depth "
            "(4 quick / 6 thorough), each rendered once with random layout under a per-case budget of parenthesised groups "
            "(quick 80% none / 17% one / 3% two levels; thorough 50/30/16/4% up to three levels; a case whose real parse exceeds 4 s / 12 s is skipped); thorough first enumerates every "
            "tree of depth <=2 over 5 atoms (one per leaf kind) in canonical and random layout; first of all one `view` case per pool flow (every leaf of the table, model-predicted vs real), one `body` case per HTTP message of the pool (what the body operators search) and the body operators "
            "alone and under every connective with needles that occur only in the bytes as received / only in the decoded bytes / "
            "nowhere, evaluated on the whole pool (Content-Encoding unknown, known-but-wrong, several codings, identity, empty, "
            "correct gzip/deflate/br/zstd, streamed; on the request, the response, both); `uncomp` cases: each of 18 regex arguments "
            "that do not compile (or compile only as a str / only as a bytes pattern) under a str operator, two bytes operators, "
            "~comment, and every operator once, alone and under !, &, |, plus 3% of the random stream; then, for every regex operator, pairs of regexes that differ only in the case of an escape class "
            "(\\d/\\D, \\w/\\W, \\s/\\S, \\b/\\B, alone and inside longer regexes) as SEQUENCE cases (both orders, parsed and "
            "evaluated one after the other in one process) and inside one tree, plus ~4% random sequences later - the verdict "
            "must not depend on what was parsed before; 15% mutated renderings, raw token "
            "soups and quoted-escape soups for the model tie only. distinct = distinct text; non-trivial = not a bare unary code.")
    budget = {"quick": 8000, "thorough": 200000}
    time_budget = {"quick": 12, "thorough": 540}
    fingerprints = ["mitmproxy.flowfilter:_make", "mitmproxy.flowfilter:parse", "mitmproxy.flowfilter:FAnd", "mitmproxy.flowfilter:FOr",
                    "mitmproxy.flowfilter:FNot", "mitmproxy.flowfilter:_Rex.__init__", "mitmproxy.flowfilter:_Int.__init__",
                    "mitmproxy.flowfilter:_Action.make", "mitmproxy.flowfilter:FUrl.make", "mitmproxy.flowfilter:only",
                    "mitmproxy.flowfilter:_check_content_type", "mitmproxy.http:Message.get_content"] + \
                   ["mitmproxy.flowfilter:%s.__call__" % c.__name__ for c in list(ff.filter_unary) + list(ff.filter_rex) + list(ff.filter_int)]
    trusted_base = ["pyparsing 3.3.2 (Literal/WordEnd/CharsNotIn/QuotedString/Word/MatchFirst/infix_notation/OneOrMore) as the primitives the model transcribes",
                    "CPython re as the regex engine (parameter of the model)"]
    parallel = False
    case_timeout = 120

    def __init__(self):
        self.pool = None
        self._ref_cache = {}
        self._last_atoms = {}

    # ---- (T) operator tables -------------------------------------------------------------------
    def translate(self):
        def chars(c): return "[" + ", ".join("'%s'" % ch for ch in c) + "]"
        def lst(xs): return "[" + ", ".join(chars(x) for x in xs) + "]"
        for c in UNARY + REX + INT: assert re.fullmatch(r"[A-Za-z0-9]+", c), c
        for c in ff.filter_rex: assert not (c.flags & ~(re.MULTILINE | re.DOTALL)), c
        for x in ff.FAsset.ASSET_TYPES: assert "'" not in x.pattern.decode("ascii") and "\\" not in x.pattern.decode("ascii") and x.flags & re.IGNORECASE == 0
        src = ("/- GENERATED by harness/c42.py (Check.translate) from mitmproxy/flowfilter.py: filter_unary / filter_rex / filter_int\n"
               "   operator codes in MatchFirst order, and the code of the operator a naked regex stands for. Do not edit. -/\n"
               "namespace MitmVerif.C42.Gen\n\n"
               "/-- " + " ".join("~" + c for c in UNARY) + " -/\n"
               f"def unaryCodes : List (List Char) := {lst(UNARY)}\n"
               "/-- " + " ".join("~" + c for c in REX) + " -/\n"
               f"def rexCodes : List (List Char) := {lst(REX)}\n"
               "/-- " + " ".join("~" + c for c in INT) + " -/\n"
               f"def intCodes : List (List Char) := {lst(INT)}\n"
               f"def bareCode : List Char := {chars(BARE)}\n\n"
               "/-- operators whose pattern is compiled from `expr.encode()` (`_BinRex`) -/\n"
               f"def rexBin : List (List Char) := {lst([c.code for c in ff.filter_rex if issubclass(c, ff._BinRex)])}\n"
               "/-- operators whose class sets re.MULTILINE / re.DOTALL -/\n"
               f"def rexMultiline : List (List Char) := {lst([c.code for c in ff.filter_rex if c.flags & re.MULTILINE])}\n"
               f"def rexDotall : List (List Char) := {lst([c.code for c in ff.filter_rex if c.flags & re.DOTALL])}\n"
               "/-- every filter regex is compiled with re.IGNORECASE (`maybe_ignore_case`, MITMPROXY_CASE_SENSITIVE_FILTERS unset) -/\n"
               f"def ignoreCase : Bool := {'true' if ff.maybe_ignore_case & re.IGNORECASE else 'false'}\n"
               "/-- `FAsset.ASSET_TYPES` (bytes patterns, compiled without flags) -/\n"
               f"def assetPatterns : List (List Char) := {lst([x.pattern.decode('ascii') for x in ff.FAsset.ASSET_TYPES])}\n\n"
               "end MitmVerif.C42.Gen\n")
        return {"MitmVerif/Gen/C42.lean": src}

    def setup(self, tier):
        self.tier = tier
        self.pool = build_pool()
        assert len(self.pool) >= 40
        if not getattr(self, "_selftested", False):
            self._selftested = True
            self.known_selftest()
        if tier == "thorough":
            self.parallel = True
            try: os.sched_setaffinity(0, set(sorted(os.sched_getaffinity(0))[:8]))    # the machine is shared: stay on 8 CPUs
            except Exception: pass

    # ---- generator -----------------------------------------------------------------------------
    def _case(self, tree, rng, canonical=False, p_red=0.10, groups=None):
        """one rendering of `tree`; groups = (max nesting, max number) of parenthesised groups, None: the tier's cap"""
        nest, count = groups if groups is not None else (MAX_GROUP[getattr(self, "tier", "quick")], 99)
        r = Renderer(rng, nest, canonical=canonical, p_redundant=0.0 if canonical else p_red, max_count=count)
        for _ in range(4):
            try:
                text, toks, trail = r.render(tree)
                return {"kind": "render", "tree": tree, "s_hex": tx(text), "conc": " ".join(toks), "trail_hex": tx(trail)}
            except Skip: r.p_red = 0.0
        return None

    def generate(self, rng, tier):
        self.tier = tier
        maxd = 4 if tier == "quick" else 6
        if tier == "thorough":
            for c in self.exhaustive(tier): yield c
        if self.pool is None: self.setup(tier)
        for i in range(len(self.pool)):
            yield {"kind": "view", "flow": i}          # every leaf of the table on this flow: predicted by the model vs real
        for i, f in enumerate(self.pool):
            if isinstance(f, http.HTTPFlow):
                yield {"kind": "body", "flow": i, "side": "request"}
                if f.response: yield {"kind": "body", "flow": i, "side": "response"}
        # every non-compiling argument under a str operator, a bytes operator and as a naked regex; then every operator once
        for b in BAD_ARGS:
            for code in ("u", "b", "comment", "h"):
                c = self.uncomp_case(rng, code, b)
                if c: yield c
        for code in REX:
            c = self.uncomp_case(rng, code)
            if c: yield c
        for c in self.body_cases(rng, tier): yield c
        for c in self.pair_cases(rng, 3 if tier == "quick" else len(CASE_PAIRS)): yield c
        # pyparsing needs ~10 ms for an expression without parentheses, ~100 ms with one group, 0.3-1 s with two levels
        GROUPS = {"quick": [(80, (0, 0)), (17, (1, 1)), (3, (2, 3))],
                  "thorough": [(50, (0, 0)), (30, (1, 2)), (16, (2, 3)), (4, (3, 4))]}[tier]
        while True:
            r = rng.random()
            gb = rng.weighted(GROUPS)
            if rng.chance(0.03):
                c = self.uncomp_case(rng)
                if c: yield c
                continue
            if rng.chance(0.04):
                c = self._seq(rng, rng.pick(REX), rng.pick(CASE_PAIRS), rng.randint(2, 4))
                if c: yield c
                continue
            if r < 0.60:
                c = self._case(gen_prec(rng, 4, gb[0]), rng, p_red=0.03 if gb[0] else 0.0, groups=gb)
                if c: yield c
            elif r < 0.85:
                d = rng.weighted([(2, 1), (4, 2), (3, 3), (2, 4)] + ([(1, 5), (1, 6)] if maxd > 4 else []))
                c = self._case(gen_tree(rng, d), rng, groups=gb if gb[0] else (1, 2)) if gb[0] else \
                    self._case(gen_prec(rng, 4, 0, 4), rng, p_red=0.0, groups=(0, 0))
                if c: yield c
            elif r < 0.95:
                c = self._case(gen_prec(rng, 4, gb[0]), rng, groups=gb)
                if not c: continue
                s = list(untx(c["s_hex"]))
                alpha = MUT_ALPHABET if gb[0] else MUT_NOPAREN
                for _ in range(rng.randint(1, 3)):
                    i = rng.randint(0, len(s))
                    m = rng.random()
                    if m < 0.4 and s: del s[min(i, len(s) - 1)]
                    elif m < 0.8: s[i:i] = list(rng.pick(alpha))
                    elif s: s[min(i, len(s) - 1)] = rng.pick(alpha)
                yield self._raw("".join(s), 3 if tier == "thorough" else 1)
            elif r < 0.975:
                alpha = MUT_ALPHABET if gb[0] else MUT_NOPAREN
                yield self._raw("".join(rng.pick(alpha) for _ in range(rng.randint(1, 10))), 3 if tier == "thorough" else 1)
            else:
                # escape soup inside a quoted argument (what pyparsing's unquoting really does), and code/word boundaries
                q = rng.pick("\"'")
                body = "".join(rng.pick(QUOTE_SOUP[:-1] if not gb[0] else QUOTE_SOUP) for _ in range(rng.randint(0, 8)))
                pre = rng.pick(["", "~u ", "~b", "~h  ", "~c ", "~q", "!", "a ", "~c 12", "~cx ", "~hq\t"])
                post = rng.pick(["", "", " b", "&c", ")", "~q", "x", "|", " | d"])
                yield self._raw(pre + q + body + (q if rng.chance(0.9) else "") + post, 1)

    def _seq(self, rng, code, pair, n):
        """n expressions over one operator whose regexes differ only in the case of an escape class, in random order,
        some of them combined in one tree - parsed and evaluated one after the other in one process"""
        lo, up = pair
        if not (compiles(code, lo) and compiles(code, up)): return None
        items = []
        for _ in range(n):
            a, b = (lo, up) if rng.chance(0.5) else (up, lo)
            form = rng.randint(0, 3)
            if form == 0: t = ["R", code, a]
            elif form == 1: t = ["O", [["R", code, a], ["R", code, b]]]
            elif form == 2: t = ["A", [["N", ["R", code, a]], ["R", code, b]]]
            else: t = ["A", [["R", code, a], ["U", rng.pick(UNARY)]]]
            c = self._case(t, rng, groups=(0, 0), p_red=0.0)
            if c: items.append(c)
        return {"kind": "seq", "items": items} if len(items) >= 2 else None

    def body_cases(self, rng, tier="thorough"):
        """the body operators, alone and under every connective, with needles that occur only in the bytes as received,
        only in the decoded bytes, in neither - evaluated on the whole pool (all Content-Encoding situations)"""
        args = ["needle-plain", "needle-decoded", "needle", "\\x1f\\x8b", "hello", "nomatch", "^needle-plain hello 123$"]
        if tier == "quick": args = rng.sample(args, 4)
        # regexes that match the empty string: a present-but-empty body (b"") is searched, an absent one (None) is not
        for code in ("b", "bq", "bs"):
            for a in ("^$", ".*", "", "x*"):
                for t in (["R", code, a], ["N", ["R", code, a]]):
                    c = self._case(t, rng, groups=(0, 0), p_red=0.0)
                    if c: yield c
        for code in ("b", "bq", "bs"):
            for a in args:
                leaf = ["R", code, a]
                other = ["R", rng.pick(["b", "bq", "bs"]), rng.pick(args)]
                forms = [leaf, ["N", leaf], ["A", [["N", leaf], ["I", "c", 200]]], ["O", [["U", "q"], leaf]],
                         ["A", [leaf, other]], ["O", [["N", other], leaf]]]
                for t in (forms if tier != "quick" else [leaf] + rng.sample(forms[1:], 2)):
                    c = self._case(t, rng, groups=(0, 0), p_red=0.0)
                    if c: yield c

    def uncomp_case(self, rng, code=None, bad=None):
        """a documented rendering of a tree in which ONE regex argument does not compile for its operator (syntax errors,
        and arguments that are valid only as a str pattern / only as a bytes pattern) - or, when `bad` happens to compile for
        that operator, a rendering that must be accepted"""
        code = code or rng.pick(REX + [BARE])
        bad = bad if bad is not None else rng.pick(BAD_ARGS)
        leaf = ["R", code, bad]
        form = rng.randint(0, 4)
        other = gen_atom(rng)
        t = [leaf, ["N", leaf], ["A", [other, leaf]], ["O", [leaf, other]], ["A", [["N", other], ["O", [leaf, ["U", "q"]]]]]][form]
        r = Renderer(rng, 1, p_redundant=0.0, max_count=1)
        for _ in range(4):
            try:
                text, toks, trail = r.render(t)
                return {"kind": "uncomp", "tree": t, "s_hex": tx(text), "conc": " ".join(toks), "trail_hex": tx(trail)}
            except Skip: pass
        return None

    def pair_cases(self, rng, per_op):
        """every regex operator with `per_op` of the case-differing pairs: the two spellings one after the other in both
        orders (sequence cases), and both in one tree in both orders"""
        for code in REX:
            pairs = [p for p in CASE_PAIRS if compiles(code, p[0]) and compiles(code, p[1])]
            rng.shuffle(pairs)
            for lo, up in pairs[:per_op]:
                for a, b in ((lo, up), (up, lo)):
                    one = [self._case(["R", code, x], rng, canonical=True, groups=(0, 0)) for x in (a, b, a)]
                    yield {"kind": "seq", "items": one}
                    c = self._case(["O", [["R", code, a], ["R", code, b]]], rng, groups=(0, 0), p_red=0.0)
                    if c: yield c

    def _raw(self, s, max_open=3):
        # keep pyparsing's exponential re-parsing in check: at most `max_open` opening parentheses in a raw string
        out, n = [], 0
        for ch in s:
            if ch == "(":
                n += 1
                if n > max_open: continue
            out.append(ch)
        return {"kind": "raw", "s_hex": tx("".join(out))}

    def exhaustive(self, tier):
        """every tree of depth <= 2 over 5 atoms (one of each kind), canonical layout and one random layout"""
        from common.prng import Rng
        rng = Rng(4242)
        self.tier = getattr(self, "tier", tier)
        atoms = [["U", "q"], ["R", "h", "host"], ["I", "c", 200], ["R", BARE, "a|b"], ["R", "b", "it's a\tb"]]
        d1 = [a for a in atoms]
        for a in atoms: d1.append(["N", a])
        for k in "AO":
            for a in atoms:
                for b in atoms: d1.append([k, [a, b]])
        d1 += [["A", [atoms[0], atoms[1], atoms[3]]], ["O", [atoms[3], atoms[2], atoms[0]]]]
        for t in d1:
            for canon in (True, False):
                c = self._case(t, rng, canon)
                if c: yield c
        small = atoms[:2] + [["N", atoms[3]], ["A", [atoms[0], atoms[3]]], ["O", [atoms[1], atoms[2]]], ["A", [atoms[3], atoms[4], atoms[0]]]]
        for k in "AO":
            for a in d1[5:]:
                for b in small:
                    for t in ([k, [a, b]], [k, [b, a]]):
                        c = self._case(t, rng, rng.chance(0.3))
                        if c: yield c
        for a in d1[5:]:
            c = self._case(["N", a], rng)
            if c: yield c

    def shrink_candidates(self, case):
        """render cases: the canonical layout, every proper subtree, the tree with one member of a run dropped;
        raw cases: one character dropped"""
        from common.prng import Rng
        rng = Rng(7)
        if case.get("kind") in ("body", "view", "uncomp"):
            return
        if case.get("kind") == "seq":
            return      # not shrunk: a shorter sequence would be judged in a different history of the process
        if case.get("kind") == "render":
            t = case["tree"]
            def subs(t):
                if t[0] == "N": yield t[1]
                elif t[0] in "AO":
                    for x in t[1]: yield x
                    if len(t[1]) > 2:
                        for i in range(len(t[1])): yield [t[0], t[1][:i] + t[1][i + 1:]]
            def smaller(t):
                """t with one subtree replaced by something smaller"""
                for x in subs(t): yield x
                if t[0] == "N":
                    for y in smaller(t[1]): yield ["N", y]
                elif t[0] in "AO":
                    for i, x in enumerate(t[1]):
                        for y in smaller(x): yield [t[0], t[1][:i] + [y] + t[1][i + 1:]]
            canon = self._case(t, rng, canonical=True, groups=(4, 99))
            if canon and canon["s_hex"] != case["s_hex"]: yield canon
            for y in smaller(t):
                c = self._case(y, rng, canonical=True, groups=(4, 99))
                if c: yield c
        else:
            s = untx(case["s_hex"])
            for i in range(len(s)):
                yield {"kind": "raw", "s_hex": tx(s[:i] + s[i + 1:])}

    def neighbours(self, case, rng):
        if case.get("kind") == "render":
            for _ in range(40):
                c = self._case(case["tree"], rng)
                if c: yield c

    # ---- sequences: the verdict of an expression is a function of the expression and the flow only, whatever was
    # parsed before in the same process.  A "seq" case holds a short list of render/raw items evaluated in order.
    @staticmethod
    def _items(case):
        return case["items"] if case.get("kind") == "seq" else None

    def impl(self, case):
        self._last_atoms = {}
        items = self._items(case)
        if items is None: return self._impl_one(case)
        return {"items": [self._impl_one(it) for it in items]}

    def oracle(self, case, obs):
        items = self._items(case)
        if items is None: return self._oracle_one(case, obs)
        return ["#%d %s" % (i, f) for i, (it, o) in enumerate(zip(items, obs["items"])) for f in self._oracle_one(it, o)]

    def known(self, case, obs, failure):
        items = self._items(case)
        if items is None: return self._known_one(case, obs, failure)
        m = re.match(r"#(\d+) (.*)", failure, re.S)
        if not m: return None
        i = int(m.group(1))
        return self._known_one(items[i], obs["items"][i], m.group(2))

    def model_lines(self, case):
        items = self._items(case)
        if items is None: return self._lines_one(case)
        return [l for it in items for l in self._lines_one(it)]

    def model_obs(self, case, replies):
        items = self._items(case)
        if items is None: return self._mobs_one(case, replies)
        out, k = [], 0
        for it in items:
            n = 1 if it["kind"] in ("body", "view") else 1 + (1 if it.get("conc") else 0) + (2 if it["kind"] == "render" else 1 if it["kind"] == "uncomp" else 0)
            out.append(self._mobs_one(it, replies[k:k + n])); k += n
        return out

    def impl_view(self, case, obs):
        items = self._items(case)
        if items is None: return self._iview_one(case, obs)
        return [self._iview_one(it, o) for it, o in zip(items, obs["items"])]

    def classify(self, case, obs):
        items = self._items(case)
        if items is None: return self._classify_one(case, obs)
        return "seq:" + "/".join(it["s_hex"] for it in items)

    def branches(self, case, obs):
        items = self._items(case)
        if items is None: return self._branches_one(case, obs)
        out = ["seq", "seq-len:%d" % len(items)]
        for it, o in zip(items, obs["items"]):
            out += [b for b in self._branches_one(it, o) if b in ("accepted", "rejected", "verdict-mixed", "print-parsed")]
        return out

    # ---- implementation runner -----------------------------------------------------------------
    def _parse_limited(self, s):
        """flowfilter.parse under a wall-clock limit: pyparsing's infix_notation re-parses every operand at every
        operator level, so a few nested groups can take minutes; such a case is skipped (it says nothing about the
        grammar), never counted.  Re-arms the runner's own SIGALRM timer afterwards."""
        import signal, time
        if not hasattr(signal, "setitimer"): return ff.parse(s)
        limit = PARSE_LIMIT[getattr(self, "tier", "quick")]
        def on_alarm(signum, frame): raise _ParseTooSlow()
        t0 = time.time()
        old_handler = signal.signal(signal.SIGALRM, on_alarm)
        old = signal.setitimer(signal.ITIMER_REAL, limit)
        try:
            return ff.parse(s)
        except _ParseTooSlow:
            raise Skip()
        finally:
            signal.setitimer(signal.ITIMER_REAL, 0)
            signal.signal(signal.SIGALRM, old_handler)
            if old[0] > 0: signal.setitimer(signal.ITIMER_REAL, max(0.01, old[0] - (time.time() - t0)))

    def _probes(self, code):
        if not hasattr(self, "_probe_cache"): self._probe_cache = {}
        if code not in self._probe_cache:
            self._probe_cache[code] = [a for a in dict.fromkeys(ARGS) if compiles(code, a)]
        return self._probe_cache[code]

    def _leaf(self, code, arg):
        if not hasattr(self, "_leaf_cache"): self._leaf_cache = {}
        k = (code, arg)
        if k not in self._leaf_cache:
            self._leaf_cache[k] = CLS[code]() if arg is None else CLS[code](arg)
        return self._leaf_cache[k]

    def _predict_view(self, reply):
        """the leaf verdicts the model predicts: the driver says which byte strings each operator searches and with which
        flags (pattern kind, IGNORECASE, MULTILINE, DOTALL); the regex engine (the parameter) is CPython's re"""
        rexp, unp, intp = reply.split("|")
        lst = lambda t: [] if t == "." else [bytes.fromhex(x) if x != "-" else b"" for x in t.split(",")]
        out = {"rex": {}, "unary": {}, "int": {}}
        for ent in rexp.split(";"):
            code, _, rest = ent.partition("=")
            fl, _, subj = rest.partition(":")
            if code == "@a":
                pats, vals = lst(fl), lst(subj)
                out["unary"]["a"] = "1" if any(re.search(p, v) for p in pats for v in vals) else "0"
                continue
            binary = fl[0] == "1"
            flags = (re.IGNORECASE if fl[1] == "1" else 0) | (re.MULTILINE if fl[2] == "1" else 0) | (re.DOTALL if fl[3] == "1" else 0)
            subs = lst(subj) if binary else [x.decode("utf-8", "surrogatepass") for x in lst(subj)]
            bits = []
            if not hasattr(self, "_rx_cache"): self._rx_cache = {}
            for a in self._probes(code):
                rx = self._rx_cache.get((a, binary, flags))
                if rx is None: rx = self._rx_cache[(a, binary, flags)] = re.compile(a.encode() if binary else a, flags)
                bits.append("1" if any(rx.search(x) for x in subs) else "0")
            out["rex"][code] = "".join(bits)
        for ent in unp.split(","):
            code, _, v = ent.partition("=")
            out["unary"][code] = v
        for ent in intp.split(","):
            code, _, v = ent.partition("=")
            out["int"][code] = "".join("1" if v != "none" and int(v) == n else "0" for n in INT_PROBES)
        return out

    def _impl_one(self, case):
        if self.pool is None: self.setup("quick")
        if case["kind"] == "view":
            # the verdict of every leaf of the table (every regex operator x every probe regex, every unary operator,
            # ~c x probe codes) from the REAL leaf objects on one pool flow
            f = self.pool[case["flow"]]
            def call(leaf):
                try: return "1" if leaf(f) else "0"
                except Exception: return "X"
            return {"rex": {c: "".join(call(self._leaf(c, a)) for a in self._probes(c)) for c in REX},
                    "unary": {c: call(self._leaf(c, None)) for c in UNARY},
                    "int": {c: "".join(call(self._leaf(c, n)) for n in INT_PROBES) for c in INT}}
        if case["kind"] == "body":
            b = getattr(self.pool[case["flow"]], case["side"]).get_content(strict=False)
            return {"searched": "none" if b is None else (b.hex() or "-")}
        s = untx(case["s_hex"])
        try:
            flt = self._parse_limited(s)
        except ValueError:
            self._last_atoms[case["s_hex"]] = []
            return {"shape": "reject", "v": None, "atoms": []}
        atoms = atoms_of_tok(flt, [])
        raised = []
        def bits(t, top=False):
            out = []
            for i, f in enumerate(self.pool):
                try: out.append("1" if t(f) else "0")
                except Exception as e:                      # the filter call must yield a Boolean on every flow
                    out.append("X")
                    if top: raised.append([i, type(e).__name__])
            return "".join(out)
        obs = {"shape": shape_of_tok(flt), "v": bits(flt, True), "atoms": [bits(a) for a in atoms]}
        if raised: obs["raised"] = raised
        if case["kind"] == "render":
            # the canonical text the Lean `print` predicts for the tree, through the real parser (when it costs no more
            # parenthesised groups than the rendering itself did)
            text, g = canon_print(case["tree"])
            own = case["conc"].split().count("g") if case.get("conc") else 2
            if g <= own:
                try: obs["p_shape"] = shape_of_tok(self._parse_limited(text))
                except ValueError: obs["p_shape"] = "reject"
                except Skip: pass
        self._last_atoms[case["s_hex"]] = obs["atoms"]
        return obs

    # ---- reference semantics ---------------------------------------------------------------------
    def ref_atom(self, t, crlf=False):
        key = (t[0], t[1], t[2] if len(t) > 2 else None, crlf)
        r = self._ref_cache.get(key)
        if r is not None: return r
        if t[0] == "U":
            fn = REF_UNARY[t[1]]
            r = [bool(fn(f)) for f in self.pool]
        elif t[0] == "I":
            r = [bool(REF_INT[t[1]](f, t[2])) for f in self.pool]
        else:
            binary, flags, subj = REF_REX[t[1]]
            if crlf and t[1] in HDR_CODES: subj = HDR_BLOCK[t[1]]
            rx = re.compile(t[2].encode() if binary else t[2], flags | re.IGNORECASE)   # "Regexes are case-insensitive"
            r = [any(rx.search(x) is not None for x in subj(f)) for f in self.pool]
        self._ref_cache[key] = r
        return r

    def ref_eval(self, t, crlf=False):
        k = t[0]
        if k in "URI": return self.ref_atom(t, crlf)
        if k == "N": return [not x for x in self.ref_eval(t[1], crlf)]
        cols = [self.ref_eval(x, crlf) for x in t[1]]
        f = all if k == "A" else any
        return [f(c[i] for c in cols) for i in range(len(self.pool))]

    # ---- the property, as a predicate over the implementation's observable -------------------
    def _oracle_one(self, case, obs):
        if case["kind"] == "view": return []      # a tie only: the oracle clauses for leaves are asked through render cases
        if case["kind"] == "body":
            # what a body operator searches: decoded when the Content-Encoding can be applied, as received when it cannot
            msg = getattr(self.pool[case["flow"]], case["side"])
            want = ref_body(msg)
            want = "none" if want is None else (want.hex() or "-")
            return [] if obs["searched"] == want else ["body: %s of pool flow #%d is searched as %s, documented %s"
                                                      % (case["side"], case["flow"], obs["searched"][:60], want[:60])]
        if case["kind"] == "uncomp":
            # parse() "If the filter syntax is invalid, ValueError is raised": a documented rendering is accepted exactly
            # when every regex argument compiles (`_Rex.__init__` -> ValueError -> parse raises) - Lean: parse_render_exact /
            # parse_render_uncompilable
            bad = [(c, a) for c, a in tree_rex_atoms(case["tree"]) if not compiles(c, a)]
            if bad and obs["shape"] != "reject":
                return ["uncompilable-accepted: %r was accepted as %s although ~%s %r does not compile"
                        % (untx(case["s_hex"]), obs["shape"], bad[0][0], bad[0][1])]
            if not bad and obs["shape"] == "reject":
                return ["rejected-but-should-parse: %r" % untx(case["s_hex"])]
            if not bad and obs["shape"] != shape_of_tree(case["tree"]):
                return ["tree: %r parsed as %s, written as %s" % (untx(case["s_hex"]), obs["shape"], shape_of_tree(case["tree"]))]
            return []
        if case["kind"] != "render":
            # a raw string that parses is a filter too: its call must yield a Boolean on every flow
            return ["raised %s: %r on pool flow #%d (%s)" % (t, untx(case["s_hex"]), i, type(self.pool[i]).__name__)
                    for i, t in obs.get("raised", [])[:1]]
        tree = case["tree"]
        # "Every filter expression built from the documented operators ... is accepted"
        if obs["shape"] == "reject":
            return ["rejected-but-should-parse: %r" % untx(case["s_hex"])]
        fails = []
        # "! binds tighter than &, & binds tighter than |" / grouping: the parse is the tree that was written down
        want = shape_of_tree(tree)
        if obs["shape"] != want:
            fails.append("tree: %r parsed as %s, written as %s" % (untx(case["s_hex"]), obs["shape"], want))
        # the same for the canonical spelling of the tree (parse . print = id)
        if obs.get("p_shape") is not None and obs["p_shape"] != want:
            fails.append("print: canonical text %r parsed as %s, written as %s" % (canon_print(tree)[0], obs["p_shape"], want))
        # "for every flow its verdict ..." - there must be a verdict: a filter call that raises has none
        for i, t in obs.get("raised", [])[:1]:
            fails.append("raised %s: %r on pool flow #%d (%s)" % (t, untx(case["s_hex"]), i, type(self.pool[i]).__name__))
        # "... equals the documented semantics"
        ref = "".join("1" if x else "0" for x in self.ref_eval(tree))
        if obs["v"] != ref and not obs.get("raised"):
            i = next(i for i in range(len(ref)) if obs["v"][i] != ref[i])
            fails.append("verdict: %r on pool flow #%d (%s) is %s, documented semantics gives %s"
                         % (untx(case["s_hex"]), i, type(self.pool[i]).__name__, obs["v"][i], ref[i]))
        return fails

    def _known_one(self, case, obs, failure):
        """F-C42a: exactly the verdicts that become the documented ones when a ~h/~hq/~hs regex is read against the
        CRLF-joined header block (what the code searches) instead of each "name: value" line"""
        # recorded kind of failure: the verdict clause only (a rejected rendering or a different tree is never excused),
        # and the expression was parsed as written
        if case.get("kind") != "render" or not failure.startswith("verdict:") or not isinstance(obs, dict) or not obs.get("v"):
            return None
        if obs.get("shape") != shape_of_tree(case["tree"]):
            return None
        # recorded input class: a ~h/~hq/~hs leaf, and the whole observed verdict vector is the documented one with those
        # leaves (and nothing else) read against the CRLF-joined block
        if not has_hdr_atom(case["tree"]):
            return None
        if self.pool is None: self.setup("quick")
        bits = lambda v: "".join("1" if x else "0" for x in v)
        if bits(self.ref_eval(case["tree"], crlf=True)) == obs["v"] and bits(self.ref_eval(case["tree"])) != obs["v"]:
            return "F-C42a"
        return None

    def known_selftest(self):
        """the classifier of F-C42a fires on its witness and on nothing near it (notes/known_audit.txt)"""
        bits = lambda v: "".join("1" if x else "0" for x in v)
        flip = lambda b, i: b[:i] + ("0" if b[i] == "1" else "1") + b[i + 1:]
        R = lambda tree, s: {"kind": "render", "tree": tree, "s_hex": tx(s)}
        def obs_of(tree, v, shape=None): return {"shape": shape or shape_of_tree(tree), "v": v, "atoms": []}
        def clause(case, obs, kind):
            fs = [f for f in self.oracle(case, obs) if f.split(" ", 1)[-1].startswith(kind) or f.startswith(kind)]
            assert fs, ("selftest: oracle gives no %r failure" % kind, case, obs)
            return fs[0]
        wit = R(["R", "h", "qvalue$"], "~h qvalue$")
        crlf = bits(self.ref_eval(wit["tree"], crlf=True)); doc = bits(self.ref_eval(wit["tree"]))
        assert crlf != doc, "selftest: the pool no longer separates the two readings of ~h"
        comp = R(["O", [["R", "hq", "qvalue$"], ["N", ["U", "e"]]]], "~hq qvalue$ | !~e")
        comp_crlf = bits(self.ref_eval(comp["tree"], crlf=True))
        assert comp_crlf != bits(self.ref_eval(comp["tree"]))
        nohdr = R(["R", "b", "content$"], "~b content$"); nohdr_doc = bits(self.ref_eval(nohdr["tree"]))
        ct = R(["R", "t", "html$"], "~t html$"); ct_doc = bits(self.ref_eval(ct["tree"]))
        other = R(["R", "u", "\\D"], "~u \\D"); other_doc = bits(self.ref_eval(other["tree"]))
        seq = {"kind": "seq", "items": [wit, other]}
        seq_obs = {"items": [obs_of(wit["tree"], crlf), obs_of(other["tree"], flip(other_doc, 5))]}
        triples = [
            # the recorded finding: ~h leaf, parsed as written, verdicts = CRLF-block reading
            (wit, obs_of(wit["tree"], crlf), "verdict:", "F-C42a"),
            (comp, obs_of(comp["tree"], comp_crlf), "verdict:", "F-C42a"),
            (seq, seq_obs, "#0 verdict:", "F-C42a"),
            # (a) same input class, different failure clause
            (wit, {"shape": "reject", "v": None, "atoms": []}, "rejected-but-should-parse", None),
            (wit, obs_of(wit["tree"], crlf, shape="Ru:" + tx("qvalue$")), "tree:", None),
            (wit, obs_of(wit["tree"], crlf, shape="Ru:" + tx("qvalue$")), "verdict:", None),
            # (a) same input class, verdicts that are NOT the CRLF reading
            (wit, obs_of(wit["tree"], flip(crlf, 0)), "verdict:", None),
            (wit, obs_of(wit["tree"], "0" * len(crlf)) if "0" * len(crlf) not in (crlf, doc) else obs_of(wit["tree"], flip(crlf, 1)), "verdict:", None),
            (comp, obs_of(comp["tree"], flip(comp_crlf, len(comp_crlf) - 3)), "verdict:", None),
            # (b) just outside the class: no ~h/~hq/~hs leaf, same kind of failure
            (nohdr, obs_of(nohdr["tree"], flip(nohdr_doc, 0)), "verdict:", None),
            (ct, obs_of(ct["tree"], flip(ct_doc, 1)), "verdict:", None),
            (seq, seq_obs, "#1 verdict:", None),
            # a ~h tree whose evaluation raised: another clause, never excused
            (wit, dict(obs_of(wit["tree"], "X" + crlf[1:]), raised=[[0, "ValueError"]]), "raised", None),
        ]
        for case, obs, kind, want in triples:
            f = clause(case, obs, kind)
            got = self.known(case, obs, f)
            assert got == want, ("known() selftest: expected %r, got %r" % (want, got), case, f)


    # ---- model tie ---------------------------------------------------------------------------------
    def _lines_one(self, case):
        if case["kind"] == "view":
            return ["lv " + " ".join(flow_view(self.pool[case["flow"]]))]
        if case["kind"] == "body":
            # the model (Model/C42_Body.lean `searched`) is given the raw bytes, the header value and the outcome of the
            # independent decoder, and predicts what is searched
            msg = getattr(self.pool[case["flow"]], case["side"])
            raw, ce = msg.raw_content, msg.headers.get("content-encoding")
            dec = None if (raw is None or not ce) else (ref_decode(ce, raw) if raw else raw)
            return ["bd %s %s %s" % ("none" if raw is None else (raw.hex() or "-"), "none" if ce is None else tx(ce),
                                     "fail" if dec is None else (dec.hex() or "-"))]
        # the per-atom verdicts (the `Sem` parameter of the model's eval) come from the real atom objects, left to right
        atoms = self._last_atoms.get(case["s_hex"])
        if atoms is None: atoms = self._impl_one(case)["atoms"]
        lines = [" ".join(["px", case["s_hex"]] + atoms)]
        if case.get("conc"):
            # the layout the harness chose, as a term of the Lean concrete syntax `C`: the driver prints it with the Lean
            # `render`, decides the Lean `WF` and computes the Lean `ast` - so the strings tested are `Renders` instances
            lines.append("rn " + case["conc"])
        if case["kind"] == "render":
            lines.append("pr " + " ".join(tree_tokens(case["tree"])))      # Lean `print` of the tree
        if case["kind"] in ("render", "uncomp"):
            # the model of flowfilter.parse itself (`parse compiles`), `compiles` answered by the real re.compile per
            # (operator, argument) of the rendered tree
            lines.append(" ".join(["pc", case["s_hex"]] + bad_pairs(case["tree"])))
        return lines

    def _mobs_one(self, case, replies):
        if case["kind"] == "view": return self._predict_view(replies[0]) if "|" in replies[0] else replies[0]
        if case["kind"] == "body": return replies[0]
        r, extra = replies[0], list(replies[1:])      # extra: the `rn` reply (if the case carries its layout), the `pr` reply
        if r == "reject": return ["reject", None] + extra
        shape, _, v = r.partition(" ")
        for code, h in re.findall(r"R(\w+):([0-9a-f]+|-)", shape):
            if not compiles(code, untx(h)): return ["reject", None] + extra      # the `compiles` parameter, instantiated with CPython re
        for n in re.findall(r"I\w+:(\d+)", shape):
            if len(n) > 4300: return ["reject", None] + extra
        return [shape, v if v != "-" else None] + extra

    def _iview_one(self, case, obs):
        if case["kind"] == "view": return obs
        if case["kind"] == "body": return obs["searched"]
        out = [obs["shape"], obs["v"]]
        if case.get("conc"):
            s = untx(case["s_hex"]); trail = untx(case["trail_hex"])
            body = s[:len(s) - len(trail)] if trail else s
            out.append("%s 1 %s" % (tx(body), shape_of_tree(case["tree"])))
        if case["kind"] == "render":
            out.append(tx(canon_print(case["tree"])[0]))
        if case["kind"] in ("render", "uncomp"):
            out.append(obs["shape"])          # what flowfilter.parse did: the tree, or "reject" (ValueError)
        return out

    def _classify_one(self, case, obs):
        if case["kind"] == "view": return "view:%d" % case["flow"]
        if case["kind"] == "body": return "body:%d:%s" % (case["flow"], case["side"])
        if case["kind"] == "render" and tree_ops(case["tree"]) == 0 and case["tree"][0] == "U": return None
        return case["s_hex"]

    def _branches_one(self, case, obs):
        if case["kind"] == "view": return ["view", "view:" + flow_view(self.pool[case["flow"]])[0]]
        if case["kind"] == "body": return ["body", "body:" + ("none" if obs["searched"] == "none" else "some")]
        out = [case["kind"], "accepted" if obs["shape"] != "reject" else "rejected"]
        s = untx(case["s_hex"])
        if case["kind"] == "render":
            t = case["tree"]
            out.append("ops:%d" % min(tree_ops(t), 6))
            d, m = 0, 0
            for ch in s:
                if ch == "(": d += 1; m = max(m, d)
                elif ch == ")": d -= 1
            out.append("groups:%d" % m)
            if '"' in s or "'" in s: out.append("quoted")
            if "\t" in s: out.append("tab")
            if obs["v"] and "1" in obs["v"] and "0" in obs["v"]: out.append("verdict-mixed")
            if obs.get("p_shape") is not None: out.append("print-parsed")
        return out
