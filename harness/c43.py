"""C43 — the flow view always shows exactly the matching flows in order (mitmproxy/addons/view.py)."""
import itertools, json, logging, warnings
from common.check import PropertyCheck, Skip

from mitmproxy import exceptions, flow as mflow, flowfilter, tcp, udp
from mitmproxy.addons import view as mview
from mitmproxy.test import taddons, tflow, tutils
from mitmproxy.utils import human

warnings.simplefilter("ignore", DeprecationWarning)
logging.disable(logging.CRITICAL)
_TCTX = None


class addon_context:
    """one long-lived taddons master per process; the addon is registered for the duration of a case"""
    def __init__(self, addon): self.addon = addon
    def __enter__(self):
        global _TCTX
        if _TCTX is None: _TCTX = taddons.context()
        _TCTX.master.addons.add(self.addon)
        return _TCTX
    def __exit__(self, *a):
        _TCTX.master.addons.remove(self.addon)
        return False


TYPES = ["http", "tcp", "udp", "dns"]
FILTERS = [None, "~marked", "~m POST | ~tcp", "~u /a | ~dns", "~q | ~udp", "~e", "!~http", "~b xxxx | ~t nothing"]
ORDERS = ["time", "method", "url", "size"]
SLOT = {"time": 1, "method": 2, "url": 3, "size": 4}
METHODS = ["GET", "POST", "PUT"]
PATHS = ["/a", "/b", "/c"]
ADDRS = ["alpha", "beta", "gamma"]
NAMES = ["a.example", "b.example", "c.example"]
SIZES = [0, 3, 10, 50]
_PARSED = [None] + [flowfilter.parse(x) for x in FILTERS[1:]]


def make_flow(kind):
    if kind == "http": return tflow.tflow()
    if kind == "tcp": return tflow.ttcpflow()
    if kind == "udp": return tflow.tudpflow()
    return tflow.tdnsflow()


def mutate(f, kind, a):
    """put flow `f` into the state described by the abstract attributes `a`"""
    f.timestamp_created = float(a["t"])
    f.marked = ":x:" if a["mk"] else ""
    if a["e"]:
        if f.error is None: f.error = mflow.Error("boom")
    elif f.error is not None and f.error.msg != mflow.Error.KILLED_MESSAGE:
        f.error = None
    if kind == "http":
        f.request.method = METHODS[a["m"] % 3]
        f.request.path = PATHS[a["u"] % 3]
        f.request.content = b"x" * SIZES[a["z"] % 4]
        f.response = tutils.tresp(content=b"y" * SIZES[(a["z"] + a["m"]) % 4]) if a["rsp"] else None
    elif kind in ("tcp", "udp"):
        f.server_conn.address = (ADDRS[a["u"] % 3], 80)
        M = tcp.TCPMessage if kind == "tcp" else udp.UDPMessage
        f.messages = [M(True, b"x" * SIZES[a["z"] % 4])] + ([M(False, b"yy")] if a["rsp"] else [])
    else:
        f.request.op_code = a["m"] % 3
        if a["u"] % 4 == 3: f.request.questions = []
        else:
            if not f.request.questions: f.request.questions = tflow.tdnsflow().request.questions
            f.request.questions[0].name = NAMES[a["u"] % 3]
        f.response = tflow.tdnsflow(resp=True).response if a["rsp"] else None


def eb(b):
    return bytes(b).hex() if b else "_"


def flow_data(f, kind):
    """what the four key generators read of a flow, for the Lean transcription `genKey` (not via `generate`)"""
    ts = int(f.timestamp_created)
    if kind == "http":
        rq = f.request.raw_content
        rs = "X" if f.response is None else ("N" if f.response.raw_content is None else str(len(f.response.raw_content)))
        return f"h:{ts}:{eb(f.request.method.encode())}:{eb(f.request.url.encode())}:{'N' if rq is None else len(rq)}:{rs}"
    if kind in ("tcp", "udp"):
        ls = ",".join(str(len(m.content)) for m in f.messages) or "-"
        return f"t:{ts}:{int(kind == 'tcp')}:{eb(human.format_address(f.server_conn.address).encode())}:{ls}"
    q = eb(f.request.questions[0].name.encode()) if f.request.questions else "N"
    return f"d:{ts}:{f.request.op_code}:{q}:{f.response.size if f.response else 'N'}"


def show_key(v):
    return "n%d" % int(v) if isinstance(v, (int, float)) else "s" + eb(v.encode())


def _rank_tables():
    """order-preserving maps from the string sort keys of the pool to naturals (the model sorts naturals)"""
    v = mview.View()
    ms, us = set(), set()
    for kind in TYPES:
        f = make_flow(kind)
        for m, u in itertools.product(range(3), range(4)):
            mutate(f, kind, {"t": 0, "m": m, "u": u, "z": 0, "mk": 0, "e": 0, "rsp": 0})
            ms.add(v.orders["method"].generate(f)); us.add(v.orders["url"].generate(f))
    return {s: i for i, s in enumerate(sorted(ms))}, {s: i for i, s in enumerate(sorted(us))}


class Recorder:
    """records the view's and the focus' signals in the order in which they are delivered"""
    def __init__(self, v, ident):
        self.out, self.ident = [], ident
        # keep references: SyncSignal holds receivers weakly
        self._h = [self.vadd, self.vrm, self.vupd, self.vref, self.srm, self.sref, self.fch]
        v.sig_view_add.connect(self.vadd); v.sig_view_remove.connect(self.vrm); v.sig_view_update.connect(self.vupd)
        v.sig_view_refresh.connect(self.vref); v.sig_store_remove.connect(self.srm); v.sig_store_refresh.connect(self.sref)
        v.focus.sig_change.connect(self.fch)
    def n(self, f): return self.ident.get(id(f), "?")
    def vadd(self, flow): self.out.append(f"a{self.n(flow)}")
    def vrm(self, flow, index): self.out.append(f"r{self.n(flow)}@{index}")
    def vupd(self, flow): self.out.append(f"u{self.n(flow)}")
    def vref(self): self.out.append("R")
    def srm(self, flow): self.out.append(f"s{self.n(flow)}")
    def sref(self): self.out.append("S")
    def fch(self): self.out.append("f")
    def take(self):
        o, self.out = self.out, []
        return o


class Check(PropertyCheck):
    prop = "C43"
    design_ref = "§5 C43"
    level_text = ("Lean theorems over ALL operation sequences (add/update with new attributes, `mutate` = a change of a flow "
                  "that is not reported to the view, remove, clear, clear-unmarked, filter/order/direction changes, marked-only "
                  "toggles, focus moves, settings writes) of the model of View/Focus/Settings: view_eq_sorted_filter (listed => "
                  "stored; flows whose last change the view has seen are listed iff they match, and are sorted), "
                  "view_eq_sorted_filter_current (no unreported change pending: list(view) = permutation of the matching stored "
                  "flows, sorted, reversed on request), each_once, focus_in_view_or_empty, settings_subset_store, "
                  "signals_match_changes, update_is_announced, never_crashes — from an inductive invariant; the refinement to "
                  "`filter the store, then stable sort`: sorted_list_is_stable_sort (bisect_right insertion = stable sort), "
                  "refilter_is_stable_sort_of_store and set_order_is_stable_sort_of_view (exact equalities right after those "
                  "operations), view_is_sort_when_keys_distinct (exact always when keys are pairwise different); the four key "
                  "generators as Lean code genKey with real_keys_total_preorder (Python's <= on their values is a total preorder "
                  "per order), rank_is_order_embedding (the rank among the keys of a history maps them order-preservingly to naturals) "
                  "and view_sorted_by_real_keys (for every history given by the flows' data, fed to the model through that rank, "
                  "the listed flows are in the order of their generated keys — no hypothesis; view_sorted_by_generated_keys is its "
                  "conditional form). Tie: after every operation list(view), focus, store order, "
                  "settings ids and the exact signal sequence are compared; genKey and SortKey.le are compared with the real "
                  "generate() values and Python's <= on flows of every type (incl. OPCODE(n), non-ASCII names, missing content).")
    level_note = ("PROOF SIDE, what it does not say (cross-audit round 6): signals_match_changes (SigOK) is membership-based - every "
                  "add/remove/update/store-remove signal is justified by the change it announces and every change is announced "
                  "(individually or by a refresh) - it does not state 'exactly once'; multiplicity and order of the signals are "
                  "checked by the tie only (the exact signal sequence is compared after every operation). rankIn / keysOf / toOp "
                  "(view_sorted_by_real_keys) are proof-side and not run by the driver: the harness builds its rank tables in Python "
                  "over its fixed pools (the same construction); tied are the state machine on naturals, genKey and SortKey.le, "
                  "and the oracle sorts by the real keys independently. ORACLE LENIENCIES (all; each tried by known_selftest on hand-written observations at every run): (a) Skip() "
                  "only for cases whose operations name a flow index outside the pool (after shrinking); (b) a stored flow that "
                  "changed behind the view's back (`mutate`) is excused from the membership clause exactly while its current "
                  "visibility differs from the one the view last evaluated, and from the order clause exactly while its current "
                  "key differs from the one the view last evaluated — a mutated flow whose value is unchanged is not excused, and "
                  "`listed => stored, once`, focus, settings and announcements are demanded for every flow; (c) the order among "
                  "equal keys is not demanded (not in the statement). Every expected value of the oracle (store, visibility, keys, "
                  "direction, which flows must enter/leave) comes from Check.reference(case): own flows driven by the case's "
                  "operations, flowfilter and the key generators as references, never the View under test; the harness observes "
                  "the view only by iteration and attribute reads (no `f in view` / index lookups, which would re-cache keys). "
                  "The Lean `stale` set is slightly coarser than (b): a mutate that changes the visibility or the key under the "
                  "selected order makes the flow stale for both clauses until its re-evaluation (a mutate that changes neither does not). With ties the order among equal keys "
                  "is the order of (re-)insertion and depends on the history (proved stable only at re-filter / re-order). "
                  "trusted: sortedcontainers.SortedListWithKey behaves as a sorted list with bisect_right insertion and key-based "
                  "lookup (tied differentially, not proved); flowfilter verdicts are evaluated by the real flowfilter and fed to "
                  "the model as data; the state machine sorts naturals; that they are an order-preserving image of the generated "
                  "keys is proved for the rank map (view_sorted_by_real_keys) — the harness uses rank tables over its fixed "
                  "pools, the same construction; the keys themselves and their order are modelled and tied; request.url, format_address and dns size enter genKey as data; list arguments are modelled "
                  "as the sequence of single-flow operations; duplicate/create/load_file/resolve are not modelled.")
    technique = "Lean 4 proof (invariant induction over operation sequences) + differential model-vs-addon correspondence"
    rule = ("a pool of 2-5 flows of types http/tcp/udp/dns; sequences of <=25 operations; every add/update/mutate carries fresh "
            "abstract attributes (timestamp, method/op-code, url/address/name, size, mark, error, response) from small pools so "
            "that keys tie and filter verdicts flip; thorough adds all sequences of <=3 operations over 2 flows from a 16-op "
            "alphabet; 6 % of the cases are `keys` cases (flows of every type in random states: every generate() value and "
            "every pairwise <= against genKey / SortKey.le). distinct = distinct observable trace; non-trivial = view non-empty at some point.")
    budget = {"quick": 1200, "thorough": 70000}
    time_budget = {"quick": 22, "thorough": 420}
    fingerprints = ["mitmproxy.addons.view:View", "mitmproxy.addons.view:Focus", "mitmproxy.addons.view:Settings",
                    "mitmproxy.addons.view:_OrderKey", "mitmproxy.addons.view:OrderRequestStart",
                    "mitmproxy.addons.view:OrderRequestMethod", "mitmproxy.addons.view:OrderRequestURL",
                    "mitmproxy.addons.view:OrderKeySize", "mitmproxy.net.dns.op_codes:to_str"]
    trusted_base = ["sortedcontainers.SortedListWithKey (add = insert at bisect_right of the key; remove/index/contains by key then identity)",
                    "mitmproxy.flowfilter verdicts (property C42) and the key generators' inputs, evaluated by the real code"]
    parallel = False

    def setup(self, tier):
        self.parallel = False      # serial in every tier: forked pool workers occasionally dead-lock under load (60 s case time-outs)
        self.rank_m, self.rank_u = _rank_tables()
        self.known_selftest()

    def known_selftest(self):
        """The oracle's only lenient branch (flows changed behind the view's back) and its input-derived clauses, tried on
        hand-written observations (no View involved): the correct observation passes, and an observation just outside the
        excused class is rejected.  AssertionError here ends the run as INFRA."""
        A = lambda **kw: dict({"t": 1, "m": 0, "u": 0, "z": 1, "mk": 0, "e": 0, "rsp": 0}, **kw)
        def step(op, view, before, store, sigs, touched, focus="auto", settings=None, rev=False, err=""):
            return {"op": op, "err": err, "touched": touched, "view": view, "raw": view[::-1] if rev else view, "before": before,
                    "focus": (view[0] if view else None) if focus == "auto" else focus, "store": store,
                    "settings": store if settings is None else settings, "sigs": sigs, "rev": rev}
        def run(ops, steps, want_fail):
            case = {"pool": ["http", "http"], "ops": ops}
            self._ref = (None, None)
            fails = self.oracle(case, {"steps": steps})
            if want_fail is None:
                assert not fails, f"selftest: correct observation rejected: {fails}"
            else:
                assert any(want_fail in f for f in fails), f"selftest: doctored observation not rejected for `{want_fail}`: {fails}"
        add2 = [["add", [[0, A(t=1)]]], ["add", [[1, A(t=2)]]]]
        s_add2 = [step("add", [0], [], [0], ["f", "a0"], [0]), step("add", [0, 1], [0], [0, 1], ["a1"], [1])]
        # (1) a flow is mutated but its key under the selected order is unchanged: it is NOT excused from the order clause
        ops = add2 + [["mutate", [[0, A(t=1, z=3, mk=1)]]]]
        run(ops, s_add2 + [step("mutate", [0, 1], [0, 1], [0, 1], [], [0])], None)
        run(ops, s_add2 + [step("mutate", [1, 0], [0, 1], [0, 1], [], [0], focus=0)], "not sorted")
        # … while one whose key did change is excused (both positions pass) — but must stay listed exactly once and stored
        ops = add2 + [["mutate", [[0, A(t=3)]]]]
        run(ops, s_add2 + [step("mutate", [0, 1], [0, 1], [0, 1], [], [0])], None)
        run(ops, s_add2 + [step("mutate", [0, 1, 0], [0, 1], [0, 1], [], [0])], "listed twice")
        run(ops + [["remove", [0]]], s_add2 + [step("mutate", [0, 1], [0, 1], [0, 1], [], [0]),
            step("remove", [0, 1], [0, 1], [1], ["s0"], [0], settings=[1])], "not stored")
        # (2) a flow is mutated but its visibility is unchanged: it is NOT excused from the membership clause
        ops = [["add", [[0, A()]]], ["filter", 1], ["mutate", [[0, A(z=3)]]]]
        base = [step("add", [0], [], [0], ["f", "a0"], [0]), step("filter", [], [0], [0], ["f", "R"], [])]
        run(ops, base + [step("mutate", [], [], [0], [], [0])], None)
        run(ops, base + [step("mutate", [0], [], [0], [], [0])], "!= matching stored flows")
        ops = [["add", [[0, A()]]], ["filter", 1], ["mutate", [[0, A(mk=1)]]]]          # visibility changed: excused either way
        run(ops, base + [step("mutate", [], [], [0], [], [0])], None)
        # (3) input-derived clauses: the store, the requested direction, the announcements
        run(add2, [s_add2[0], step("add", [0, 1], [0], [0], ["a1"], [1])], "the operations leave")
        run(add2 + [["reversed", 1]], s_add2 + [step("reversed", [0, 1], [0, 1], [0, 1], ["R"], [])], "not sorted")
        run(add2, [s_add2[0], step("add", [0, 1], [0], [0, 1], [], [1])], "add signals")
        run(add2 + [["update", [[1, A(t=2)]]]], s_add2 + [step("update", [0, 1], [0, 1], [0, 1], [], [1])], "no update signal")
        self._ref = (None, None)

    # ---------------------------------------------------------------- generation
    def gen_attr(self, rng):
        return {"t": rng.randrange(4), "m": rng.randrange(3), "u": rng.randrange(4), "z": rng.randrange(4),
                "mk": int(rng.chance(0.4)), "e": int(rng.chance(0.2)), "rsp": int(rng.chance(0.4))}

    def gen_op(self, rng, n):
        k = rng.weighted([(14, "mutate"), (18, "add"), (22, "update"), (8, "remove"), (2, "clear"), (3, "clear_unmarked"), (9, "filter"),
                          (9, "order"), (5, "reversed"), (7, "toggle_marked"), (2, "focus_follow"), (3, "go"), (2, "next"),
                          (2, "prev"), (2, "focus"), (3, "setval")])
        fl = lambda: rng.randrange(n)
        if k in ("add", "update", "mutate"):
            return [k, [[fl(), self.gen_attr(rng)] for _ in range(rng.weighted([(6, 1), (2, 2), (1, 3)]))]]
        if k == "remove": return [k, [fl() for _ in range(rng.weighted([(6, 1), (2, 2)]))]]
        if k == "filter": return [k, rng.randrange(len(FILTERS))]
        if k == "order": return [k, rng.pick(ORDERS) if not rng.chance(0.05) else "bogus"]
        if k in ("reversed", "focus_follow"): return [k, int(rng.chance(0.5))]
        if k == "go": return [k, rng.randint(-4, 5)]
        if k in ("focus", "setval"): return [k, fl()]
        return [k]

    def generate(self, rng, tier):
        if tier == "thorough":
            yield from self.exhaustive(tier)
        while True:
            if rng.chance(0.06):
                n = rng.randint(2, 5)
                yield {"kind": "keys", "pool": [rng.pick(TYPES) for _ in range(n)],
                       "attrs": [dict(self.gen_attr(rng), m=rng.randrange(8), x=rng.randrange(3)) for _ in range(n)]}
                continue
            n = rng.randint(2, 5)
            pool = [rng.pick(TYPES) for _ in range(n)]
            if rng.chance(0.3): pool[:4] = TYPES[:len(pool[:4])]
            ops = [self.gen_op(rng, n) for _ in range(rng.randint(3, 25))]
            yield {"pool": pool, "ops": ops}

    def exhaustive(self, tier):
        a0 = {"t": 1, "m": 0, "u": 0, "z": 1, "mk": 0, "e": 0, "rsp": 0}
        a1 = {"t": 0, "m": 1, "u": 1, "z": 2, "mk": 1, "e": 0, "rsp": 1}
        alpha = [["mutate", [[0, a1]]], ["mutate", [[1, a0]]], ["add", [[0, a0]]], ["add", [[1, a1]]], ["update", [[0, a1]]], ["update", [[1, a0]]], ["update", [[0, a0]]],
                 ["remove", [0]], ["toggle_marked"], ["filter", 1], ["filter", 0], ["order", "size"], ["order", "time"],
                 ["reversed", 1], ["clear_unmarked"], ["filter", 2]]
        for n in (1, 2, 3):
            for seq in itertools.product(alpha, repeat=n):
                yield {"pool": ["http", "tcp"], "ops": [list(o) for o in seq]}

    # ---------------------------------------------------------------- running the real addon
    def _model_attr(self, v, f):
        """what the model is told about a flow at a notification: its four sort keys (as naturals), mark, filter verdicts"""
        kt = v.orders["time"].generate(f); km = v.orders["method"].generate(f)
        ku = v.orders["url"].generate(f); kz = v.orders["size"].generate(f)
        if kt != int(kt): raise AssertionError("non-integral timestamp in pool")
        bits = "".join("1" if flt(f) else "0" for flt in _PARSED[1:])
        return f"{int(kt)},{self.rank_m[km]},{self.rank_u[ku]},{int(kz)},{int(bool(f.marked))},{bits}"

    @staticmethod
    def _valid(case):
        if case.get("kind") == "keys": return len(case["pool"]) == len(case["attrs"]) > 0
        n = len(case["pool"])
        for op in case["ops"]:
            if op[0] in ("add", "update", "mutate") and any(x[0] >= n for x in op[1]): return False
            if op[0] == "remove" and any(x >= n for x in op[1]): return False
            if op[0] in ("focus", "setval") and op[1] >= n: return False
        return n > 0

    def _keys_case(self, case):
        """flows of the pool in the described states: the real keys, their renderings, and what the Lean genKey reads"""
        v = mview.View()
        flows = []
        for kind, a in zip(case["pool"], case["attrs"]):
            f = make_flow(kind); mutate(f, kind, dict(a, m=a["m"] % 3))
            if kind == "dns":
                f.request.op_code = a["m"]                                    # also op-codes without a name
                if a["x"] == 1 and f.request.questions: f.request.questions[0].name = "b\u00fccher.example"
            if kind == "http" and a["x"] == 2: f.request.content = None
            if kind == "http" and a["x"] == 1 and f.response is not None: f.response.content = None
            flows.append(f)
        gens = [(sl, v.orders[name]) for name, sl in SLOT.items()]
        return v, flows, gens

    def _keys_lines(self, case):
        v, flows, gens = self._keys_case(case)
        lines = [f"keygen {sl} {flow_data(f, k)}" for sl, g in gens for f, k in zip(flows, case["pool"])]
        for sl, g in gens:
            ks = [show_key(g.generate(f)) for f in flows]
            lines += [f"keyle {a} {b}" for a in ks for b in ks]
        return lines

    def impl(self, case):
        if not self._valid(case): raise Skip()
        if not hasattr(self, "rank_m"): self.setup("quick")
        if case.get("kind") == "keys":
            v, flows, gens = self._keys_case(case)
            out = [show_key(g.generate(f)) for sl, g in gens for f in flows]
            for sl, g in gens:
                ks = [g.generate(f) for f in flows]
                out += ["1" if a <= b else "0" for a in ks for b in ks]
            return {"keys": out}
        flows = [make_flow(k) for k in case["pool"]]
        ident = {id(f): i for i, f in enumerate(flows)}
        byid = lambda f: ident.get(id(f), "?")
        v = mview.View()
        steps, lines = [], []
        stored = []          # the harness' own record of what it put into / took out of the store (never read from the view)
        with addon_context(v) as tctx:
            rec = Recorder(v, ident)
            tctx.options.update(console_focus_follow=False)
            for op in case["ops"]:
                k, err = op[0], ""
                before = [byid(f) for f in v._view]
                try:
                    if k == "mutate":
                        # the flow changes (proxy core, another addon); the view is not told
                        for i, a in op[1]: mutate(flows[i], case["pool"][i], a)
                        lines.append([f"mut {i} {self._model_attr(v, flows[i])}" for i, _ in op[1]])
                    elif k in ("add", "update"):
                        fs = []
                        for i, a in op[1]:
                            f = flows[i]
                            # a flow changes only together with the notification that reports the change
                            if k == "update" or i not in stored: mutate(f, case["pool"][i], a)
                            fs.append(f)
                        if k == "add": stored += [i for i in dict.fromkeys(x[0] for x in op[1]) if i not in stored]
                        tag = "add" if k == "add" else "upd"
                        lines.append([f"{tag} {i} {self._model_attr(v, flows[i])}" for i, _ in op[1]])
                        (v.add if k == "add" else v.update)(fs)
                    elif k == "remove":
                        lines.append([f"rm {i}" for i in op[1]])
                        stored = [i for i in stored if i not in op[1]]
                        v.remove([flows[i] for i in op[1]])
                    elif k == "clear": lines.append(["clear"]); stored = []; v.clear()
                    elif k == "clear_unmarked":
                        lines.append(["clearunmarked"]); stored = [i for i in stored if flows[i].marked]; v.clear_not_marked()
                    elif k == "filter": lines.append([f"filter {op[1]}"]); v.set_filter(_PARSED[op[1]])
                    elif k == "order": lines.append([f"order {SLOT.get(op[1], 9)}"]); v.set_order(op[1])
                    elif k == "reversed": lines.append([f"reversed {op[1]}"]); v.set_reversed(bool(op[1]))
                    elif k == "toggle_marked": lines.append(["toggle"]); v.toggle_marked()
                    elif k == "focus_follow":
                        lines.append([f"follow {op[1]}"]); tctx.options.update(console_focus_follow=bool(op[1]))
                    elif k == "go": lines.append([f"go {op[1]}"]); v.go(op[1])
                    elif k == "next": lines.append(["next"]); v.focus_next()
                    elif k == "prev": lines.append(["prev"]); v.focus_prev()
                    elif k == "focus": lines.append([f"focus {op[1]}"]); v.focus.flow = flows[op[1]]
                    elif k == "setval": lines.append([f"setval {op[1]}"]); v.setvalue([flows[op[1]]], "k", "v")
                    else: raise Skip()
                except (exceptions.CommandError, ValueError, KeyError) as e:
                    err = type(e).__name__
                except Skip:
                    raise
                except Exception as e:   # nothing else may escape an operation
                    err = "unexpected:" + type(e).__name__
                steps.append({
                    "op": k, "err": err,
                    "touched": [x[0] for x in op[1]] if k in ("add", "update", "mutate") else ([op[1]] if k == "setval" else (list(op[1]) if k == "remove" else [])),
                    "view": [byid(f) for f in v], "raw": [byid(f) for f in v._view], "before": before,
                    "focus": byid(v.focus.flow) if v.focus.flow is not None else None,
                    "store": [byid(f) for f in v._store.values()],
                    "settings": sorted(byid(v._store[i]) if i in v._store else "gone:" + i[:6] for i in v.settings._values),
                    "sigs": rec.take(),
                    "rev": v.order_reversed,
                })
        self._stash = (json.dumps(case, sort_keys=True), lines)
        return {"steps": steps}

    # ---------------------------------------------------------------- what the case's INPUTS say must hold
    def reference(self, case):
        """Per operation, derived from the case alone (own flows, the key generators and flowfilter as references, never
        the View): the store, and for every stored flow its live visibility / key and the visibility / key the view last
        had occasion to evaluate (`seen`).  The view evaluates a flow at its add / update / settings write, every stored
        flow at a re-filter (set_filter, toggle_marked, clear_not_marked), and the keys of the listed flows at set_order."""
        key = json.dumps(case, sort_keys=True)
        if getattr(self, "_ref", (None, None))[0] == key: return self._ref[1]
        gens = mview.View().orders
        flows = [make_flow(k) for k in case["pool"]]
        store, seen_vis, seen_key = [], {}, {}
        flt, marked_only, order, rev = 0, False, "time", False
        vis = lambda i: bool((_PARSED[flt] is None or _PARSED[flt](flows[i])) and (not marked_only or flows[i].marked))
        keyof = lambda i: gens[order].generate(flows[i])
        def evaluate(i):
            seen_vis[i] = vis(i)
            if seen_vis[i]: seen_key[i] = keyof(i)
        out = []
        for op in case["ops"]:
            k = op[0]
            if k == "mutate":
                for i, a in op[1]: mutate(flows[i], case["pool"][i], a)
            elif k == "add":
                new = [i for i in dict.fromkeys(x[0] for x in op[1]) if i not in store]
                for i, a in op[1]:
                    if i in new: mutate(flows[i], case["pool"][i], a)
                for i in new: store.append(i); evaluate(i)
            elif k == "update":
                for i, a in op[1]: mutate(flows[i], case["pool"][i], a)
                for i, _ in op[1]:
                    if i in store: evaluate(i)
            elif k == "setval":
                if op[1] in store: evaluate(op[1])
            elif k == "remove":
                for i in op[1]:
                    if i in store:
                        if flows[i].killable: flows[i].kill()
                        store.remove(i); seen_vis.pop(i, None); seen_key.pop(i, None)
            elif k == "clear": store, seen_vis, seen_key = [], {}, {}
            elif k in ("clear_unmarked", "filter", "toggle_marked"):
                if k == "clear_unmarked": store = [i for i in store if flows[i].marked]
                elif k == "filter": flt = op[1]
                else: marked_only = not marked_only
                seen_vis, seen_key = {}, {}
                for i in store: evaluate(i)
            elif k == "order" and op[1] in gens:
                order = op[1]
                for i in store:
                    if seen_vis[i]: seen_key[i] = keyof(i)
            elif k == "reversed": rev = bool(op[1])
            out.append({"store": list(store), "rev": rev,
                        "live_vis": {i: vis(i) for i in store}, "seen_vis": {i: seen_vis[i] for i in store},
                        "live_key": {i: keyof(i) for i in store}, "seen_key": dict(seen_key)})
        self._ref = (key, out)
        return out

    # ---------------------------------------------------------------- the property as a predicate
    def oracle(self, case, obs, ref=None):
        if case.get("kind") == "keys": return []
        fails = []
        ref = ref if ref is not None else self.reference(case)
        for n, (st, rf) in enumerate(zip(obs["steps"], ref)):
            where = f"op {n} ({st['op']})"
            if st["err"].startswith("unexpected"):
                fails.append(f"{where}: raised {st['err']}")
            view, raw, store = st["view"], st["raw"], rf["store"]
            # NOT DEMANDED (the only leniency of this oracle): a stored flow that changed behind the view's back (`mutate`)
            # so that its current visibility differs from the one the view last evaluated is excused from the membership
            # clause; one whose current key differs from the one the view last evaluated is excused from the order clause.
            # A flow whose current value equals the last evaluated one is NOT excused, mutated or not.
            ex_member = {i for i in store if rf["live_vis"][i] != rf["seen_vis"][i]}
            ex_order = {i for i in store if i in rf["seen_key"] and rf["live_key"][i] != rf["seen_key"][i]}
            # the store holds exactly what was added and not removed / cleared (input-derived)
            if st["store"] != store:
                fails.append(f"{where}: store {st['store']} but the operations leave {store}")
            # "the view lists exactly the stored flows that match the current filter (and are marked, while
            #  marked-only is on), each once" — after a removal / clear the flow must be gone whatever its key did
            elif any(x not in store for x in view):
                fails.append(f"{where}: view {view} lists flows that are not stored {store}")
            elif len(set(view)) != len(view):
                fails.append(f"{where}: a flow is listed twice {view}")
            elif any((x in view) != rf["live_vis"][x] for x in store if x not in ex_member):
                fails.append(f"{where}: view {view} != matching stored flows {[x for x in store if rf['live_vis'][x]]} "
                             f"(visibility changed unreported: {sorted(ex_member)})")
            # "sorted by the selected order and reversed when requested" (among flows whose current key the view has seen)
            else:
                ks = [rf["live_key"][x] for x in view if x not in ex_order]
                bad = any(a < b for a, b in zip(ks, ks[1:])) if rf["rev"] else any(a > b for a, b in zip(ks, ks[1:]))
                if bad:
                    fails.append(f"{where}: view {view} not sorted by the selected order (reversed={rf['rev']}): keys "
                                 f"{[rf['live_key'][x] for x in view]} (key changed unreported: {sorted(ex_order)})")
                elif view != (raw[::-1] if st["rev"] else raw) or st["rev"] != rf["rev"]:
                    fails.append(f"{where}: direction wrong: {view} vs underlying {raw} reversed={st['rev']}, requested {rf['rev']}")
            # "The focus is always a flow in the view (none only when the view is empty)"
            if st["focus"] is None:
                if view: fails.append(f"{where}: no focus although the view is {view}")
            elif st["focus"] not in view:
                fails.append(f"{where}: focus {st['focus']} is not in the view {view}")
            # "per-flow settings exist only for stored flows"
            if any(s not in store for s in st["settings"]):
                fails.append(f"{where}: settings {st['settings']} for flows outside the store {store}")
            # "add/remove/update notifications match the changes made"
            b, a, sg = set(st["before"]), set(raw), st["sigs"]
            adds = [int(x[1:]) for x in sg if x[0] == "a"]
            rms = [int(x[1:].split("@")[0]) for x in sg if x[0] == "r"]
            upds = [int(x[1:]) for x in sg if x[0] == "u"]
            refresh = "R" in sg
            if st["op"] in ("add", "update", "remove", "setval"):
                # incremental operations: exactly the flows that entered are announced as added, exactly those that
                # left as removed, and every updated flow that stays shown is announced as updated
                if (a - b) != set(adds) or len(adds) != len(set(adds)):
                    fails.append(f"{where}: flows entering the view {sorted(a - b)} but add signals {sg}")
                if (b - a) != set(rms) or len(rms) != len(set(rms)):
                    fails.append(f"{where}: flows leaving the view {sorted(b - a)} but remove signals {sg}")
                if any(x not in a for x in upds):
                    fails.append(f"{where}: update signal for a flow that is not shown ({sg}, view {sorted(a)})")
                if st["op"] in ("update", "setval") and not st["err"]:
                    for x in st["touched"]:
                        if x in a and x in b and x not in upds:
                            fails.append(f"{where}: shown flow {x} was updated but no update signal ({sg})")
                # the same against what the INPUTS say the change must be (flows whose visibility the view could know)
                prev = ref[n - 1] if n else {"store": [], "live_vis": {}, "seen_vis": {}}
                for x in dict.fromkeys(st["touched"]):
                    exc = (x in prev["store"] and prev["live_vis"][x] != prev["seen_vis"][x]) or \
                          (x in store and rf["live_vis"][x] != rf["seen_vis"][x])
                    if exc: continue
                    was = x in prev["store"] and prev["seen_vis"][x]
                    now = x in store and rf["seen_vis"][x]
                    if (not was and now) != (x in adds):
                        fails.append(f"{where}: flow {x} {'enters' if now and not was else 'does not enter'} the view but signals {sg}")
                    if (was and not now) != (x in rms):
                        fails.append(f"{where}: flow {x} {'leaves' if was and not now else 'does not leave'} the view but signals {sg}")
                    if st["op"] in ("update", "setval") and not st["err"] and was and now and x not in upds:
                        fails.append(f"{where}: listed flow {x} was updated but no update signal ({sg})")
            else:
                if adds or rms or upds:
                    fails.append(f"{where}: add/remove/update signals {sg} from an operation that adds/removes/updates no flow")
                if a != b and not refresh:
                    fails.append(f"{where}: membership changed {sorted(b)}->{sorted(a)} without any notification")
            if fails: break
        return fails

    # ---------------------------------------------------------------- model tie
    def model_lines(self, case):
        if not self._valid(case): raise Skip()
        if case.get("kind") == "keys": return self._keys_lines(case)
        key = json.dumps(case, sort_keys=True)
        if getattr(self, "_stash", (None, None))[0] != key: self.impl(case)
        self._groups = [len(g) for g in self._stash[1]]
        return ["reset"] + [l for g in self._stash[1] for l in g]

    def model_obs(self, case, replies):
        if case.get("kind") == "keys": return replies
        # one real call with a list argument = several single-flow model operations: signals are concatenated,
        # the state is the one after the last of them, the error flag is their disjunction
        key = json.dumps(case, sort_keys=True)
        if getattr(self, "_stash", (None, None))[0] != key: self.impl(case)
        out, pos = [], 1
        for g in self._stash[1]:
            rs = replies[pos:pos + len(g)]; pos += len(g)
            if not rs: out.append("<no-op>"); continue
            parts = [dict(p.split("=", 1) for p in r.split(" ")) if "=" in r else {"bad": r} for r in rs]
            if any("bad" in p for p in parts): out.append("bad:" + "|".join(rs)); continue
            last = parts[-1]
            sig = ",".join(p["sigs"] for p in parts if p["sigs"] != "-") or "-"
            err = "1" if any(p["err"] == "1" for p in parts) else "0"
            out.append(f"view={last['view']} focus={last['focus']} store={last['store']} settings={last['settings']} sigs={sig} err={err}")
        return out

    def impl_view(self, case, obs):
        if "__exc__" in obs: return obs
        if case.get("kind") == "keys": return obs["keys"]
        ids = lambda l: ",".join(map(str, l)) if l else "-"
        return [f"view={ids(s['view'])} focus={'none' if s['focus'] is None else s['focus']} store={ids(s['store'])} "
                f"settings={ids(s['settings'])} sigs={ids(s['sigs'])} err={1 if s['err'] else 0}" for s in obs["steps"]]

    def classify(self, case, obs):
        if case.get("kind") == "keys": return None if "__exc__" in obs else json.dumps(obs["keys"])
        if "__exc__" in obs or not any(s["view"] for s in obs["steps"]): return None
        return json.dumps([(s["op"], s["view"], s["focus"], s["sigs"]) for s in obs["steps"]])

    def branches(self, case, obs):
        if "__exc__" in obs: return ["impl-raised"]
        if case.get("kind") == "keys": return ["keys:" + k for k in case["pool"]]
        out = []
        for s in obs["steps"]:
            out.append("op:" + s["op"] + (":err" if s["err"] else ""))
            for x in s["sigs"]: out.append("sig:" + x[0])
            if s["rev"]: out.append("reversed")
        if len(set(case["pool"])) == 4: out.append("all-four-flow-types")
        return out

    def shrink_candidates(self, case):
        if case.get("kind") == "keys": return
        ops = case["ops"]
        for i in range(len(ops)):
            yield {**case, "ops": ops[:i] + ops[i + 1:]}
        for i, o in enumerate(ops):
            if o[0] in ("add", "update", "remove") and len(o[1]) > 1:
                for j in range(len(o[1])):
                    yield {**case, "ops": ops[:i] + [[o[0], o[1][:j] + o[1][j + 1:]]] + ops[i + 1:]}

    def neighbours(self, case, rng):
        if case.get("kind") == "keys": return
        n = len(case["pool"])
        for _ in range(400):
            ops = [list(o) for o in case["ops"]]
            i = rng.randrange(len(ops) + 1)
            ops.insert(i, self.gen_op(rng, n))
            yield {**case, "ops": ops}
