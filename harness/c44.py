"""C44 — option updates are transactional, typed and survive a config round-trip (mitmproxy/optmanager.py)."""
import copy, glob, io, json, os, re
from typing import Optional
from collections.abc import Sequence
from common.check import PropertyCheck, Skip
from common.paths import CORPUS
from mitmproxy import optmanager, exceptions

TYS = {"bool": bool, "str": str, "int": int, "optstr": Optional[str], "optint": Optional[int], "seqstr": Sequence[str]}
NEL = "\x85"
TYNAME = {v: k for k, v in TYS.items()}
os.environ["HOME"] = "/h/me/"      # the environment optmanager.relative_path / expanduser read (= the driver's `relpath` op)
REL_DIRS = ["/etc/mitm", "/etc//mitm/", "conf", "", ".", "//srv/x", "/", "a/../b", "~/cfg"]
REL_PATHS = ["a.py", "./a.py", "sub/../a.py", "/abs/a.py", "//abs/a.py", "///abs//a.py", "~/a.py", "~", "~root/x.py", "~nosuchuser/x.py", "~\x00/x", "",
             ".", "a//b/./c/", "x/~/y", "~~", "~/", "\u00e9/b c.py", "~root", "~/./x/", "..", "a/"]
MAXD = 2             # listeners issue nested updates at most this deep (= C44.maxDepth in the model)
OTHER = 1.5          # a value of none of the option types (Atom.other in the model)

# adversarial strings for the YAML round trip (quantifier: YAML-special words, quotes, newlines, unicode)
STRS = ["", "x", "yes", "no", "null", "~", "true", "false", "on", "off", "1", "1.0", "0x10", "1e3", ".inf", " ", "  a", "a ",
        "#x", "a #b", "a: b", "- a", "[a]", "{a}", "'", '"', "'\"", "\\", "\\n", "\n", "a\nb", "a\n", "\na", "\r", "a\rb",
        "\r\n", "\t", "\ta", "é", "日本", "\U0001f600", "\u2028", "\u2029", "\ufeff", "\x7f", "\x00", "\x01", "\x1b",
        "\xa0", "%x", "@x", "`x", "!x", "&x", "*x", "|", ">", "?", "? a", "---", "...", "a\n---\nb", "2001-01-01", "12:30:00",
        "=", "<<", "k: v\nj: w", "toggle", NEL, "a" + NEL + "b", NEL + "\n"]
INTS = [0, 1, 5, -1, 7, 2 ** 70, -2 ** 63]
# `set` spec values: every kind of string int() / the bool and str branches can meet
SPECS = ["5", "-3", "+7", "007", "abc", "1x", "", "--1", "12345678901234567890", "true", "false", "toggle", "yes", "a=b",
         "\u00e9", "a b", "x\ny", "'", "-", "+", " 5 ", "\t5\n", "\xa05", "5\u3000", "1_0", "_1", "1_", "1__0", "+ 5", "-0", "\u0663\u0664",
         "\u0967_\u0968", "0_7", "\uff15", "5\x00", " ", "1 2", "\x0b7\x0c", "\x857", "\x1c5", "1\u20002", "- 1", "+_1", "\U0001d7ce\U0001d7cf", "True",
         " true", "toggle ", "1e3", "0x10", "1.0", "\u20285\u2029", "-\u0e51\u0e52_\u0e53"]
INTCH = list("0123456789") + ["_", "+", "-", " ", "\t", "\xa0", "\u0660", "\u0669", "\uff10", "\x1f", "x", "\u2009"]


# ---- values: JSON form  ["b",bool] ["s",str] ["i",int] ["n"] ["o"] ["q",[atoms]] -------------------------------------
def py(v):
    t = v[0]
    if t == "b": return bool(v[1])
    if t == "s": return v[1]
    if t == "i": return int(v[1])
    if t == "n": return None
    if t == "o": return OTHER
    if t == "f": return float(v[1])          # a float numerically equal to an int: of no option type (Atom.other in the model)
    if t == "q": return [py(a) for a in v[1]]
    raise ValueError(v)


def hexs(s):
    b = s.encode("utf-8")
    return b.hex() if b else "-"


def cps(s):
    """a spec string on the wire: 3 bytes per code point"""
    b = b"".join(ord(c).to_bytes(3, "big") for c in s)
    return b.hex() if b else "-"


def show_atom(x):
    if isinstance(x, bool): return "b1" if x else "b0"
    if isinstance(x, str): return "s" + hexs(x)
    if isinstance(x, int): return "i%d" % x
    if x is None: return "n"
    return "o"


def show_val(ty, x):
    """canonical rendering, identical to C44Driver.showVal"""
    if isinstance(x, (list, tuple)): return ".".join(["q"] + [show_atom(a) for a in x])
    if isinstance(x, bool) and ty in ("int", "optint"): return "i1" if x else "i0"
    return show_atom(x)


def wire_val(v):
    """protocol form of a JSON value"""
    if v[0] == "q": return ".".join(["q"] + [wire_val(a) for a in v[1]])
    if v[0] == "b": return "b1" if v[1] else "b0"
    if v[0] == "s": return "s" + hexs(v[1])
    if v[0] == "i": return "i%d" % int(v[1])
    if v[0] == "f": return "o"
    return v[0]


def conforms(ty, x):
    """the declared type, written independently of typecheck.py"""
    if ty == "bool": return isinstance(x, bool)
    if ty == "str": return isinstance(x, str)
    if ty == "int": return isinstance(x, int)
    if ty == "optstr": return x is None or isinstance(x, str)
    if ty == "optint": return x is None or isinstance(x, int)
    if ty == "seqstr": return isinstance(x, (list, tuple)) and all(isinstance(a, str) for a in x)
    return False


def has_nel(x):
    if isinstance(x, str): return NEL in x
    if isinstance(x, (list, tuple)): return any(has_nel(a) for a in x)
    return False


def nm(n): return "scripts" if n == 6 else "o%d" % n          # option 6 is the one load(…, cwd) rewrites (= C44.scriptsName)


def num(name): return 6 if name == "scripts" else int(name[1:])


class World:
    """one real OptManager plus the bookkeeping the oracle needs"""

    def __init__(self):
        self.o = optmanager.OptManager()
        self.decl = {}            # n -> (ty, default) in dict order of _options
        self.keep = []            # strong references to the listeners
        self.calls = []           # listener calls of the current operation
        self.filters = {}         # listener id -> set of names | None
        self.depth = 0            # nesting depth of listener-issued updates
        self.acted = 0            # nested updates issued during the current operation
        self.top_rejected = False # a depth-0 listener call has raised during the current operation
        self.acts_after_reject = 0  # nested updates issued by depth-0 listeners after that (= during the rollback notification)
        self.rollback_interrupted = False

    def types(self):
        """declared type of every option, read from the live OptManager in its dict order"""
        return {num(k): TYNAME[o.typespec] for k, o in self.o._options.items()}

    def values(self):
        return {num(k): getattr(self.o, k) for k in self.o._options}

    def show_store(self, vals=None, tys=None):
        vals = self.values() if vals is None else vals
        tys = self.types() if tys is None else tys
        return ";".join("%d=%s" % (n, show_val(tys[n], vals[n])) for n in vals) or "-"

    def listener(self, lid, rule, direct, act=None):
        """rule: when the listener raises OptionsError. act = {"when": rule, "kw": pairs}: when the condition holds (and the
        listener does not reject) it issues a nested opts.update(**kw) — at most MAXD levels deep; TypeError/KeyError of
        the nested update are swallowed, its OptionsError propagates (the listener thereby rejects)."""
        w = self

        def holds(r, vals, updated):
            k = r[0]
            if k == "always": return True
            if k == "eq": return r[1] in vals and vals[r[1]] == py(r[2])
            if k == "upd": return nm(r[1]) in updated
            return False

        def raised():
            if w.depth == 0:
                if w.top_rejected: w.rollback_interrupted = True
                w.top_rejected = True

        def verdict(updated):
            vals = w.values()
            tys = w.types()
            w.calls.append({"who": lid, "updated": sorted(num(u) for u in updated), "vals": vals, "depth": w.depth, "after_reject": w.top_rejected,
                            "shown": w.show_store(vals, tys),
                            "untyped": [n for n, x in vals.items() if not conforms(tys[n], x)]})
            if holds(rule, vals, updated):
                raised()
                raise exceptions.OptionsError("listener %d rejects" % lid)
            if act is not None and w.depth < MAXD and holds(act["when"], vals, updated):
                kw = {nm(n): py(v) for n, v in act["kw"]}
                w.acted += 1
                if w.depth == 0 and w.top_rejected: w.acts_after_reject += 1
                w.depth += 1
                try:
                    w.o.update(**kw)
                except (TypeError, KeyError):
                    pass
                except exceptions.OptionsError:
                    w.depth -= 1
                    raised()
                    w.depth += 1
                    raise
                finally:
                    w.depth -= 1
        if direct:
            def f(updated): verdict(updated)
        else:
            def f(opts, updated): verdict(updated)
        self.keep.append(f)
        return f


class _WitnessStale(Exception):
    pass


class _Attr(Exception):
    pass


class _Other(Exception):
    pass


def outcome(fn):
    """run one operation; map the exceptions the property talks about to an enum"""
    try:
        fn()
        return "ok", None
    except TypeError as e:
        return "TypeError", e
    except exceptions.OptionsError as e:
        return "OptionsError", e
    except KeyError as e:
        return "KeyError", e


class Check(PropertyCheck):
    prop = "C44"
    design_ref = "§5 C44"
    level_text = ("Lean theorems over ALL histories of add_option / subscribe / update / update_known / update_defer / set / "
                  "process_deferred / reset with arbitrary listener functions, incl. listeners that issue nested updates from inside "
                  "their handlers (depth bound 2): typed_always, typed_always_nested; rejected_update_restores_everything, "
                  "rejected_update_known_restores_state, nested_rejected_update_restores_everything(_quiet), "
                  "nested_rejected_update_over_histories; listeners' final view: rejected_update_listeners_see_restored_state_partial "
                  "(+counterexample F-C44c) and nested_rejected_update_listeners_see_restored_state_partial (+counterexample F-C44d; a "
                  "TypeError notifies nobody); accepted_update_notifies_assigned_names, update_is_update_known, "
                  "nested_model_agrees_with_flat; `set`: the typed parsing of EVERY value string is inside the model (Python int() "
                  "transcribed: whitespace and decimal digits of every script from generated Unicode tables, sign, single underscores; "
                  "bool toggle/true/false/omitted; Sequence collect/clear; Optional none): parse_setval_typed, set_never_type_error "
                  "(all histories), set_bool_toggle, set_sequence_collects, set_bare_name, set_scalar_multiple_refused, "
                  "deferred_spec_is_parsed_when_declared (every value string, every type); merge (command-line values) is an "
                  "operation of the histories: merge_appends_sequences (None skipped, a list is the current list followed by the given "
                  "one, TypeError/AttributeError update nothing); config-file paths: optmanager.relative_path with the pathlib/posixpath "
                  "pieces it uses (PurePosixPath parsing, `/`, expanduser, absolute) transcribed and tied (driver op relpath): "
                  "relative_path_of_absolute, relative_path_of_plain, relative_path_is_absolute; load(opts, text, cwd) is an operation of "
                  "the histories (the rewriting of the `scripts` entry over a list / a str / None / a non-iterable, UTF-8 decoding imported "
                  "from C35, then update_defer): load_makes_scripts_absolute, load_without_scripts, load_without_cwd; config_roundtrip_nondefault for any YAML with "
                  "parse(dump d)=d (+partial/counterexample for U+0085, F-C44b), and — for the nested model the driver executes, i.e. histories "
                  "with acting listeners — config_roundtrip_nondefault_nested(_partial); accepted_update_notifies_assigned_names_nested (every "
                  "concerned listener is called with exactly the assigned names, also when handlers issue nested updates). Model tied to the real OptManager by differential "
                  "runs (every reply: outcome, every listener call at every depth with the values it saw, all option values, deferred "
                  "names; save→load values).")
    level_note = ("trusted: Lean kernel; differential tie model↔optmanager.py on generated histories; the YAML library is a parameter "
                  "of the round-trip theorem (its law is exercised on the real ruamel.yaml by the oracle; it fails exactly as the NEL "
                  "line folding for strings containing U+0085 = F-C44b); Gen/C44.lean (Unicode Nd blocks, non-ASCII whitespace) is "
                  "regenerated from this interpreter's unicodedata on every run; tuples (accepted for Sequence[str]) are not generated; "
                  "weak-reference cleanup of subscribers not modelled; nested depth bounded by 2 in model and harness listeners. "
                  "PARTIAL: 'listeners end up observing the restored state' is false for the code (F-C44c, F-C44d) and proved under the "
                  "guards rollback-notification-delivered / quiet / listener concerned by the outer names; accepted_update_… is stated "
                  "for listeners that only accept or reject (for acting listeners that clause is checked by the direct oracle); "
                  "the flat theorems (typed_always, rejected_update_*, accepted_update_notifies_assigned_names, config_roundtrip_nondefault) are about "
                  "`run/step`, which the driver does not execute: they apply to the tied model on states whose listeners only accept or reject "
                  "(nested_model_agrees_with_flat); the *_nested theorems are about `runN/stepN` directly. nested_rejected_update_restores_everything "
                  "is definitional (shape of coreUpdate) — the content is in …_quiet / …_over_histories. reset() and add_option() with a rejecting "
                  "listener are not rolled back in code and model (outside `isUpdateOp`; the property speaks of updates); the oracle's rollback clause "
                  "runs for upd/updk/updd/set/pd, a rejected merge/load is compared through the model tie only. "
                  "deferred_spec_is_parsed_when_declared is stated from the empty manager; relative_path takes $HOME, the password database "
                  "and os.getcwd() as parameters (the tie fixes HOME=/h/me/ and uses the entry root→/root); the YAML parse of the config text stays the library parameter (the tie feeds load() the JSON rendering "
                  "of the data); tuples are not generated for merge. known(): exact classifiers, near misses in "
                  "known_selftest (run in setup).")
    technique = "Lean 4 proof (induction over histories, invariants) + differential model-vs-code correspondence on a real OptManager"
    rule = ("histories of 3–16 operations over ≤6 options of the six types: declarations (some ill-typed / re-declared), "
            "subscribers and changed-receivers with verdict rules (never/always/value==v/name updated) and, for a third of them, "
            "a reaction (on such a condition the handler itself calls opts.update on other options: nested, successful or rejected); "
            "a quarter of the cases are cascade scenarios (deriving listener, later rejecting listener, watcher); updates with typed, "
            "ill-typed and unknown-name values from small pools (so that rules fire), set specs incl. deferred, "
            "process_deferred, reset, save→load with adversarial strings. distinct = distinct history; non-trivial = "
            "at least one update-family operation reached the type check.")
    budget = {"quick": 4000, "thorough": 120000}
    time_budget = {"quick": 30, "thorough": 600}
    fingerprints = ["mitmproxy.optmanager:OptManager.update_known", "mitmproxy.optmanager:OptManager.rollback",
                    "mitmproxy.optmanager:OptManager.update", "mitmproxy.optmanager:OptManager.update_defer",
                    "mitmproxy.optmanager:OptManager.add_option", "mitmproxy.optmanager:OptManager.subscribe",
                    "mitmproxy.optmanager:OptManager._notify_subscribers", "mitmproxy.optmanager:OptManager.reset",
                    "mitmproxy.optmanager:OptManager.set", "mitmproxy.optmanager:OptManager.process_deferred",
                    "mitmproxy.optmanager:OptManager._parse_setval", "mitmproxy.optmanager:_Option.set",
                    "mitmproxy.optmanager:_Option.current", "mitmproxy.optmanager:_Option.has_changed",
                    "mitmproxy.optmanager:serialize", "mitmproxy.optmanager:load", "mitmproxy.optmanager:parse",
                    "mitmproxy.utils.typecheck:check_option_type", "mitmproxy.utils.signals:_SignalMixin.notify"]
    trusted_base = ["ruamel.yaml dump/load as the parameter of config_roundtrip_nondefault (law checked by the oracle on every save case)",
                    "Python int() on set-spec strings outside [+-]?[0-9]+ (not generated)"]
    parallel = False

    def translate(self):
        """(T) the two Unicode tables behind Python's int(str): decimal-digit blocks and the non-ASCII whitespace"""
        import sys, unicodedata
        nd = [c for c in range(128, sys.maxunicode + 1) if unicodedata.decimal(chr(c), -1) >= 0]
        blocks = []
        for i in range(0, len(nd), 10):
            assert all(nd[i + k] == nd[i] + k and unicodedata.decimal(chr(nd[i] + k)) == k for k in range(10)), hex(nd[i])
            blocks.append(nd[i])
        sp = [c for c in range(128, sys.maxunicode + 1) if chr(c).isspace()]
        for c in range(128):      # the ASCII part is written out in the model; make sure this interpreter agrees with it
            assert (unicodedata.decimal(chr(c), -1) >= 0) == (48 <= c <= 57)
        src = ("-- generated by harness/c44.py translate() from this interpreter's unicodedata (%s); do not edit\n"
               "namespace MitmVerif.Gen.C44\n\n/-- first code point (digit zero) of every non-ASCII block of ten Unicode decimal digits (category Nd) -/\n"
               "def digitBlocks : List Nat := [%s]\n\n/-- non-ASCII code points for which str.isspace() holds -/\ndef spaces : List Nat := [%s]\n\n"
               "end MitmVerif.Gen.C44\n") % (unicodedata.unidata_version, ", ".join(map(str, blocks)), ", ".join(map(str, sp)))
        return {"MitmVerif/Gen/C44.lean": src}

    # ---------------------------------------------------------------- generator
    def _val(self, rng, ty, ok=True):
        if not ok:
            wrong = {"bool": ["s", "i", "n", "o", "q", "f", "i01"], "str": ["b", "i", "n", "o", "q"], "int": ["s", "n", "o", "q", "f"],
                     "optstr": ["b", "i", "o", "q"], "optint": ["s", "o", "q", "f"], "seqstr": ["s", "n", "o", "qbad", "b"]}[ty]
            k = rng.pick(wrong)
            if k == "qbad": return ["q", [["s", "a"], rng.pick([["i", 1], ["o"], ["n"], ["b", True]])]]
            if k == "f": return ["f", rng.pick([0, 1, 5, 7, -1])]            # numerically equal to pool ints / bools
            if k == "i01": return ["i", rng.pick([0, 1])]                     # == False / True
            return self._raw(rng, k)
        if ty == "bool": return ["b", rng.chance(0.5)]
        if ty == "str": return self._raw(rng, "s")
        if ty == "int": return ["b", rng.chance(0.5)] if rng.chance(0.08) else self._raw(rng, "i")
        if ty == "optstr": return ["n"] if rng.chance(0.3) else self._raw(rng, "s")
        if ty == "optint": return ["n"] if rng.chance(0.3) else (["b", True] if rng.chance(0.05) else self._raw(rng, "i"))
        return self._raw(rng, "q")

    def _raw(self, rng, k):
        if k == "b": return ["b", rng.chance(0.5)]
        if k == "s":
            if rng.chance(0.15):
                return ["s", "".join(rng.pick(["a", " ", "\n", "'", '"', ":", "#", "-", "é", "\\", "\t", NEL, "0", "~"]) for _ in range(rng.randint(1, 6)))]
            return ["s", rng.pick(STRS)]
        if k == "i": return ["i", rng.pick(INTS)]
        if k == "n": return ["n"]
        if k == "o": return ["o"]
        return ["q", [["s", rng.pick(STRS)] for _ in range(rng.randint(0, 3))]]

    def _rule(self, rng, decl):
        names = list(decl)
        k = rng.weighted([(3, "eq"), (2, "upd"), (1, "always"), (2, "never")])
        if k == "eq" and names:
            n = rng.pick(names)
            return ["eq", n, self._val(rng, decl[n])]
        if k == "upd" and names: return ["upd", rng.pick(names)]
        return [k if k in ("always", "never") else "never"]

    def _history(self, rng):
        ops, decl, lid = [], {}, 0
        tynames = list(TYS)

        def add(n=None):
            n = rng.randint(0, 5) if n is None else n
            ty = rng.pick(tynames)
            ok = not rng.chance(0.06)
            v = self._val(rng, ty, ok)
            ops.append({"op": "add", "n": n, "ty": ty, "v": v})
            if conforms(ty, py(v)): decl[n] = ty

        def kw():
            out, used = [], set()
            for _ in range(rng.weighted([(5, 1), (4, 2), (2, 3), (1, 4)])):
                n = rng.pick(list(decl)) if decl and not rng.chance(0.12) else rng.randint(0, 7)
                if n in used: continue
                used.add(n)
                ty = decl.get(n, rng.pick(tynames))
                out.append([n, self._val(rng, ty, not rng.chance(0.15))])
            return out
        for _ in range(rng.randint(2, 5)): add()
        for _ in range(rng.randint(3, 11)):
            k = rng.weighted([(30, "upd"), (6, "updk"), (8, "updd"), (10, "lis"), (6, "add"), (8, "set"), (5, "pd"),
                              (3, "rst"), (8, "save"), (4, "setattr")])
            if k in ("upd", "updk", "updd"): ops.append({"op": k, "kw": kw()})
            elif k == "setattr":
                p = kw()[0]; ops.append({"op": "upd", "kw": [p], "setattr": 1})
            elif k == "lis":
                lid += 1
                if rng.chance(0.6):
                    ns = sorted({rng.pick(list(decl)) if decl and not rng.chance(0.05) else rng.randint(0, 7) for _ in range(rng.randint(1, 3))})
                    ops.append({"op": "sub", "id": lid, "rule": self._rule(rng, decl), "names": ns})
                else:
                    ops.append({"op": "conn", "id": lid, "rule": self._rule(rng, decl)})
                if decl and rng.chance(0.35):
                    # a component that derives other options: on a condition it issues a nested update
                    when = self._rule(rng, decl)
                    if when[0] == "never": when = ["upd", rng.pick(list(decl))]
                    ops[-1]["act"] = {"when": when, "kw": kw()}
                    if rng.chance(0.6): ops[-1]["rule"] = ["never"]
            elif k == "add": add()
            elif k == "set":
                specs = []
                for _ in range(rng.randint(1, 3)):
                    n = rng.pick(list(decl)) if decl and not rng.chance(0.3) else rng.randint(0, 7)
                    specs.append([n, None if rng.chance(0.2) else
                                  "".join(rng.pick(INTCH) for _ in range(rng.randint(1, 5))) if rng.chance(0.3) else rng.pick(SPECS)])
                ops.append({"op": "set", "defer": int(rng.chance(0.5)), "specs": specs})
            else: ops.append({"op": k})
        if rng.chance(0.5): ops.append({"op": "save"})
        return {"ops": ops}

    def _cascade(self, rng):
        """a listener derives options B.. from A by a nested update; a later listener (sometimes) rejects A"""
        tynames = list(TYS)
        ops, decl = [], {}
        for n in range(rng.randint(2, 4)):
            ty = rng.pick(tynames); decl[n] = ty
            ops.append({"op": "add", "n": n, "ty": ty, "v": self._val(rng, ty)})
        a = rng.pick(list(decl)); va = self._val(rng, decl[a])
        others = [n for n in decl if n != a]
        lid = 0
        order = ["act", "rej"] + (["watch"] if rng.chance(0.6) else []) + (["act2"] if rng.chance(0.3) else [])
        if rng.chance(0.25): rng.shuffle(order)
        for role in order:
            lid += 1
            direct = rng.chance(0.5)
            if role in ("act", "act2"):
                tgt = rng.sample(others, rng.randint(1, len(others))) if role == "act" else [rng.pick(list(decl))]
                kw = [[n, self._val(rng, decl[n], not rng.chance(0.08))] for n in tgt]
                when = ["eq", a, va] if rng.chance(0.7) else ["upd", rng.pick(list(decl))]
                op = {"rule": ["never"], "act": {"when": when, "kw": kw}}
                names = [a] if role == "act" else [rng.pick(list(decl))]
            elif role == "rej":
                op = {"rule": rng.weighted([(5, ["eq", a, va]), (2, ["upd", a]), (2, ["never"]), (1, ["eq", rng.pick(list(decl)), self._val(rng, decl[rng.pick(list(decl))])])])}
                names = [a]
            else:
                op = {"rule": ["never"]}
                names = [rng.pick(others)]
            if direct: op.update({"op": "conn", "id": lid})
            else: op.update({"op": "sub", "id": lid, "names": names})
            ops.append(op)
        for _ in range(rng.randint(1, 3)):
            kw = [[a, va if rng.chance(0.8) else self._val(rng, decl[a])]]
            if rng.chance(0.3):
                n = rng.pick(others); kw.append([n, self._val(rng, decl[n])])
            ops.append({"op": rng.pick(["upd", "upd", "updk", "updd"]), "kw": kw})
        if rng.chance(0.3): ops.append({"op": "save"})
        return {"ops": ops}

    def generate(self, rng, tier):
        # small-scope part: every adversarial string through the save/load path, as str / optional str / sequence element
        for s in STRS:
            for ty, v in (("str", ["s", s]), ("optstr", ["s", s]), ("seqstr", ["q", [["s", s], ["s", "x"]]])):
                yield {"ops": [{"op": "add", "n": 0, "ty": ty, "v": self._dflt(ty)}, {"op": "upd", "kw": [[0, v]]}, {"op": "save"}]}
        # tie of the transcribed merge: every option type meets None / a scalar / a list, known and unknown names
        decl6 = [{"op": "add", "n": i, "ty": ty, "v": self._dflt2(ty)} for i, ty in enumerate(TYS)]
        mvals = [["n"], ["q", []], ["q", [["s", "x"]]], ["q", [["s", "a"], ["s", "b\nc"]]], ["s", "y"], ["i", 3], ["b", True], ["q", [["i", 1]]]]
        for i in range(len(TYS) + 1):
            for v in mvals:
                n = i if i < len(TYS) else 9
                yield {"ops": decl6 + [{"op": "conn", "id": 1, "rule": ["never"]}, {"op": "merge", "kw": [[5, ["q", [["s", "first"]]]]]},
                                       {"op": "merge", "kw": [[n, v], [5, ["q", [["s", "more"]]]], [1, ["n"]]]}, {"op": "merge", "kw": [[n, v]]}, {"op": "save"}]}
        # tie of the transcribed load(opts, text, cwd): `scripts` as a list / str / None / int / list with a non-str, declared as a
        # sequence option, as another type, or not declared (deferred), next to other keys; with and without a config directory
        svals = [["q", [["s", "a.py"], ["s", "/abs/b.py"], ["s", "~/c.py"]]], ["q", []], ["q", [["s", "x/../y"], ["i", 1]]], ["q", [["s", "~nosuchuser/z"]]],
                 ["q", [["s", "~\x00"], ["i", 1]]], ["q", [["i", 1], ["s", "~\x00"]]], ["s", "ab/"], ["s", ""], ["n"], ["i", 3], ["b", True], ["o"],
                 ["q", [["s", "\u00e9 x.py"], ["s", "//srv/s.py"], ["s", "."], ["s", ""]]]]
        for sty in ("seqstr", "str", None):
            for sv in svals:
                for cwd in (None, "/etc/mitm", "conf/d", ""):
                    pre = [{"op": "add", "n": 0, "ty": "int", "v": ["i", 0]}] + ([{"op": "add", "n": 6, "ty": sty, "v": self._dflt2(sty)}] if sty else [])
                    yield {"ops": pre + [{"op": "conn", "id": 1, "rule": ["never"]},
                                         {"op": "load", "cwd": cwd, "data": [[0, ["i", 5]], [6, sv], [3, ["s", "later"]]]},
                                         {"op": "load", "cwd": cwd, "data": [[6, sv]]}, {"op": "load", "cwd": cwd, "data": [[0, ["s", "bad"]], [6, sv]]},
                                         {"op": "load", "cwd": cwd, "data": []}, {"op": "save"}]}
        # tie of the transcribed relative_path / pathlib pieces (no oracle clause)
        for rel in REL_DIRS:
            yield {"ops": [{"op": "relpath", "rel": rel, "path": pth} for pth in REL_PATHS]}
        # a well-typed value first, then values of ANOTHER type that compare (and hash) equal to it — 1 == True == 1.0 — incl. the
        # default: each must be judged by its own type (all cases of a run share one process, hence any process-wide cache)
        for ty, good, twins in (("int", ["i", 1], [["f", 1]]), ("int", ["i", 0], [["f", 0]]), ("optint", ["i", 5], [["f", 5]]),
                                ("bool", ["b", True], [["i", 1], ["f", 1]]), ("bool", ["b", False], [["i", 0], ["f", 0]]),
                                ("int", ["b", True], [["f", 1]]), ("optint", ["n"], [["f", 0]])):
            for dflt in (good, self._dflt2(ty)):
                for tw in twins:
                    yield {"ops": [{"op": "add", "n": 0, "ty": ty, "v": dflt}, {"op": "upd", "kw": [[0, good]]}, {"op": "upd", "kw": [[0, tw]]},
                                   {"op": "updk", "kw": [[0, tw]]}, {"op": "upd", "kw": [[0, good]]}, {"op": "updd", "kw": [[0, tw], [9, tw]]}, {"op": "save"}]}
        # every spec string against every option type, directly and through the deferred path
        decl = [{"op": "add", "n": i, "ty": ty, "v": self._dflt2(ty)} for i, ty in enumerate(TYS)]
        for sp in SPECS:
            yield {"ops": decl + [{"op": "set", "defer": 0, "specs": [[i, sp]]} for i in range(len(TYS))] + [{"op": "save"}]}
            yield {"ops": [{"op": "set", "defer": 1, "specs": [[i, sp] for i in range(len(TYS))] + [[5, "x"], [4, None]]}] + decl + [{"op": "pd"}, {"op": "pd"}]}
        while True:
            yield self._cascade(rng) if rng.chance(0.25) else self._history(rng)

    @staticmethod
    def _dflt2(ty):
        return {"bool": ["b", False], "str": ["s", "d"], "int": ["i", 0], "optstr": ["n"], "optint": ["n"], "seqstr": ["q", []]}[ty]

    @staticmethod
    def _dflt(ty):
        return {"str": ["s", "d"], "optstr": ["n"], "seqstr": ["q", []]}[ty]

    # ---------------------------------------------------------------- implementation runner
    def impl(self, case):
        w = World()
        return [self._do(w, op) for op in case["ops"]]

    def _do(self, w, op):
        o, k = w.o, op["op"]
        w.calls = []
        w.depth, w.acted, w.top_rejected, w.acts_after_reject, w.rollback_interrupted = 0, 0, False, 0, False
        pre = w.values()
        pre_shown = w.show_store(pre)
        rec = {"op": k}
        if k == "add":
            n, ty, v = op["n"], op["ty"], py(op["v"])
            out, exc = outcome(lambda: o.add_option(nm(n), TYS[ty], v, ""))
            if nm(n) in o and out != "TypeError":
                if n in w.decl: w.decl[n] = (ty, v)
                else: w.decl[n] = (ty, v)
        elif k in ("sub", "conn"):
            f = w.listener(op["id"], op["rule"], k == "conn", op.get("act"))
            if k == "sub":
                out, exc = outcome(lambda: o.subscribe(f, [nm(n) for n in op["names"]]))
                if out == "ok": w.filters[op["id"]] = set(op["names"])
            else:
                out, exc = outcome(lambda: o.changed.connect(f))
                w.filters[op["id"]] = None
        elif k in ("upd", "updk", "updd"):
            kw = {nm(n): py(v) for n, v in op["kw"]}
            if len(kw) != len(op["kw"]): raise Skip()          # a dict cannot repeat a keyword
            if op.get("setattr"):
                (a, v), = kw.items()
                if not o._options: raise Skip()      # __setattr__ is a plain attribute write until an option exists
                out, exc = outcome(lambda: setattr(o, a, v))
            else:
                fn = {"upd": o.update, "updk": o.update_known, "updd": o.update_defer}[k]
                out, exc = outcome(lambda: fn(**kw))
            rec["assigned"] = sorted(n for n, _ in op["kw"] if n in pre)
            rec["want"] = {n: py(v) for n, v in op["kw"] if n in pre}
        elif k == "load":
            # tie of the transcribed load(opts, text, cwd): the text is the JSON (= YAML) rendering of the data
            text = json.dumps({nm(n): py(v) for n, v in op["data"]})
            if len({n for n, _ in op["data"]}) != len(op["data"]): raise Skip()

            def go():
                try: optmanager.load(o, text, cwd=op["cwd"])
                except ValueError: raise _Other("ValueError")
                except RuntimeError: raise _Other("RuntimeError")
            try:
                out, exc = outcome(go)
            except _Other as e:
                out, exc = e.args[0], None
        elif k == "merge":
            # tie of the transcribed OptManager.merge (command-line values: None skipped, lists appended)
            kw = {nm(n): py(v) for n, v in op["kw"]}
            if len(kw) != len(op["kw"]): raise Skip()

            def go():
                try: o.merge(kw)
                except AttributeError: raise _Attr()
            try:
                out, exc = outcome(go)
            except _Attr:
                out, exc = "AttributeError", None
        elif k == "set":
            specs = [nm(n) if v is None else "%s=%s" % (nm(n), v) for n, v in op["specs"]]
            out, exc = outcome(lambda: o.set(*specs, defer=bool(op["defer"])))
        elif k == "pd":
            out, exc = outcome(o.process_deferred)
        elif k == "rst":
            out, exc = outcome(o.reset)
        elif k == "save":
            return self._save(w, pre, pre_shown)
        elif k == "relpath":
            # tie of the transcribed optmanager.relative_path (what load(opts, text, cwd) applies to every `scripts` entry)
            try:
                rep = "ok " + hexs(str(optmanager.relative_path(op["path"], relative_to=op["rel"])))
            except ValueError: rep = "ValueError"
            except RuntimeError: rep = "RuntimeError"
            return {"op": "relpath", "out": rep.split(" ")[0], "reply": rep}
        else:
            raise ValueError(k)
        post = w.values()
        rec.update({
            "out": out,
            # an OptionsError raised while the rollback notification was being delivered replaces the original one
            # a depth-0 listener raised again while the rollback notification was being delivered
            "rollback_interrupted": bool(out == "OptionsError" and w.rollback_interrupted),
            "acted": w.acted, "acts_after_reject": w.acts_after_reject,
            "pre": pre_shown, "post": w.show_store(post),
            "untyped": [n for n in w.decl if not conforms(w.decl[n][0], post[n])],
            "untyped_seen": [c["who"] for c in w.calls if c["untyped"]],
            "calls": [{"who": c["who"], "updated": c["updated"], "shown": c["shown"], "depth": c["depth"], "after_reject": c["after_reject"]} for c in w.calls],
            "filters": {str(i): (None if f is None else sorted(f)) for i, f in w.filters.items()},
            "post_ok": all(n in post and post[n] == x and type(post[n]) is type(x) for n, x in rec.get("want", {}).items())
                       and all(post[n] == pre[n] for n in pre if n not in rec.get("want", {})) if "want" in rec else None,
        })
        rec.pop("want", None)
        obs = "/".join("%d@%s@%s" % (c["who"], "+".join(map(str, c["updated"])), c["shown"]) for c in w.calls) or "-"
        rec["reply"] = "%s %s %s %s" % (out, obs, rec["post"], ",".join(str(num(k2)) for k2 in o.deferred) or "-")
        return rec

    def _save(self, w, pre, pre_shown):
        rec = {"op": "save", "pre": pre_shown}
        changed = {n: x for n, x in pre.items() if x != w.decl[n][1]}
        rec["nel"] = any(has_nel(x) for x in changed.values())
        f = io.StringIO()
        fresh = optmanager.OptManager()
        for n, (ty, d) in w.decl.items(): fresh.add_option(nm(n), TYS[ty], d, "")

        def go():
            optmanager.serialize(w.o, f, "")
            optmanager.load(fresh, f.getvalue())
        out, exc = outcome(go)
        got = {n: getattr(fresh, nm(n)) for n in w.decl}
        rec["out"] = out
        rec["lost"] = [{"n": n, "want": x, "got": got[n]} for n, x in changed.items() if not (got[n] == x and type(got[n]) is type(x))]
        shown = ";".join("%d=%s" % (n, show_val(w.decl[n][0], got[n])) for n in w.decl) or "-"
        # the model's YAML is the ideal one; any state holding U+0085 is left out of the comparison (F-C44b)
        rec["reply"] = "save nel" if self._reply_has_nel(pre_shown) else "%s %s" % (out, shown)
        return rec

    # ---------------------------------------------------------------- the property, on the implementation alone
    def oracle(self, case, obs):
        fails = []
        for i, r in enumerate(obs):
            k = r["op"]
            if k == "relpath": continue          # transcription tie only
            if k == "save":
                # "Saving options to a config file and loading that file into fresh options reproduces every non-default value."
                if r["out"] != "ok":
                    fails.append("roundtrip-raised@%d: save/load raised %s" % (i, r["out"]))
                for l in r["lost"]:
                    fails.append("roundtrip@%d#%d: option %d not reproduced after save/load: %r came back as %r" % (i, l["n"], l["n"], l["want"], l["got"]))
                continue
            if r["out"] not in ("ok", "TypeError", "OptionsError", "KeyError") and not (k == "merge" and r["out"] == "AttributeError") \
                    and not (k == "load" and r["out"] in ("ValueError", "RuntimeError")):
                fails.append("op %d: unexpected outcome %s" % (i, r["out"]))
            # "options only ever hold values of their declared type"
            if r["untyped"]: fails.append("typed: op %d leaves options %s holding a value outside the declared type" % (i, r["untyped"]))
            if r["untyped_seen"]: fails.append("typed: op %d showed listeners %s an ill-typed value" % (i, r["untyped_seen"]))
            if k not in ("upd", "updk", "updd", "set", "pd"):
                continue
            if r["out"] in ("TypeError", "OptionsError"):
                # "a rejected update leaves every option at its previous value and listeners end up observing that restored state"
                # (what a listener itself assigns in reaction to the rollback notification is a new, accepted update: the
                #  comparison with the previous values is made when no listener issued an update after the rejection)
                if r["acts_after_reject"] == 0 and r["post"] != r["pre"]:
                    fails.append("rollback: op %d %s rejected with %s but options changed %s -> %s" % (i, k, r["out"], r["pre"], r["post"]))
                last = {}
                for c in r["calls"]: last[c["who"]] = c["shown"]
                stale = sorted(w for w, s in last.items() if s != r["post"])
                for lid in stale:
                    cls = self._stale_class(r, lid)
                    # after a listener-issued update following the rejection, a listener not subscribed to the names that
                    # update assigned legitimately keeps its older view: not judged
                    if cls != "acts-after-reject":
                        fails.append("restored-view@%d#%d: op %d rejected, listener %d last saw %s, the final (restored) state is %s [%s]"
                                     % (i, lid, i, lid, last[lid], r["post"], cls))
            elif k in ("upd", "updk", "updd"):
                # "an accepted update notifies listeners with the names of the assigned options"
                top = [c for c in r["calls"] if c["depth"] == 0]
                want = []
                if r["assigned"]:
                    for lid, flt in r["filters"].items():
                        if flt is None or set(flt) & set(r["assigned"]): want.append(int(lid))
                got = [c["who"] for c in top]
                if sorted(got) != sorted(want):
                    fails.append("notify: op %d assigned %s: listeners called %s, expected %s" % (i, r["assigned"], sorted(got), sorted(want)))
                for c in top:
                    if c["updated"] != r["assigned"]:
                        fails.append("notify: op %d listener %d got names %s, assigned were %s" % (i, c["who"], c["updated"], r["assigned"]))
                if r["acted"] == 0:
                    # no listener changed anything on the way: the result is previous ⊕ assigned, and that is what everybody saw
                    if r["post_ok"] is False:
                        fails.append("assign: op %d accepted but options are not previous ⊕ assigned values" % i)
                    for c in top:
                        if c["shown"] != r["post"]:
                            fails.append("notify: op %d listener %d saw %s, not the assigned state %s" % (i, c["who"], c["shown"], r["post"]))
        return fails

    @staticmethod
    def _stale_class(r, lid):
        """why listener `lid` ends a rejected operation with a view other than the final state (structured facts only)"""
        calls = [c for c in r["calls"] if c["who"] == lid]
        outer = next((c["updated"] for c in r["calls"] if c["depth"] == 0), None)
        flt = r["filters"].get(str(lid))
        concerned = outer is not None and (flt is None or bool(set(flt) & set(outer)))
        top = [c for c in calls if c["depth"] == 0]
        if not concerned and not top and calls and r["acted"] > 0 and all(c["depth"] >= 1 for c in calls):
            return "nested-not-renotified"          # F-C44d: shown tentative values by a nested update only, outer names do not concern it
        if concerned and r["rollback_interrupted"] and calls and not any(c["after_reject"] for c in top):
            return "rollback-interrupted"           # F-C44c: concerned, shown tentative values, never reached by the cut-short rollback notification
        if r["acts_after_reject"]: return "acts-after-reject"
        return "other"

    @staticmethod
    def _nel_fold(x):
        """what ruamel.yaml's scanner makes of a single-quoted scalar into which the emitter wrote U+0085 raw (F-C44b):
        flow-scalar line folding, where U+0085 counts as a line break and U+2028/2029 are breaks that are kept"""
        def rep(m):
            run = m.group(0); f, rest = run[0], run[1:]
            return (f if f != NEL else (" " if not rest else "")) + "".join("\n" if c == NEL else c for c in rest)
        return re.sub("[\x85\u2028\u2029]+", rep, x)

    def _is_nel_loss(self, want, got):
        if isinstance(want, str):
            return isinstance(got, str) and NEL in want and got == self._nel_fold(want)
        if isinstance(want, list):
            return (isinstance(got, list) and len(got) == len(want) and all(isinstance(a, str) and isinstance(b, str) for a, b in zip(want, got))
                    and any(a != b for a, b in zip(want, got))
                    and all(a == b or self._is_nel_loss(a, b) for a, b in zip(want, got)))
        return False

    def known(self, case, obs, failure):
        """a finding's id only when the failing clause AND the structured facts of the observation are the recorded ones"""
        m = re.match(r"(roundtrip|restored-view)@(\d+)#(\d+):", failure)
        if not m or not isinstance(obs, list): return None
        kind, i, x = m.group(1), int(m.group(2)), int(m.group(3))
        if i >= len(obs): return None
        r = obs[i]
        if kind == "roundtrip":
            # F-C44b: save/load went through, and the value came back exactly as the NEL line folding leaves it
            if r.get("op") != "save" or r.get("out") != "ok": return None
            l = next((l for l in r["lost"] if l["n"] == x), None)
            return "F-C44b" if l is not None and self._is_nel_loss(l["want"], l["got"]) else None
        if r.get("op") not in ("upd", "updk", "updd", "set", "pd") or r.get("out") != "OptionsError": return None
        cls = self._stale_class(r, x)
        return {"rollback-interrupted": "F-C44c", "nested-not-renotified": "F-C44d"}.get(cls)

    def setup(self, tier):
        self.known_selftest()

    def known_selftest(self):
        """positive witness + near misses for every recorded finding; a disagreement of known() with the expectations ends the
        run as INFRA. The observations are taken from the tree under test: when a witness does not behave as recorded there
        (a modified tree), its block is skipped — the runner reports the stale witness separately."""
        for block in self._selftest_blocks():
            try:
                trip = block()
            except _WitnessStale:
                continue
            for case, obs, failure, want in trip:
                got = self.known(case, obs, failure)
                assert got == want, ("known() selftest", failure, got, want)

    def _selftest_blocks(self):
        import copy
        corp = {os.path.basename(f): json.load(open(f)) for f in glob.glob(os.path.join(CORPUS, "C44", "*.json"))}

        def witness(case, fid):
            obs = self.impl(case); fails = self.oracle(case, obs)
            if not fails or {self.known(case, obs, f) for f in fails} != {fid}: raise _WitnessStale(fid)
            return obs, fails

        def blk_b():
            b = corp["f_c44b_nel_yaml.json"][0]; ob, fb = witness(b, "F-C44b")
            t = []
            o = copy.deepcopy(ob); o[-1]["lost"][0]["got"] = "zzz"               # same input class, a different corruption
            t.append((b, o, fb[0], None))
            o = copy.deepcopy(ob); o[-1]["out"] = "OptionsError"                  # same input class, the load is refused
            t += [(b, o, fb[0], None), (b, o, "roundtrip-raised@2: save/load raised OptionsError", None)]
            o = copy.deepcopy(ob); o[-1]["lost"][0].update(want="a\u2028b", got="a b")    # neighbouring input: U+2028, no U+0085
            t.append((b, o, fb[0], None))
            o = copy.deepcopy(ob); o[-1]["lost"][0].update(want="a\r\nb", got="a\nb")      # neighbouring input: CRLF
            t.append((b, o, fb[0], None))
            o = copy.deepcopy(ob); o[-1]["lost"][0].update(want="a\n\x85b", got="a\nb")   # U+0085 present, but not the folding
            t.append((b, o, fb[0], None))
            return t

        def blk_c():
            c = corp["f_c44c_rollback_notification_interrupted.json"][0]; oc, fc = witness(c, "F-C44c")
            t = []
            o = copy.deepcopy(oc)                                                  # the stale listener WAS reached by the rollback notification
            for cl in o[-1]["calls"]:
                if cl["who"] == 2: cl["after_reject"] = True
            t.append((c, o, fc[0], None))
            o = copy.deepcopy(oc); o[-1]["rollback_interrupted"] = False           # rollback notification delivered, listener still stale
            t.append((c, o, fc[0], None))
            t.append((c, oc, "rollback: op 3 upd rejected with OptionsError but options changed", None))   # other clause, same input
            return t

        def blk_d():
            d = corp["seeded_c44_1_nested_update_then_reject.json"][1]; od, fd = witness(d, "F-C44d")
            t = []
            o = copy.deepcopy(od); o[-1]["filters"]["2"] = [0, 1]                  # neighbouring input: the listener IS concerned by the outer names
            t.append((d, o, fd[0], None))
            o = copy.deepcopy(od)                                                  # it was called for the outer update and is stale all the same
            o[-1]["calls"].append(dict(o[-1]["calls"][0], who=2, depth=0, after_reject=True))
            t.append((d, o, fd[0], None))
            t.append((d, od, "rollback: op 5 upd rejected with OptionsError but options changed", None))
            return t
        return [blk_b, blk_c, blk_d]

    # ---------------------------------------------------------------- model tie
    def model_lines(self, case):
        lines = ["new"]
        for op in case["ops"]:
            k = op["op"]
            if k == "add": lines.append("add %d %s %s" % (op["n"], op["ty"], wire_val(op["v"])))
            elif k == "sub": lines.append("sub %d %s %s %s" % (op["id"], self._wire_rule(op["rule"]), ",".join(map(str, op["names"])) or "-", self._wire_act(op)))
            elif k == "conn": lines.append("conn %d %s %s" % (op["id"], self._wire_rule(op["rule"]), self._wire_act(op)))
            elif k in ("upd", "updk", "updd"):
                if len({n for n, _ in op["kw"]}) != len(op["kw"]): raise Skip()
                lines.append("%s %s" % (k, ";".join("%d=%s" % (n, wire_val(v)) for n, v in op["kw"]) or "-"))
            elif k == "load":
                if len({n for n, _ in op["data"]}) != len(op["data"]): raise Skip()
                lines.append("load %s %s %s" % ("none" if op["cwd"] is None else cps(op["cwd"]), cps(os.getcwd()),
                                                ";".join("%d=%s" % (n, wire_val(v)) for n, v in op["data"]) or "-"))
            elif k == "merge":
                if len({n for n, _ in op["kw"]}) != len(op["kw"]): raise Skip()
                lines.append("merge %s" % (";".join("%d=%s" % (n, wire_val(v)) for n, v in op["kw"]) or "-"))
            elif k == "relpath":
                lines.append("relpath %s %s %s" % (cps(os.getcwd()), cps(op["rel"]), cps(op["path"])))
            elif k == "set":
                lines.append("set %d %s" % (op["defer"], ";".join(str(n) if v is None else "%d=%s" % (n, cps(v)) for n, v in op["specs"]) or "-"))
            else: lines.append(k)
        return lines

    def _wire_act(self, op):
        a = op.get("act")
        if a is None: return "-"
        if len({n for n, _ in a["kw"]}) != len(a["kw"]): raise Skip()
        return "%s/%s" % (self._wire_rule(a["when"]), ";".join("%d=%s" % (n, wire_val(v)) for n, v in a["kw"]) or "-")

    @staticmethod
    def _wire_rule(r):
        if r[0] == "eq": return "eq:%d:%s" % (r[1], wire_val(r[2]))
        if r[0] == "upd": return "upd:%d" % r[1]
        return r[0]

    def model_obs(self, case, replies):
        out = []
        for op, rep in zip(case["ops"], replies[1:]):
            if op["op"] == "save" and self._reply_has_nel(rep): rep = "save nel"
            out.append(rep)
        return out

    @staticmethod
    def _reply_has_nel(rep):
        # the ideal-YAML model reproduces every value; F-C44b (real library, U+0085) is excluded from the comparison
        for item in rep.split(" ")[-1].split(";"):
            for atom in item.partition("=")[2].split("."):
                if atom.startswith("s") and atom != "s-":
                    try:
                        if NEL in bytes.fromhex(atom[1:]).decode("utf-8"): return True
                    except ValueError: pass
        return False

    def impl_view(self, case, obs):
        return [r["reply"] for r in obs]

    def classify(self, case, obs):
        if any(r["op"] in ("upd", "updk", "updd", "set", "pd") and (r.get("calls") or r["out"] != "ok" or r.get("assigned")) for r in obs):
            return json.dumps(case, sort_keys=True)
        return None

    def branches(self, case, obs):
        out = []
        for r in obs:
            out.append("%s:%s" % (r["op"], r["out"]))
            if r.get("rollback_interrupted"): out.append("rollback-interrupted")
            if r["op"] == "save" and r["nel"]: out.append("save:nel")
            if r["op"] != "save" and r["out"] == "OptionsError" and r["calls"]: out.append("rejected-by-listener")
        return out

    def shrink_candidates(self, case):
        # drop whole operations, then single pairs of an update; never cut inside a rule or a value
        ops = case["ops"]
        for i in range(len(ops)):
            yield {"ops": ops[:i] + ops[i + 1:]}
        for i, op in enumerate(ops):
            if op["op"] in ("upd", "updk", "updd") and len(op["kw"]) > 1:
                for j in range(len(op["kw"])):
                    yield {"ops": ops[:i] + [dict(op, kw=op["kw"][:j] + op["kw"][j + 1:])] + ops[i + 1:]}
            if "act" in op:
                yield {"ops": ops[:i] + [{k: v for k, v in op.items() if k != "act"}] + ops[i + 1:]}

    def neighbours(self, case, rng):
        ops = case["ops"]
        for i in range(len(ops)):
            yield {"ops": ops[:i] + ops[i + 1:]}
        for _ in range(200):
            h = self._history(rng)
            yield {"ops": ops[:rng.randint(0, len(ops))] + h["ops"][rng.randint(0, len(h["ops"]) - 1):]}

    def exhaustive(self, tier):
        # two int options, one rejecting listener, every pair of typed/ill-typed values
        vals = [["i", 5], ["i", 7], ["s", "x"], ["n"], ["b", True], ["o"]]
        for rule in (["never"], ["always"], ["eq", 0, ["i", 5]], ["upd", 1]):
            for a in vals:
                for b in vals:
                    yield {"ops": [{"op": "add", "n": 0, "ty": "int", "v": ["i", 0]}, {"op": "add", "n": 1, "ty": "int", "v": ["i", 0]},
                                   {"op": "conn", "id": 1, "rule": ["never"]}, {"op": "sub", "id": 2, "rule": rule, "names": [0, 1]},
                                   {"op": "conn", "id": 3, "rule": ["never"]},
                                   {"op": "upd", "kw": [[0, a], [1, b]]}, {"op": "save"}]}
