"""C45 — command-line arguments reach commands unchanged (mitmproxy/command_lexer.py, command.py, types.py _StrType)."""
import itertools, json, logging, os, re
from collections.abc import Sequence
from common.check import PropertyCheck, Skip
import mitmproxy.types
from mitmproxy import command, command_lexer, exceptions

WS = " \r\n\t"
UNI = {"BULLET": 0x2022, "SPACE": 0x20, "LATIN SMALL LETTER A": 0x61, "QUOTATION MARK": 0x22}     # = C45Driver.db
BOGUS = {"QQ", "NO SUCH NAME", "x"}
ALPHA = ["a", "b", " ", "\t", "\n", "\r", '"', "'", "\\", "x", "2", "n", "u", "U", "N", "{", "}", "0", "7", "é", "\xa0",
         "\u3000", "\U0001f600", "A", "f", "\x0b", "t", "\x85"]
SMALL = ["a", " ", '"', "'", "\\", "n", "x"]
PIECES = ["\\x41", "\\x4", "\\xzz", "\\u00e9", "\\u00e", "\\ud800", "\\U0001F600", "\\U00110000", "\\U0001F60", "\\N{BULLET}",
          "\\N{QQ}", "\\N{}", "\\N{SPACE", "\\N{QUOTATION MARK}", "\\777", "\\1", "\\18", "\\0", "C:\\new", "\\\\", "\\'", '\\"', "\\a",
          "\\d", "\\ ", "\\x\n1", "\\x22", "\\x2", "~/x", "a b", "{choice}", "\\n\\t", "'\\x\""]


class _Cmds:
    def __init__(self):
        self.got = None

    @command.command("t.s")
    def t_s(self, *args: str) -> None:
        self.got = ("t.s", list(args))

    @command.command("t.v")
    def t_v(self, *args: mitmproxy.types.CmdArgs) -> None:
        self.got = ("t.v", list(args))

    # the other signature shapes: fixed arity, mixed parameter types, fixed parameters followed by *rest, no parameters
    @command.command("t.one")
    def t_one(self, a: str) -> None:
        self.got = ("t.one", [a])

    @command.command("t.two")
    def t_two(self, a: str, b: mitmproxy.types.CmdArgs) -> None:
        self.got = ("t.two", [a, b])

    @command.command("t.mix")
    def t_mix(self, a: mitmproxy.types.CmdArgs, *rest: str) -> None:
        self.got = ("t.mix", [a] + list(rest))

    @command.command("t.none")
    def t_none(self) -> None:
        self.got = ("t.none", [])

    # the other convertible parameter types (tie of the transcribed conversions int / bool / path; no oracle clause of C45 is about them)
    @command.command("t.i")
    def t_i(self, *args: int) -> None:
        self.got = ("t.i", list(args))

    @command.command("t.b")
    def t_b(self, *args: bool) -> None:
        self.got = ("t.b", list(args))

    @command.command("t.p")
    def t_p(self, *args: mitmproxy.types.Path) -> None:
        self.got = ("t.p", list(args))

    @command.command("t.ibp")
    def t_ibp(self, a: int, b: bool, c: mitmproxy.types.Path) -> None:
        self.got = ("t.ibp", [a, b, c])

    @command.command("t.q")
    def t_q(self, *args: Sequence[str]) -> None:
        self.got = ("t.q", [list(a) for a in args])

    @command.command("t.c")
    def t_c(self, a: mitmproxy.types.CutSpec) -> None:
        self.got = ("t.c", [list(a)])

    @command.command("t.m")
    def t_m(self, *args: mitmproxy.types.Marker) -> None:
        self.got = ("t.m", list(args))

    @command.command("t.opts")
    def t_opts(self) -> Sequence[str]:
        return list(CHOICES)          # the options command of the Choice parameter below; it must not touch `got`

    @command.command("t.ch")
    @command.argument("a", type=mitmproxy.types.Choice("t.opts"))
    def t_ch(self, a: str, *rest: str) -> None:
        self.got = ("t.ch", [a] + list(rest))

    # parameter defaults: bind(*args) + apply_defaults()
    @command.command("t.d")
    def t_d(self, a: str, b: str = "dflt", c: int = 7) -> None:
        self.got = ("t.d", [a, b, c])

    @command.command("t.dr")
    def t_dr(self, a: mitmproxy.types.CmdArgs, b: bool = True, *rest: str) -> None:
        self.got = ("t.dr", [a, b] + list(rest))


# command key -> (types of the positional parameters, type of *rest or None); 's' = str, 'v' = verbatim (CmdArgs)   (= C45Driver.cmds)
SIGS = {"s": ([], "s"), "v": ([], "v"), "one": (["s"], None), "two": (["s", "v"], None), "mix": (["v"], "s"), "none": ([], None),
        "i": ([], "i"), "b": ([], "b"), "p": ([], "p"), "ibp": (["i", "b", "p"], None)}
SIGS.update({"q": ([], "q"), "c": (["c"], None), "m": ([], "m"), "ch": (["ch"], "s"), "opts": ([], None), "d": (["s", "s", "i"], None), "dr": (["v", "b"], "s")})
CONV = ["i", "b", "p", "ibp", "q", "c", "m", "ch", "opts", "d", "dr"]
CHOICES = ["a", "b c", "", "'q'"]                       # = C45Driver.choiceOpts
os.environ["HOME"] = "/h/me/"          # = C45Driver.env; the password database entry relied on is root -> /root
CONV_TEXTS = {"i": ["5", "-3", "+7", "007", " 5 ", "1_0", "_1", "1__0", "\u0663\u0664", "\uff15", "5\x00", "", "abc", "1 2", "\xa07", "\x1c5", "0x10", "1e3",
                    "12345678901234567890123", "-0", "+", "\u0967_\u0968", "\x0b7\x0c", "true"],
              "b": ["true", "false", "True", "", "1", "0", "yes", " true", "true ", "toggle", "TRUE", "fals"],
              "q": ["a,b", " a , b\t", "", ",", "a,,b", "\xa0x\u3000,\x1fy\x85", "a b", ",a", "x\x0b,\x0c", "'q,'", "\u2028z", "a\x00 ,b"],
              "c": ["request.method,response.status_code", " a , b", "", ",", "x", "a,,", "request.header[x,y]"],
              "m": ["true", "false", ":red_circle:", ":+1:", ":default:", "", "True", ":nosuchemoji:", " true", ":100:", "x"],
              "ch": ["a", "b c", "", "'q'", "b", "A", " a", "b  c"],
              "p": ["~", "~/x", "~//x/", "~root", "~root/a b", "~nosuchuser/x", "a~", "~~", "~/", "x/~", "~\x00", "~a\x00b/c", "", "/abs/p", "rel/p", "~root/", "~/\u00e9",
                    "C:\\new", "~'q\"", " ~", "~ /x"]}

NAMES = {"t." + k: k for k in SIGS}


def tys_for(key, n):
    """the parameter type each of n arguments meets, None when the call does not bind"""
    pos, rest = SIGS[key]
    if n < len(pos) or (rest is None and n != len(pos)): return None
    return pos + [rest] * (n - len(pos))


def manager():
    """a fresh CommandManager per case: what one case does to it (parse cache, …) cannot leak into another"""
    cm = command.CommandManager(None)
    a = _Cmds()
    cm.collect_commands(a)
    assert set(cm.commands) == set(NAMES)
    return cm, a


# values that begin and end with a quote character, nested quotes, values that are themselves quoted strings
WRAPPED = ['"ok"', "'single'", '"', "'", "''", '""', '"a b"', "'a b'", "'a\"b'", '"it\'s"', "\"'x'\"", "'\"x\"'", '"" ""', "'' x ''",
           '"x', "x'", '"ok" ', "'a' 'b'", '"\\"', "'\t'"]
PLANS = [["x"], ["x", "x"], ["x", "x", "x"], ["x", "p", "x"], ["p", "x", "x"], ["x", "o", "x"], ["x", "o", "p", "x", "x"], ["o", "x", "p", "o", "x"],
         ["t", "x"], ["x", "t", "x"], ["T", "x", "x"], ["t", "t", "x"], ["x", "p", "t", "o", "T", "x"], ["t", "x", "t", "x"]]
# steps: x execute the line | o execute another line | p parse_partial(line) | t / T the console's CommandBuffer on this manager: set the
# text, render, <TAB> forwards / backwards (twice), render


class _Master:
    """the part of a master the console's CommandBuffer / CommandExecutor / Keymap use"""
    def __init__(self, cm): self.commands = cm
    def overlay(self, *a, **kw): raise AssertionError("test commands return nothing")


class _LogCapture(logging.Handler):
    """CommandExecutor reports a CommandError through logging.error: collect the messages"""
    def __init__(self):
        super().__init__(logging.ERROR); self.msgs = []
    def emit(self, record): self.msgs.append(record.getMessage())


_LOG = _LogCapture()
logging.getLogger().addHandler(_LOG)
# every character str.isspace() accepts in this interpreter, and the C0 / DEL / C1 control characters
ISSPACE = [chr(c) for c in range(0x110000) if chr(c).isspace()]
CONTROLS = [chr(c) for c in list(range(0x20)) + list(range(0x7f, 0xa0))]
EDGE = sorted(set(ISSPACE + CONTROLS))
ROUTES = ["m", "e", "k"]      # CommandManager.execute | the console's CommandExecutor (prompt) | a key binding through the real Keymap



class _WitnessStale(Exception):
    pass


def enc(s):
    b = b"".join(ord(c).to_bytes(3, "big") for c in s)
    return b.hex() if b else "-"


def ref_split(line):
    """the statement's reading: arguments are the maximal pieces between unquoted whitespace. Returns (segments, adjacency)
    where adjacency says that a quoted string starts or ends in the middle of a piece."""
    segs, cur, q, adj = [], "", None, False
    for i, c in enumerate(line):
        if q is not None:
            cur += c
            if c == q:
                q = None
                if i + 1 < len(line) and line[i + 1] not in WS: adj = True
        elif c in WS:
            if cur: segs.append(cur)
            cur = ""
        else:
            if c in "'\"":
                q = c
                if cur: adj = True
            cur += c
    if cur: segs.append(cur)
    return segs, adj


def ref_quote(v):
    """the console's quoting rule, written out independently of command_lexer.quote"""
    if v != "" and not any(c in "'\" \r\n\t" for c in v): return v
    if '"' not in v: return '"' + v + '"'
    if "'" not in v: return "'" + v + "'"
    return '"' + "".join("\\x22" if c == '"' else c for c in v) + '"'


def ref_tokens(line):
    """the lexer's cut, written as a scanner: a quoted string (to its closing quote or the end), a whitespace run, a run of other characters"""
    toks, i, n = [], 0, len(line)
    while i < n:
        c = line[i]
        if c in "'\"":
            j = line.find(c, i + 1)
            j = n - 1 if j < 0 else j
        elif c in WS:
            j = i
            while j + 1 < n and line[j + 1] in WS: j += 1
        else:
            j = i
            while j + 1 < n and line[j + 1] not in WS and line[j + 1] not in "'\"": j += 1
        toks.append(line[i:j + 1]); i = j + 1
    return toks


_SIMPLE = {"\\": "\\", "'": "'", '"': '"', "a": "\a", "b": "\b", "f": "\f", "n": "\n", "r": "\r", "t": "\t", "v": "\v"}
_HEX = "0123456789abcdefABCDEF"


def ref_unescape(s):
    """what a str parameter makes of the text (escape sequences interpreted one by one); None = the argument is refused.
    Written as a scanner, independent of types._StrType."""
    import unicodedata
    out, i, n = [], 0, len(s)
    while i < n:
        c = s[i]
        if c != "\\" or i + 1 >= n:
            out.append(c); i += 1; continue
        e = s[i + 1]
        if e in _SIMPLE:
            out.append(_SIMPLE[e]); i += 2; continue
        if e in "01234567":
            j = i + 1
            while j < n and j < i + 4 and s[j] in "01234567": j += 1
            out.append(chr(int(s[i + 1:j], 8))); i = j; continue
        width = {"x": 2, "u": 4, "U": 8}.get(e)
        if width is not None:
            d = s[i + 2:i + 2 + width]
            if len(d) == width and "\n" not in d:
                if not all(ch in _HEX for ch in d): return None
                v = int(d, 16)
                if v > 0x10FFFF: return None
                out.append(chr(v)); i += 2 + width; continue
        if e == "N" and i + 2 < n and s[i + 2] == "{":
            j = s.find("}", i + 3)
            if j > i + 3:
                try: out.append(unicodedata.lookup(s[i + 3:j]))
                except (KeyError, ValueError): return None
                i = j + 1; continue
        out.append(c); i += 1
    return "".join(out)


def ref_unquote(seg):
    if len(seg) > 1 and seg[0] in "'\"" and seg[-1] == seg[0]: return seg[1:-1]
    return seg


class Check(PropertyCheck):
    prop = "C45"
    design_ref = "§5 C45"
    level_text = ("Lean theorems about the transcribed code (quote / unquote / the pyparsing grammar as a 4-mode lexer / execute / "
                  "signature binding / _StrType.parse escape by escape), for ALL strings and lines: lexer_loses_nothing, "
                  "lexer_merge_splits_at_unquoted_ws, lexer_splits_at_unquoted_ws_partial (+counterexample `x foo\"bar baz\"`, F-C45c), "
                  "unquote_quote (every string without both quote characters), unquote_quote_both, str_unescape_unquote_quote "
                  "(every backslash-free string), arg_unchanged_partial and arg_unchanged_sig_partial (any number of arguments, every "
                  "signature shape: fixed parameters of mixed types, *rest, none; guard per parameter type) with counterexamples "
                  "`C:\\new` (F-C45b) and both quotes (F-C45a), execute_delivers_typed_tokens (for every line and signature, what reaches "
                  "the command is position by position the typed conversion of the unquoted argument tokens), bindTys_spec, "
                  "arity_mismatch_runs_nothing, executeSig_varargs, execute_is_a_function_of_the_parse; the remaining conversions are "
                  "transcribed and tied (int = Python int() shared with C44, bool, path = posixpath.expanduser with $HOME / password "
                  "database as parameters): typed_execute_extends_execute (the typed model the driver runs equals the str/verbatim one), "
                  "execute_delivers_typed_values (all five parameter types), bool_arg_exact, int_arg_is_python_int, "
                  "path_arg_unchanged_without_tilde, path_arg_home, path_arg_roundtrip, expandUser_agrees_with_optmanager; Sequence[str] "
                  "(split at commas + str.strip with the interpreter's whitespace table), CutSpec, Marker (emoji table regenerated from "
                  "mitmproxy/utils/emoji.py), Choice (its options command's result as a parameter) and parameter DEFAULTS "
                  "(bind + apply_defaults) are transcribed and tied too: str_seq_arg, cut_spec_arg, marker_arg_exact, choice_arg_exact, "
                  "split_comma_join, execute_without_defaults, defaults_fill_exactly_the_missing, execute_with_defaults_delivers. Round-6 owner fixes: the command table of the driver is `harnessCmds` in the model; executeD_depends_on_looked_up_name, "
                  "executeD_on_plain_entry, harness_table_plain, driver_executes_executeSig and arg_unchanged_on_driver_table carry the executeSig theorems "
                  "to `executeD … harnessCmds`, the function compared with mitmproxy; the EXACT str guard: deliver_iff (the command receives `a` iff "
                  "argOkX), argOk_implies_argOkX, arg_unchanged_exact_partial, arg_unchanged_exact_iff; cmdline_splits_at_unquoted_ws joins the two "
                  "sentences of the statement; str_parse_fuel_adequate. CLAUSE-MAP LEMMAS, not evidence (each restates one line of a definition by rfl): bool_arg_exact, "
                  "int_arg_is_python_int, str_seq_arg, cut_spec_arg, marker_arg_exact, choice_arg_exact, execute_is_a_function_of_the_parse. "
                  "Model tied to the code through CommandManager.execute on 17 registered test commands, every line executed 1–3 times on one "
                  "manager over three routes; the specification functions refSplit / mergeAdjacent / noAdjacent are tied to the oracle's ref_split "
                  "by the driver op `refsplit` on every case.")
    level_note = ("PARTIAL: the full statement is false for the code (three recorded findings with exact classifiers, see known_selftest); "
                  "proved under the guards named above. trusted: Lean kernel; differential tie (every execution's outcome, quote(), token "
                  "list); the pyparsing grammar, the escape regex and codecs.unicode-escape are transcribed by hand into Model/C45.lean "
                  "(validated by the tie, not verified against pyparsing/re/codecs); the Unicode name database of \\N{…} stays a parameter "
                  "(four names in the driver); the conversions that need the manager's state or the file system (Cmd, Flow/Flows via the view, Data, path "
                  "completion) are not modelled; a Choice's options are a parameter (the tie registers the options command); `execute`, `executeSig`, `executeT`, `executeToks` "
                  "are not run by the driver — they reach it through the bridge theorems named in level_text; the statelessness of the parse cache "
                  "is carried by the re-run plans of the tie, not by a theorem; str_parse_fuel_adequate: strParse's fuel (the text length) never runs out, none = refused escape; $HOME and the password database are parameters of the "
                  "path conversion (the tie fixes HOME=/h/me/ and the entry root→/root).")
    technique = "Lean 4 proof (induction over strings / argument lists) + differential correspondence through CommandManager.execute"
    rule = ("(a) every string of length <=3 (thorough <=4) over {a, space, \", ', \\, n, x} as one argument of a str-typed and of a "
            "verbatim-typed command, (b) 1–3 random arguments over an alphabet with all whitespace kinds, both quotes, backslashes, "
            "escape-sequence fragments and non-ASCII plus values wrapped in / consisting of quote characters, (c) raw command lines over "
            "the same alphabet (split rule), (d) every signature shape (t.s/t.v *rest, t.one(str), t.two(str, verbatim), t.mix(verbatim, *str), "
            "t.none()) with matching and non-matching argument counts. Every case runs on ONE fresh CommandManager and executes its line 1–3 times, interleaved "
            "with parse_partial calls and another line (plans x/p/o); steps t/T drive the console's real CommandBuffer (set_text, render, <TAB> forwards/backwards) on that manager, "
            "the oracle and the (stateless) model are "
            "applied to every execution, and all executions must agree. distinct = distinct "
            "(kind, type, strings); non-trivial = at least one argument or a non-blank raw line.")
    budget = {"quick": 10000, "thorough": 300000}
    time_budget = {"quick": 30, "thorough": 600}
    fingerprints = ["mitmproxy.command_lexer:quote", "mitmproxy.command_lexer:unquote", "mitmproxy.command:CommandManager.parse_partial",
                    "mitmproxy.command:CommandManager.execute", "mitmproxy.command:CommandManager.call_strings",
                    "mitmproxy.command:Command.prepare_args", "mitmproxy.command:parsearg", "mitmproxy.types:_StrType.parse",
                    "mitmproxy.types:_StrType._unescape", "mitmproxy.types:_ArgType.parse"]
    trusted_base = ["pyparsing Regex/Word/CharsNotIn/ZeroOrMore, re and codecs 'unicode-escape' as modelled by hand (Model/C45.lean)",
                    "unicodedata name lookup behind \\N{…} (parameter UniDb)"]
    parallel = False

    def translate(self):
        """(T) the marker names _MarkerType accepts besides true/false: the keys of mitmproxy.utils.emoji.emoji"""
        from mitmproxy.utils import emoji
        names = list(emoji.emoji)
        assert all(n.isascii() and " " not in n and '"' not in n and "\\" not in n for n in names)
        return {"MitmVerif/Gen/C45.lean": "-- generated by harness/c45.py translate() from mitmproxy/utils/emoji.py; do not edit\n"
                "namespace MitmVerif.Gen.C45\n\n/-- the emoji marker names, separated by blanks -/\ndef emojiText : String :=\n  \""
                + " ".join(names) + "\"\n\n/-- the emoji marker names, as code points -/\n"
                "def emojiNames : List (List Nat) := (emojiText.splitOn \" \").map fun n => n.toList.map Char.toNat\n\n"
                "end MitmVerif.Gen.C45\n"}

    # ------------------------------------------------------------------ generator
    def _rand(self, rng, lo=0, hi=8):
        if rng.chance(0.15):
            # begins / ends with / consists of whitespace of any script or a control character
            c, mid = rng.pick(EDGE), self._rand(rng, 0, 3)
            return rng.pick([c, mid + c, c + mid, c + mid + rng.pick(EDGE), mid + c + c])
        r = rng.random()
        if r < 0.12: return rng.pick(WRAPPED)
        if r < 0.22:
            q = rng.pick("'\"")
            return q + self._rand(rng, 0, 4) + q
        out = ""
        for _ in range(rng.randint(lo, hi)):
            out += rng.pick(PIECES) if rng.chance(0.12) else rng.pick(ALPHA)
        return out

    def generate(self, rng, tier):
        for n in range(0, 5 if tier == "thorough" else 4):
            for t in itertools.product(SMALL, repeat=n):
                for ty in ("s", "v"):
                    yield {"k": "args", "ty": ty, "args": ["".join(t)]}
        for p in PIECES:
            for ty in ("s", "v"):
                yield {"k": "args", "ty": ty, "args": [p]}
                yield {"k": "args", "ty": ty, "args": ["'\"" + p]}
        for w in WRAPPED:
            for ty in ("s", "v"):
                for plan in (["x", "x", "x"], ["x", "p", "x"], ["x", "o", "x"]):
                    yield {"k": "args", "ty": ty, "args": [w], "plan": plan}
                yield {"k": "args", "ty": ty, "args": ["a", w, w], "plan": ["x", "x"]}
        if tier == "thorough":
            for t in itertools.product(SMALL, repeat=4):
                yield {"k": "raw", "ty": "v", "line": "t.v " + "".join(t)}
        # every whitespace / control character at the edges of the LAST (and only) argument, on every execution route
        for c in EDGE:
            for route in ROUTES:
                for ty, args in (("v", [c]), ("s", ["100" + c]), ("v", [c + "a"]), ("two", ["a", "b" + c]), ("mix", ["a", c]), ("one", [c + c])):
                    yield {"k": "args", "ty": ty, "args": args, "route": route}
        # tie of the transcribed conversions int() / bool / expanduser: every text, alone and in the three-typed signature
        for key in ("i", "b", "p"):
            for t in CONV_TEXTS[key]:
                yield {"k": "conv", "ty": key, "args": [t]}
                yield {"k": "conv", "ty": key, "args": ["".join(rng.pick(CONV_TEXTS[key]) for _ in range(2)), t]}
        for key in ("q", "c", "m"):
            for t in CONV_TEXTS[key]:
                yield {"k": "conv", "ty": key, "args": [t]}
                if key != "c": yield {"k": "conv", "ty": key, "args": [rng.pick(CONV_TEXTS[key]), t]}
        for t in CONV_TEXTS["ch"]:
            yield {"k": "conv", "ty": "ch", "args": [t]}
            yield {"k": "conv", "ty": "ch", "args": [t, "x\\ny", t]}
        # parameter defaults: every number of arguments from none to one too many
        for n in range(0, 5):
            for a in (["x", "y", "5", "z", "w"], ["'\"", "b c", "007", "t", "u"], ["a", "", "x1", "q", "r"]):
                yield {"k": "conv", "ty": "d", "args": a[:n]}
            for a in (["v", "true", "r1", "r2", "r3"], ["v", "nope", "r1", "r2", "r3"], ["'\"", "false", "C:\\new", "", "x"]):
                yield {"k": "conv", "ty": "dr", "args": a[:n]}
        for a in CONV_TEXTS["i"][:8]:
            for b in CONV_TEXTS["b"][:4]:
                for c in CONV_TEXTS["p"][:8]:
                    yield {"k": "conv", "ty": "ibp", "args": [a, b, c]}
        for key, (pos, rest) in SIGS.items():
            if key in CONV: continue
            for n in range(0, len(pos) + 3):
                for w in ("a", "a b", "'\"", "C:\\new", ""):
                    yield {"k": "args", "ty": key, "args": [w] * n}
        while True:
            ty = rng.weighted([(5, "s"), (5, "v"), (2, "one"), (3, "two"), (3, "mix"), (1, "none")])
            r = rng.random()
            plan = rng.pick(PLANS)
            route = rng.pick(ROUTES)
            if r < 0.6:
                pos, rest = SIGS[ty]
                n = rng.randint(0, 3) if rng.chance(0.1) else len(pos) + (rng.randint(0 if pos else 1, 2) if rest else 0)
                yield {"k": "args", "ty": ty, "args": [self._rand(rng) for _ in range(n)], "plan": plan, "route": route}
            else:
                pre = rng.pick(["t.%s ", " t.%s  ", '"t.%s" ', "'t.%s'\t", "t.%s", "t.%s\n"]) % ty
                yield {"k": "raw", "ty": ty, "line": pre + self._rand(rng, 0, 12), "plan": plan, "route": route}

    # ------------------------------------------------------------------ implementation
    def impl(self, case):
        cm, sink = manager()
        if case["k"] in ("args", "conv"):
            quoted = [command_lexer.quote(a) for a in case["args"]]
            line = "t.%s" % case["ty"] + "".join(" " + q for q in quoted)
        else:
            quoted, line = [], case["line"]
        if True:
            for nm in re.findall(r"\\N\{([^}]+)\}", line):
                if nm not in UNI and nm not in BOGUS: raise Skip()
        # the same line is executed several times on ONE manager (history re-run, repeated key binding), interleaved with
        # another line and with parse_partial calls (the console's completion): x = execute, o = other line, p = parse_partial
        execs = []
        for step in case.get("plan", ["x"]):
            if step == "p":
                cm.parse_partial(line)
            elif step == "o":
                cm.execute("t.v other 'line'")
            elif step in ("t", "T"):
                # exactly what the console prompt does; an exception here is the code's, and is left to surface
                from mitmproxy.tools.console.commander import commander
                cb = commander.CommandBuffer(_Master(cm), "")
                cb.set_text(line)
                cb.cycle_completion(step == "t"); cb.render()
                cb.cycle_completion(step == "t"); cb.render()
            else:
                execs.append(self._exec(cm, sink, line, case.get("route", "m")))
        toks = list(command_lexer.expr.parse_string(line, parse_all=True))
        return {"line": line, "exec": execs[0], "execs": execs, "quoted": quoted, "tokens": toks}

    @staticmethod
    def _classify_error(m):
        if m.startswith("Invalid command"): return ["nocmd"]
        if m.startswith("Command argument mismatch"): return ["arity"]
        if m.startswith("Unknown command"): return ["unknown"]
        return ["badarg"]

    def _exec(self, cm, sink, line, route="m"):
        sink.got = None
        if route == "m":
            try:
                cm.execute(line)
                return ["call", sink.got[0], sink.got[1]]
            except exceptions.CommandError as e:
                return self._classify_error(str(e))
        # the console's own ways of running a command line: errors are logged, not raised
        from mitmproxy.tools.console import commandexecutor, keymap
        del _LOG.msgs[:]
        if route == "e":
            commandexecutor.CommandExecutor(_Master(cm))(line)
        else:
            km = keymap.Keymap(_Master(cm))
            km.add("f5", line, ["global"])
            assert km.handle("flowlist", "f5") is None
        if sink.got is not None: return ["call", sink.got[0], sink.got[1]]
        if _LOG.msgs: return self._classify_error(_LOG.msgs[-1])
        return ["nocmd"]          # a blank line: nothing is run

    # ------------------------------------------------------------------ the property on the implementation
    def oracle(self, case, obs):
        fails = []
        for i, ex in enumerate(obs["execs"]):
            fails += self._oracle_one(case, obs, ex, i)
            # every execution of the same line on the same manager must deliver the same arguments
            if ex != obs["execs"][0]:
                fails.append("rerun@%d: execution %d of %r gave %r, the first one %r" % (i, i + 1, obs["line"], ex, obs["execs"][0]))
        return fails

    def _oracle_one(self, case, obs, ex, run):
        fails = []
        if case["k"] == "conv":
            return fails          # tie of the int / bool / path conversions only
        if case["k"] == "args":
            # "Any string, quoted with the console's quoting rule and placed in a command line, is passed to the executed command unchanged"
            want = case["args"]
            if tys_for(case["ty"], len(want)) is None:
                # the command cannot take this many arguments: it must not be run at all
                if ex != ["arity"]: fails.append("arity@%d: %d arguments for t.%s gave %r" % (run, len(want), case["ty"], ex))
            elif ex[0] == "call" and len(ex[2]) == len(want):
                for j, (w, g) in enumerate(zip(want, ex[2])):
                    if w != g: fails.append("arg-changed@%d#%d: argument %r arrived as %r (line %r)" % (run, j, w, g, obs["line"]))
            elif ex[0] == "badarg":
                fails.append("arg-changed@%d#badarg: %r refused (line %r)" % (run, want, obs["line"]))
            else:
                fails.append("arg-changed@%d#count: %r arrived as %r (line %r)" % (run, want, ex[2] if ex[0] == "call" else ex[0], obs["line"]))
        else:
            # "a command line's arguments are split exactly at unquoted whitespace"
            segs, adj = ref_split(case["line"])
            if ex[0] == "call":
                n = 1 + len(ex[2])
                if n != len(segs):
                    fails.append("split@%d: %r gives %d pieces, %d lie between unquoted whitespace" % (run, case["line"], n, len(segs)))
                elif case["ty"] == "v" and not adj and ex[2] != [ref_unquote(s) for s in segs[1:]]:
                    fails.append("split-content@%d: %r arguments %r are not the pieces %r" % (run, case["line"], ex[2], segs[1:]))
            elif ex[0] == "nocmd":
                if segs: fails.append("split-nocmd@%d: %r has pieces %r but no command was found" % (run, case["line"], segs))
            elif ex[0] == "unknown":
                if segs and ref_unquote(segs[0]) in NAMES:
                    fails.append("split@%d: %r command name not recognised" % (run, case["line"]))
        return fails

    @staticmethod
    def _delivered(ty, text):
        """what a parameter of kind ty receives for the unquoted token text (None: refused)"""
        return text if ty == "v" else ref_unescape(text)

    def known(self, case, obs, failure):
        """a finding's id only when the failing clause AND the delivered values are the recorded ones (recomputed here from the
        case and the observation with the harness's own quoting rule / scanner / unescape)"""
        m = re.match(r"([a-z-]+)@(\d+)(?:#(\w+))?:", failure)
        if not m or not isinstance(obs, dict) or int(m.group(2)) >= len(obs.get("execs", [])): return None
        kind, ex, ty = m.group(1), obs["execs"][int(m.group(2))], case["ty"]
        if kind not in ("arg-changed", "split"): return None
        if kind == "arg-changed":
            if case["k"] != "args": return None
            want, x = case["args"], m.group(3)
            tys = tys_for(ty, len(want))
            if tys is None: return None
            pred = [self._delivered(t, ref_unquote(ref_quote(w))) for t, w in zip(tys, want)]
            if x == "badarg":
                # F-C45b: a str argument with a backslash whose escape sequence the codec refuses
                bad = [(t, w) for t, w, p in zip(tys, want, pred) if p is None]
                return "F-C45b" if ex == ["badarg"] and bad and all(t == "s" and "\\" in w for t, w in bad) else None
            if x is None or not x.isdigit() or ex[0] != "call" or len(ex[2]) != len(want): return None
            j = int(x); w, g = want[j], ex[2][j]
            if j >= len(want) or g == w or g != pred[j]: return None
            if tys[j] == "v" and '"' in w and "'" in w and g == w.replace('"', "\\x22"): return "F-C45a"
            if tys[j] == "s" and "\\" in w: return "F-C45b"
            return None
        # F-C45c: the line has a quote touching a non-blank neighbour, and what arrived is exactly the lexer's finer cut
        if case["k"] != "raw": return None
        segs, adj = ref_split(case["line"])
        toks = [t for t in ref_tokens(case["line"]) if t.strip(WS) != ""]
        if not adj or not toks or len(toks) == len(segs): return None
        name = ref_unquote(toks[0])
        if name not in NAMES: return "F-C45c" if ex == ["unknown"] else None
        tys = tys_for(NAMES[name], len(toks) - 1)
        if tys is None: return "F-C45c" if ex == ["arity"] else None
        pred = [self._delivered(t, ref_unquote(tok)) for t, tok in zip(tys, toks[1:])]
        if any(p is None for p in pred): return "F-C45c" if ex == ["badarg"] else None
        return "F-C45c" if ex == ["call", name, pred] else None

    def setup(self, tier):
        self.known_selftest()

    def known_selftest(self):
        """positive witness + near misses for every recorded finding; a disagreement of known() with the expectations ends the
        run as INFRA. The observations are taken from the tree under test: when a witness does not behave as recorded there
        (a modified tree), its block is skipped — the runner reports the stale witness separately."""
        for block in self._selftest_blocks():
            try:
                trip = block()
            except _WitnessStale:
                continue
            for case, obs, failure, want in trip:
                got = self.known(case, obs, failure)
                assert got == want, ("known() selftest", failure, got, want)

    def _selftest_blocks(self):
        import copy

        def witness(case, fid):
            obs = self.impl(case); fails = self.oracle(case, obs)
            if not fails or {self.known(case, obs, f) for f in fails} != {fid}: raise _WitnessStale(fid)
            return obs, fails

        def clean(case):
            obs = self.impl(case)
            if self.oracle(case, obs): raise _WitnessStale("clean")
            return copy.deepcopy(obs)

        def blk_a():
            a = {"k": "args", "ty": "v", "args": ["both'\"q"]}; oa, fa = witness(a, "F-C45a")
            t = []
            o = copy.deepcopy(oa); o["execs"][0][2][0] = "both'q"                  # same input, a different corruption
            t.append((a, o, fa[0], None))
            t.append((a, oa, "rerun: execution 2 of ... gave ...", None))           # same input, other clause
            n = {"k": "args", "ty": "v", "args": ["it's"]}; on = clean(n); on["execs"][0][2][0] = "it\\x27s"
            t.append((n, on, "arg-changed@0#0: ...", None))                          # neighbouring input: one kind of quote only
            return t

        def blk_b():
            b = {"k": "args", "ty": "s", "args": ["C:\\new"]}; ob, fb = witness(b, "F-C45b")
            b2 = {"k": "args", "ty": "s", "args": ["\\xzz"]}; witness(b2, "F-C45b")
            b3 = {"k": "args", "ty": "s", "args": ["\u00e9\\n"]}; ob3, fb3 = witness(b3, "F-C45b")
            t = []
            o = copy.deepcopy(ob3); o["execs"][0][2][0] = "\u00c3\u00a9\n"           # same input, the rest of the string mangled as well
            t.append((b3, o, fb3[0], None))
            n = {"k": "args", "ty": "s", "args": ["l'\u00e9t\u00e9 \"chaud\""]}; on = clean(n)
            on["execs"][0][2][0] = "l'\u00c3\u00a9t\u00c3\u00a9 \"chaud\""
            t.append((n, on, "arg-changed@0#0: ...", None))                          # neighbouring input: no backslash
            o = copy.deepcopy(ob); o["execs"][0] = ["badarg"]
            t.append((b, o, "arg-changed@0#badarg: ...", None))                      # same input, refused although every escape is valid
            return t

        def blk_c():
            c = {"k": "raw", "ty": "v", "line": "t.v foo\"bar baz\""}; oc, fc = witness(c, "F-C45c")
            t = []
            o = copy.deepcopy(oc); o["execs"][0][2] = ["foo", "bar  baz"]
            t.append((c, o, fc[0], None))                                            # same input, a different delivery
            n = {"k": "raw", "ty": "v", "line": "t.v foo \"bar baz\""}; on = clean(n); on["execs"][0][2] = ["foo", "bar", "baz"]
            t.append((n, on, "split@0: ...", None))                                  # neighbouring input: no quote touches a non-blank
            t.append((c, oc, "split-content@0: ...", None))
            return t
        return [blk_a, blk_b, blk_c]

    # ------------------------------------------------------------------ model tie
    def model_lines(self, case):
        if case["k"] in ("args", "conv"):
            line = "t.%s" % case["ty"] + "".join(" " + command_lexer.quote(a) for a in case["args"])
            extra = ["quote %s" % enc(a) for a in case["args"]]
        else:
            line, extra = case["line"], []
        lines = ["exec %s" % enc(line)] * sum(1 for st in case.get("plan", ["x"]) if st == "x")
        return lines + extra + ["lex %s" % enc(line), "refsplit %s" % enc(line)]

    def model_obs(self, case, replies):
        return replies

    @staticmethod
    def _show(a):
        if isinstance(a, list): return "l:" + ",".join(enc(x) for x in a)
        if isinstance(a, bool): return "b:1" if a else "b:0"
        if isinstance(a, int): return "i:%d" % a
        return enc(a)

    def impl_view(self, case, obs):
        firsts = []
        for ex in obs["execs"]:
            if ex[0] == "call": firsts.append(" ".join(["call", enc(ex[1]), str(len(ex[2]))] + [self._show(a) for a in ex[2]]))
            else: firsts.append(ex[0])
        # last line: the oracle's own reference split (pieces between unquoted whitespace, "no quote touches a non-blank"),
        # which the model's specification functions refSplit / mergeAdjacent∘lex / noAdjacent∘lex must reproduce
        segs, adj = ref_split(obs["line"])
        pieces = [str(len(segs))] + [enc(x) for x in segs]
        return firsts + [enc(q) for q in obs["quoted"]] + [" ".join([str(len(obs["tokens"]))] + [enc(t) for t in obs["tokens"]]),
                                                            " ".join(["0" if adj else "1"] + pieces + pieces)]

    def classify(self, case, obs):
        plan = "".join(case.get("plan", ["x"])) + "/" + case.get("route", "m")
        if case["k"] in ("args", "conv"): return (case["k"][0], case["ty"], tuple(case["args"]), plan)
        return ("r", case["ty"], case["line"], plan) if case["line"].strip(WS) else None

    def branches(self, case, obs):
        out = ["%s:%s:%s" % (case["k"], case["ty"], obs["exec"][0]), "plan:" + "".join(case.get("plan", ["x"])), "route:" + case.get("route", "m")]
        if any(len(a) > 1 and a[0] in "'\"" and a[-1] == a[0] for a in case.get("args", [])): out.append("arg-wrapped-in-quotes")
        if case["k"] in ("args", "conv"):
            for a, q in zip(case["args"], obs["quoted"]):
                out.append("quote:" + ("bare" if q == a else "dq" if q[0] == '"' and '"' not in a else "sq" if q[0] == "'" else "x22"))
            if any("\\" in a for a in case["args"]): out.append("has-backslash")
        else:
            if ref_split(case["line"])[1]: out.append("raw:adjacent")
        return out

    def shrink_candidates(self, case):
        if case["k"] in ("args", "conv"):
            a = case["args"]
            for i in range(len(a)):
                if len(a) > 1: yield dict(case, args=a[:i] + a[i + 1:])
                for j in range(len(a[i])):
                    yield dict(case, args=a[:i] + [a[i][:j] + a[i][j + 1:]] + a[i + 1:])
        else:
            l = case["line"]
            for j in range(4, len(l)):
                yield dict(case, line=l[:j] + l[j + 1:])

    def neighbours(self, case, rng):
        strs = case["args"] if case["k"] in ("args", "conv") else [case["line"][4:]]
        for s in strs:
            for i in range(len(s) + 1):
                for c in SMALL + ["\xa0", "\n"]:
                    for ty in ("s", "v"):
                        yield {"k": "args", "ty": ty, "args": [s[:i] + c + s[i:]], "plan": ["x", "p", "x"]}
                        yield {"k": "raw", "ty": ty, "line": "t.%s " % ty + s[:i] + c + s[i:], "plan": ["x", "x"]}

    def exhaustive(self, tier):
        for n in range(0, 5):
            for t in itertools.product(SMALL + ["\xa0"], repeat=n):
                for ty in ("s", "v"):
                    yield {"k": "args", "ty": ty, "args": ["".join(t)]}
                    yield {"k": "raw", "ty": ty, "line": "t.%s " % ty + "".join(t)}
