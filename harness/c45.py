"""C45 — command-line arguments reach commands unchanged (mitmproxy/command_lexer.py, command.py, types.py _StrType)."""
import itertools, json, re
from common.check import PropertyCheck, Skip
import mitmproxy.types
from mitmproxy import command, command_lexer, exceptions

WS = " \r\n\t"
UNI = {"BULLET": 0x2022, "SPACE": 0x20, "LATIN SMALL LETTER A": 0x61, "QUOTATION MARK": 0x22}     # = C45Driver.db
BOGUS = {"QQ", "NO SUCH NAME", "x"}
ALPHA = ["a", "b", " ", "\t", "\n", "\r", '"', "'", "\\", "x", "2", "n", "u", "U", "N", "{", "}", "0", "7", "é", "\xa0",
         "\u3000", "\U0001f600", "A", "f", "\x0b", "t", "\x85"]
SMALL = ["a", " ", '"', "'", "\\", "n", "x"]
PIECES = ["\\x41", "\\x4", "\\xzz", "\\u00e9", "\\u00e", "\\ud800", "\\U0001F600", "\\U00110000", "\\U0001F60", "\\N{BULLET}",
          "\\N{QQ}", "\\N{}", "\\N{SPACE", "\\N{QUOTATION MARK}", "\\777", "\\1", "\\18", "\\0", "C:\\new", "\\\\", "\\'", '\\"', "\\a",
          "\\d", "\\ ", "\\x\n1", "\\x22", "\\x2", "~/x", "a b", "{choice}", "\\n\\t", "'\\x\""]


class _Cmds:
    def __init__(self):
        self.got = None

    @command.command("t.s")
    def t_s(self, *args: str) -> None:
        self.got = ("t.s", list(args))

    @command.command("t.v")
    def t_v(self, *args: mitmproxy.types.CmdArgs) -> None:
        self.got = ("t.v", list(args))


def manager():
    """a fresh CommandManager per case: what one case does to it (parse cache, …) cannot leak into another"""
    cm = command.CommandManager(None)
    a = _Cmds()
    cm.collect_commands(a)
    assert set(cm.commands) == {"t.s", "t.v"}
    return cm, a


# values that begin and end with a quote character, nested quotes, values that are themselves quoted strings
WRAPPED = ['"ok"', "'single'", '"', "'", "''", '""', '"a b"', "'a b'", "'a\"b'", '"it\'s"', "\"'x'\"", "'\"x\"'", '"" ""', "'' x ''",
           '"x', "x'", '"ok" ', "'a' 'b'", '"\\"', "'\t'"]
PLANS = [["x"], ["x", "x"], ["x", "x", "x"], ["x", "p", "x"], ["p", "x", "x"], ["x", "o", "x"], ["x", "o", "p", "x", "x"], ["o", "x", "p", "o", "x"]]


def enc(s):
    b = b"".join(ord(c).to_bytes(3, "big") for c in s)
    return b.hex() if b else "-"


def ref_split(line):
    """the statement's reading: arguments are the maximal pieces between unquoted whitespace. Returns (segments, adjacency)
    where adjacency says that a quoted string starts or ends in the middle of a piece."""
    segs, cur, q, adj = [], "", None, False
    for i, c in enumerate(line):
        if q is not None:
            cur += c
            if c == q:
                q = None
                if i + 1 < len(line) and line[i + 1] not in WS: adj = True
        elif c in WS:
            if cur: segs.append(cur)
            cur = ""
        else:
            if c in "'\"":
                q = c
                if cur: adj = True
            cur += c
    if cur: segs.append(cur)
    return segs, adj


def ref_unquote(seg):
    if len(seg) > 1 and seg[0] in "'\"" and seg[-1] == seg[0]: return seg[1:-1]
    return seg


class Check(PropertyCheck):
    prop = "C45"
    design_ref = "§5 C45"
    level_text = ("Lean theorems about the model of quote / unquote / the pyparsing lexer / execute / _StrType.parse, for ALL strings: "
                  "lexer_loses_nothing (tokens concatenate to the line), lexer_merge_splits_at_unquoted_ws (gluing touching tokens "
                  "gives exactly the split at unquoted whitespace), lexer_splits_at_unquoted_ws_partial (+counterexample "
                  "`x foo\"bar baz\"`, F-C45c), arg_unchanged_partial for any number of arguments (verbatim types: not both quote "
                  "characters; str: no backslash) with counterexamples `C:\\new` (F-C45b) and both quotes (F-C45a). "
                  "Model tied to the code through CommandManager.execute on registered test commands (exhaustive small strings + random).")
    level_note = ("PARTIAL: the full statement is false for the code (three recorded findings); proved under the guards named above. "
                  "trusted: Lean kernel; differential tie (execute outcome, quote(), token list); pyparsing/re/codecs.unicode-escape are "
                  "modelled by hand; the Unicode name database of \\N{…} is a parameter (four names in the driver).")
    technique = "Lean 4 proof (induction over strings / argument lists) + differential correspondence through CommandManager.execute"
    rule = ("(a) every string of length <=3 (thorough <=4) over {a, space, \", ', \\, n, x} as one argument of a str-typed and of a "
            "verbatim-typed command, (b) 1–3 random arguments over an alphabet with all whitespace kinds, both quotes, backslashes, "
            "escape-sequence fragments and non-ASCII plus values wrapped in / consisting of quote characters, (c) raw command lines over "
            "the same alphabet (split rule). Every case runs on ONE fresh CommandManager and executes its line 1–3 times, interleaved "
            "with parse_partial calls and another line (plans x/p/o); the oracle and the (stateless) model are applied to every "
            "execution, and all executions must agree. distinct = distinct "
            "(kind, type, strings); non-trivial = at least one argument or a non-blank raw line.")
    budget = {"quick": 10000, "thorough": 300000}
    time_budget = {"quick": 30, "thorough": 600}
    fingerprints = ["mitmproxy.command_lexer:quote", "mitmproxy.command_lexer:unquote", "mitmproxy.command:CommandManager.parse_partial",
                    "mitmproxy.command:CommandManager.execute", "mitmproxy.command:CommandManager.call_strings",
                    "mitmproxy.command:Command.prepare_args", "mitmproxy.command:parsearg", "mitmproxy.types:_StrType.parse",
                    "mitmproxy.types:_StrType._unescape", "mitmproxy.types:_ArgType.parse"]
    trusted_base = ["pyparsing Regex/Word/CharsNotIn/ZeroOrMore, re and codecs 'unicode-escape' as modelled by hand (Model/C45.lean)",
                    "unicodedata name lookup behind \\N{…} (parameter UniDb)"]
    parallel = False

    # ------------------------------------------------------------------ generator
    def _rand(self, rng, lo=0, hi=8):
        r = rng.random()
        if r < 0.12: return rng.pick(WRAPPED)
        if r < 0.22:
            q = rng.pick("'\"")
            return q + self._rand(rng, 0, 4) + q
        out = ""
        for _ in range(rng.randint(lo, hi)):
            out += rng.pick(PIECES) if rng.chance(0.12) else rng.pick(ALPHA)
        return out

    def generate(self, rng, tier):
        for n in range(0, 5 if tier == "thorough" else 4):
            for t in itertools.product(SMALL, repeat=n):
                for ty in ("s", "v"):
                    yield {"k": "args", "ty": ty, "args": ["".join(t)]}
        for p in PIECES:
            for ty in ("s", "v"):
                yield {"k": "args", "ty": ty, "args": [p]}
                yield {"k": "args", "ty": ty, "args": ["'\"" + p]}
        for w in WRAPPED:
            for ty in ("s", "v"):
                for plan in (["x", "x", "x"], ["x", "p", "x"], ["x", "o", "x"]):
                    yield {"k": "args", "ty": ty, "args": [w], "plan": plan}
                yield {"k": "args", "ty": ty, "args": ["a", w, w], "plan": ["x", "x"]}
        if tier == "thorough":
            for t in itertools.product(SMALL, repeat=4):
                yield {"k": "raw", "ty": "v", "line": "t.v " + "".join(t)}
        while True:
            ty = "s" if rng.chance(0.5) else "v"
            r = rng.random()
            plan = rng.pick(PLANS)
            if r < 0.6:
                yield {"k": "args", "ty": ty, "args": [self._rand(rng) for _ in range(rng.randint(1, 3))], "plan": plan}
            else:
                pre = rng.pick(["t.%s ", " t.%s  ", '"t.%s" ', "'t.%s'\t", "t.%s", "t.%s\n"]) % ty
                yield {"k": "raw", "ty": ty, "line": pre + self._rand(rng, 0, 12), "plan": plan}

    # ------------------------------------------------------------------ implementation
    def impl(self, case):
        cm, sink = manager()
        if case["k"] == "args":
            quoted = [command_lexer.quote(a) for a in case["args"]]
            line = "t.%s" % case["ty"] + "".join(" " + q for q in quoted)
        else:
            quoted, line = [], case["line"]
        if case["ty"] == "s":
            for nm in re.findall(r"\\N\{([^}]+)\}", line):
                if nm not in UNI and nm not in BOGUS: raise Skip()
        # the same line is executed several times on ONE manager (history re-run, repeated key binding), interleaved with
        # another line and with parse_partial calls (the console's completion): x = execute, o = other line, p = parse_partial
        execs = []
        for step in case.get("plan", ["x"]):
            if step == "p":
                cm.parse_partial(line)
            elif step == "o":
                cm.execute("t.v other 'line'")
            else:
                execs.append(self._exec(cm, sink, line))
        toks = list(command_lexer.expr.parse_string(line, parse_all=True))
        return {"line": line, "exec": execs[0], "execs": execs, "quoted": quoted, "tokens": toks}

    @staticmethod
    def _exec(cm, sink, line):
        sink.got = None
        try:
            cm.execute(line)
            return ["call", sink.got[0], sink.got[1]]
        except exceptions.CommandError as e:
            m = str(e)
            if m.startswith("Invalid command"): return ["nocmd"]
            if m.startswith("Unknown command"): return ["unknown"]
            return ["badarg"]

    # ------------------------------------------------------------------ the property on the implementation
    def oracle(self, case, obs):
        fails = []
        for i, ex in enumerate(obs["execs"]):
            fails += self._oracle_one(case, obs, ex)
            # every execution of the same line on the same manager must deliver the same arguments
            if ex != obs["execs"][0]:
                fails.append("rerun: execution %d of %r gave %r, the first one %r" % (i + 1, obs["line"], ex, obs["execs"][0]))
        return fails

    def _oracle_one(self, case, obs, ex):
        fails = []
        if case["k"] == "args":
            # "Any string, quoted with the console's quoting rule and placed in a command line, is passed to the executed command unchanged"
            want = case["args"]
            if ex[0] != "call" or ex[2] != want:
                got = ex[2] if ex[0] == "call" else ex[0]
                tags = set()
                if ex[0] == "call" and len(ex[2]) == len(want):
                    for w, g in zip(want, ex[2]):
                        if w != g: tags.add(self._cause(case["ty"], w))
                elif ex[0] == "badarg":
                    tags = {self._cause(case["ty"], w) for w in want} - {"other"} or {"other"}
                    if len(tags) > 1: tags.discard("other")
                else:
                    tags = {"other"}
                tag = tags.pop() if len(tags) == 1 else "other"
                fails.append("arg-changed[%s]: %r arrived as %r (line %r)" % (tag, want, got, obs["line"]))
        else:
            # "a command line's arguments are split exactly at unquoted whitespace"
            segs, adj = ref_split(case["line"])
            if ex[0] == "call":
                n = 1 + len(ex[2])
                if n != len(segs):
                    fails.append("split[%s]: %r gives %d pieces, %d lie between unquoted whitespace" % ("adjacent" if adj else "other", case["line"], n, len(segs)))
                elif case["ty"] == "v" and not adj and ex[2] != [ref_unquote(s) for s in segs[1:]]:
                    fails.append("split[other]: %r arguments %r are not the pieces %r" % (case["line"], ex[2], segs[1:]))
            elif ex[0] == "nocmd":
                if segs: fails.append("split[other]: %r has pieces %r but no command was found" % (case["line"], segs))
            elif ex[0] == "unknown":
                if segs and ref_unquote(segs[0]) in ("t.s", "t.v"):
                    fails.append("split[%s]: %r command name not recognised" % ("adjacent" if adj else "other", case["line"]))
        return fails

    @staticmethod
    def _cause(ty, w):
        if ty == "s" and "\\" in w: return "str-backslash"
        if ty == "v" and '"' in w and "'" in w: return "verbatim-both-quotes"
        return "other"

    def known(self, case, obs, failure):
        if failure.startswith("arg-changed[verbatim-both-quotes]"): return "F-C45a"
        if failure.startswith("arg-changed[str-backslash]"): return "F-C45b"
        if failure.startswith("split[adjacent]"): return "F-C45c"
        return None

    # ------------------------------------------------------------------ model tie
    def model_lines(self, case):
        if case["k"] == "args":
            line = "t.%s" % case["ty"] + "".join(" " + command_lexer.quote(a) for a in case["args"])
            extra = ["quote %s" % enc(a) for a in case["args"]]
        else:
            line, extra = case["line"], []
        n = sum(1 for st in case.get("plan", ["x"]) if st == "x")
        return ["exec %s" % enc(line)] * n + extra + ["lex %s" % enc(line)]

    def model_obs(self, case, replies):
        return replies

    def impl_view(self, case, obs):
        firsts = []
        for ex in obs["execs"]:
            if ex[0] == "call": firsts.append(" ".join(["call", enc(ex[1]), str(len(ex[2]))] + [enc(a) for a in ex[2]]))
            else: firsts.append(ex[0])
        return firsts + [enc(q) for q in obs["quoted"]] + [" ".join([str(len(obs["tokens"]))] + [enc(t) for t in obs["tokens"]])]

    def classify(self, case, obs):
        plan = "".join(case.get("plan", ["x"]))
        if case["k"] == "args": return ("a", case["ty"], tuple(case["args"]), plan)
        return ("r", case["ty"], case["line"], plan) if case["line"].strip(WS) else None

    def branches(self, case, obs):
        out = ["%s:%s:%s" % (case["k"], case["ty"], obs["exec"][0]), "plan:" + "".join(case.get("plan", ["x"]))]
        if any(len(a) > 1 and a[0] in "'\"" and a[-1] == a[0] for a in case.get("args", [])): out.append("arg-wrapped-in-quotes")
        if case["k"] == "args":
            for a, q in zip(case["args"], obs["quoted"]):
                out.append("quote:" + ("bare" if q == a else "dq" if q[0] == '"' and '"' not in a else "sq" if q[0] == "'" else "x22"))
            if any("\\" in a for a in case["args"]): out.append("has-backslash")
        else:
            if ref_split(case["line"])[1]: out.append("raw:adjacent")
        return out

    def shrink_candidates(self, case):
        if case["k"] == "args":
            a = case["args"]
            for i in range(len(a)):
                if len(a) > 1: yield dict(case, args=a[:i] + a[i + 1:])
                for j in range(len(a[i])):
                    yield dict(case, args=a[:i] + [a[i][:j] + a[i][j + 1:]] + a[i + 1:])
        else:
            l = case["line"]
            for j in range(4, len(l)):
                yield dict(case, line=l[:j] + l[j + 1:])

    def neighbours(self, case, rng):
        strs = case["args"] if case["k"] == "args" else [case["line"][4:]]
        for s in strs:
            for i in range(len(s) + 1):
                for c in SMALL + ["\xa0", "\n"]:
                    for ty in ("s", "v"):
                        yield {"k": "args", "ty": ty, "args": [s[:i] + c + s[i:]], "plan": ["x", "p", "x"]}
                        yield {"k": "raw", "ty": ty, "line": "t.%s " % ty + s[:i] + c + s[i:], "plan": ["x", "x"]}

    def exhaustive(self, tier):
        for n in range(0, 5):
            for t in itertools.product(SMALL + ["\xa0"], repeat=n):
                for ty in ("s", "v"):
                    yield {"k": "args", "ty": ty, "args": ["".join(t)]}
                    yield {"k": "raw", "ty": ty, "line": "t.%s " % ty + "".join(t)}
