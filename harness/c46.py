"""C46 — mitmweb requires authentication and blocks cross-site state changes
(mitmproxy/tools/web/app.py, mitmproxy/tools/web/webaddons.py).

Translator: the route table of the *live* tornado Application (every rule of the wildcard router: pattern, handler class,
methods implemented, which of them are wrapped by `_require_auth`, websocket?, is `RequestHandler.prepare` — the
Sec-Fetch-Site check — the prepare in effect?, pre-method hooks the class overrides) -> lean/MitmVerif/Gen/C46.lean.
The Lean theorems are `decide`d over that table on every run.

Correspondence + oracle: every route x every HTTP method x credentials {none, wrong, malformed, valid} in {header, query,
cookie} x Sec-Fetch-Site x XSRF state, sent to the real Application in-process (real router, `_execute`, XSRF, cookie
signing, `_require_auth`, handler bodies), no sockets.  The un-wrapped handler methods are traced through the wrapper's
closure cell, so "the handler ran" is observed, not inferred.

Oracle (statement):
  * "refuse requests that carry neither a valid password/token nor a valid session cookie (status 403), without changing
    any state or disclosing flow data, for every route and method": no-credential request => handler body not entered,
    view/flows/options/events/websocket-connection state identical to the snapshot, no flow/event/option marker in the body,
    status 403 — except 405 where the route does not implement the method (tornado answers before the wrapper is reached;
    still a refusal), 400 for a `token` argument that is not UTF-8, and the status of the cross-site refusal;
  * "State-changing requests are refused unless they carry a valid XSRF token": a request that changed state had a matching
    XSRF token; a request without one whose method is not GET/HEAD/OPTIONS never enters a handler; GET/HEAD/OPTIONS never
    change state;
  * "... and are refused when the browser marks them as cross-site": non-safe method + Sec-Fetch-Site not in
    {same-origin, none} => handler not entered, state unchanged.
Sequences: a case may be a list of steps (set web_password to token/plaintext/argon2 hash | request) run against the one
live Application; a password is a valid credential iff it matches the configuration in force when the request arrives.
Static files: `/static/(.*)`, `/(favicon\\.ico)`, `/(robots\\.txt)` are tornado StaticFileHandler rules added by
`static_path`; they serve bundled assets without authentication by design.  The statement's "every endpoint" is read as
"every row of `app.handlers` + the WebSocket"; for the static rows the check demands only: no state change, no marker in
the body, and (theorem non_app_routes_are_static) that no other un-authenticated rule exists.
"""
import json, re

from common.check import PropertyCheck, Skip, hx

METHODS = ["GET", "HEAD", "POST", "DELETE", "PATCH", "PUT", "OPTIONS"]
ALLM = METHODS + ["FOO"]
SFS = [None, "same-origin", "none", "same-site", "cross-site", "bogus"]
XSRF = ["none", "cookie-only", "header-only", "mismatch", "ok-header", "ok-arg"]
CREDS = ["none",
         "h-wrong", "h-basic", "h-lower", "h-empty", "h-2sp", "h-valid",
         "q-wrong", "q-undecodable", "q-empty", "q-valid",
         "c-wrongvalue", "c-badsig", "c-garbage", "c-othername", "c-valid",
         "h-wrong+q-valid", "c-badsig+h-valid", "h-empty+q-valid"]
MARK = "c46-secret"
# named passwords of the sequence cases.  Variants: NAME+e (one non-ASCII character appended), NAME-1 (last character dropped),
# NAME~a (what .encode("ascii","ignore") would leave of it); tokK = the K-th generated token (symbolic in the model lines)
PW = {"A": "pw-A", "B": "pw-B", "N": "пароль", "M": "pässwörd", "U": "日本語パスワード", "W": "   ", "L": "x" * 3000, "S": "pw with space"}
PLAIN_CFGS = ["A", "B", "N", "M", "U", "W", "L", "S"]


def pw_text(name, tok=lambda k: k):
    """text of a named password; `tok` maps a token name (tokK) to its text"""
    base, var = name, ""
    for v in ("+e", "-1", "~a"):
        if name.endswith(v): base, var = name[:-2], v
    t = PW[base] if base in PW else tok(base)
    if var == "+e": return t + "é"
    if var == "-1": return t[:-1]
    if var == "~a": return t.encode("ascii", "ignore").decode()
    return t


def as_header(text):
    """how a UTF-8 encoded header value reaches tornado's handler: decoded as latin-1"""
    return text.encode("utf-8").decode("latin-1")


def header_ok(text):
    """can the text travel as `Authorization: Bearer <text>` at all (no leading/trailing whitespace, no control characters)?"""
    return text == text.strip() and text != "" and not any(ord(c) < 32 or ord(c) == 127 for c in text)
HOOKS = ["initialize", "prepare", "set_default_headers", "get_current_user", "check_xsrf_cookie", "data_received",
         "on_connection_close", "_execute", "xsrf_token", "get_login_url", "compute_etag", "check_etag_header"]
GROUPS = {"flow_id": "c46f1", "message": "request", "content_view": "auto", "cmd": "c.nonexistent"}


def sample_path(pattern):
    p = pattern[:-1] if pattern.endswith("$") else pattern
    p = re.sub(r"\(\?P<(\w+)>[^)]*\)", lambda m: GROUPS.get(m.group(1), "x"), p)
    p = re.sub(r"\(\?:[^)]*\)\?", "", p)
    if p == "/static/(.*)": p = "/static/app.css"
    p = re.sub(r"\((favicon\\\.ico|robots\\\.txt)\)", lambda m: m.group(1), p)
    p = p.replace("\\.", ".")
    return p if re.fullmatch(pattern[:-1] if pattern.endswith("$") else pattern, p) else None


class Check(PropertyCheck):
    prop = "C46"
    design_ref = "§5 C46"
    level_text = ("Lean theorems: (a) decide +kernel over the route table regenerated from the live Application: all_methods_wrapped, "
                  "websocket_requires_auth, no_pre_auth_hooks, non_app_routes_are_static; (b) the abstract request model (tornado "
                  "_execute order + _require_auth): no_credential_403_and_handler_not_run, no_credential_is_403, "
                  "state_changing_requires_xsrf, cross_site_refused; (c) the credential checks as code - WebAuth.configure / "
                  "is_valid_password (token, plaintext, argon2 branches), the wrapper's Authorization/token extraction on the raw "
                  "header text - over histories of password changes and requests: handler_needs_credential (any world, any header "
                  "text, any argon2 answer), issued_cookie_provenance (induction over the history: every session cookie was issued to "
                  "a request carrying the then-valid password), hist_no_credential_no_handler, rotation_revokes_old_password, "
                  "serveC_eq_serve (the raw model refines the abstract one), plain_password_exact / configure_plain_nonempty / "
                  "empty_password_refused; (d) 'without changing any state or disclosing flow data' with the handler bodies as "
                  "arbitrary functions: no_credential_no_state_change_no_body (one request) and hist_uncredentialed_is_inert "
                  "(induction over histories with password rotations: state untouched, only refusals, no session created); "
                  "cross_site_refused_raw (Sec-Fetch-Site classified from the raw header text, case-sensitively). Both models are tied to the real Application by the "
                  "in-process sweep (routes x methods x credential forms x Sec-Fetch-Site x XSRF) and by rotation sequences, including text-vs-bytes boundary "
                  "sequences (every configuration kind x credential = configured / +1 non-ASCII char / -1 char / ASCII residue / none).")
    level_note = ("argon2 (verify / extract_parameters) is a parameter of the model (answers supplied per request); tornado's XSRF "
                  "comparison, URL routing and signed-cookie verification are abstracted (xsrfOk, the route row, 'a presented cookie "
                  "verifies iff this Application issued it') and exercised for real in the sweep. A session cookie issued before a "
                  "password rotation stays valid in the code and in the model (it is signed with the Application's cookie_secret); "
                  "the statement's 'valid session cookie' does not demand revocation, so the oracle neither demands nor forbids it. "
                  "The state / disclosure theorems (no_credential_no_state_change_no_body, hist_uncredentialed_is_inert) hold BY THE "
                  "SHAPE of stepApp - the arbitrary handler is called only when handlerRan, every refusal is the constant "
                  "Resp.refusal - so they reduce to 'the handler is not run'; that tornado's own refusal paths (login form, XSRF "
                  "cookie, error page, prepare) touch no application state and print no flow data is carried by the sweep's "
                  "state-snapshot and marker clauses only. Status 403 is proved exactly only under the side conditions of "
                  "no_credential_is_403; elsewhere the refusal is 405 / 403-xsrf / cross-site (500 in the code) / 400. "
                  "Static asset rules are outside the authenticated table by design (see module docstring). The cross-site refusal "
                  "raises tornado.httpclient.HTTPError, which tornado turns into status 500, not 403 - a refusal, outcome "
                  "`cross-site`. 'GET/HEAD/OPTIONS handlers do not change state' is checked by the sweep only. Passwords and tokens are "
                  "byte strings (UTF-8) in the model, as in the code since fix dfe06f3f1; the sweep covers non-ASCII, mixed, whitespace-"
                  "only, very long and one-character-off credentials over the token parameter and the Bearer header. LENIENT BRANCHES "
                  "of the oracle (status of a refusal other than 403, all with 'handler not run, no state change, no flow data' still "
                  "demanded): 405 where the route does not implement the method, 400 for a token argument that is not UTF-8, 500 for "
                  "the cross-site refusal; static asset rows: only no-state-change/no-flow-data; the WebSocket GET may add and remove "
                  "its own connection entry; a cookie issued before a password rotation: neither demanded nor forbidden.")
    technique = "Lean 4 proof (decide +kernel over generated route table + case analysis) + exhaustive in-process request sweep"
    rule = ("core: every route x 8 methods x {no credential, valid bearer} x {Sec-Fetch-Site absent, cross-site} x {no XSRF, "
            "matching XSRF}; then (quick: random sample, thorough: full product) of route x method x 19 credential forms x 6 "
            "Sec-Fetch-Site values x 6 XSRF states (+ websocket upgrade on/off); plus SEQUENCES on the one live Application/"
            "WebAuth: web_password switched between generated token / plaintext / argon2 hash (every ordered pair of 5 "
            "configurations, and random 2-4 request sequences) with requests carrying the old password, the new one, none, or the "
            "cookie obtained before the change - each request judged by the configuration in force at that time. distinct = "
            "distinct tuple / sequence; non-trivial = all.")
    budget = {"quick": 8000, "thorough": 400000}
    time_budget = {"quick": 25, "thorough": 700}
    fingerprints = ["mitmproxy.tools.web.app:AuthRequestHandler.__init_subclass__", "mitmproxy.tools.web.app:AuthRequestHandler._require_auth",
                    "mitmproxy.tools.web.app:AuthRequestHandler.get_current_user", "mitmproxy.tools.web.app:RequestHandler.prepare",
                    "mitmproxy.tools.web.app:WebSocketEventBroadcaster.prepare", "mitmproxy.tools.web.app:Application.__init__",
                    "mitmproxy.tools.web.webaddons:WebAuth.is_valid_password", "mitmproxy.tools.web.webaddons:WebAuth.auth_cookie_name",
                    "tornado.web:RequestHandler._execute", "tornado.web:RequestHandler.check_xsrf_cookie"]
    trusted_base = ["tornado (routing, _execute, XSRF token comparison, signed cookies, StaticFileHandler path confinement), driven for real",
                    "argon2 / hmac.compare_digest inside WebAuth.is_valid_password"]
    parallel = False
    _web = None

    # ------------------------------------------------------------------ translator
    def _table(self):
        w = self.web()
        app = w.appmod
        import tornado.web, tornado.websocket
        rows = []
        app_classes = {h for _, h in app.handlers}
        bases = {app.RequestHandler, app.AuthRequestHandler, app.WebSocketEventBroadcaster}
        for rule in w.app.wildcard_router.rules:
            cls = rule.target
            pat = rule.matcher.regex.pattern
            unimpl = tornado.web.RequestHandler._unimplemented_method
            methods, wrapped = [], []
            for m in METHODS:
                fn = getattr(cls, m.lower(), unimpl)
                if fn is unimpl: continue
                methods.append(m)
                if getattr(getattr(fn, "__code__", None), "co_qualname", "") == "AuthRequestHandler._require_auth.<locals>.wrapper" \
                        and issubclass(cls, app.AuthRequestHandler):
                    wrapped.append(m)
            hooks = []
            for c in cls.__mro__:
                if c in bases or c.__module__.startswith("tornado") or c is object: break
                hooks += [h for h in HOOKS if h in c.__dict__]
            is_app = cls in app_classes and cls.__module__ == app.__name__
            sfs = issubclass(cls, app.RequestHandler) and cls.prepare is app.RequestHandler.prepare
            rows.append({"pattern": pat, "handler": f"{cls.__module__}.{cls.__qualname__}" if not is_app else cls.__qualname__,
                         "methods": methods, "wrapped": wrapped, "ws": issubclass(cls, tornado.websocket.WebSocketHandler),
                         "sfs": bool(sfs), "app": bool(is_app), "hooks": sorted(set(hooks)), "cls": cls})
        # every app.handlers row must be in the router (nothing silently dropped)
        pats = {r["pattern"] for r in rows}
        for p, h in app.handlers:
            assert (p + "$") in pats or p in pats, p
        return rows

    def translate(self):
        rows = self._table()
        q = lambda s: '"' + s.replace("\\", "\\\\").replace('"', '\\"') + '"'
        ms = lambda l: "[" + ", ".join("." + m for m in l) + "]"
        out = ["-- generated by harness/c46.py (Check.translate) from the live mitmproxy.tools.web.app.Application; do not edit",
               "import MitmVerif.Model.C46", "namespace MitmVerif.Gen.C46", "open MitmVerif.C46", "",
               "def webRoutes : List Route := ["]
        body = []
        for r in rows:
            body.append(f"  ⟨{q(r['pattern'])}, {q(r['handler'])}, {ms(r['methods'])}, {ms(r['wrapped'])}, "
                        f"{str(r['ws']).lower()}, {str(r['sfs']).lower()}, {str(r['app']).lower()}, "
                        f"[{', '.join(q(h) for h in r['hooks'])}]⟩")
        out.append(",\n".join(body)); out.append("]"); out.append(""); out.append("end MitmVerif.Gen.C46"); out.append("")
        return {"MitmVerif/Gen/C46.lean": "\n".join(out)}

    # ------------------------------------------------------------------ the world
    def web(self):
        if Check._web is None:
            from c46_web import Web
            w = Check._web = Web()
            self._instrument(w)
            self._reset(w)
            w.base = self._snap(w)
        return Check._web

    def _instrument(self, w):
        """trace entry into the un-wrapped handler methods by swapping the wrapper's closure cell (the wrapper itself,
        `_require_auth`, stays the real one)"""
        w.ran = []
        seen = set()
        for rule in w.app.wildcard_router.rules:
            cls = rule.target
            for m in METHODS:
                fn = cls.__dict__.get(m.lower()) or getattr(cls, m.lower(), None)
                depth = 0
                if fn is not None and cls.__module__ == w.appmod.__name__ and m.lower() in cls.__dict__ and \
                        getattr(getattr(fn, "__code__", None), "co_qualname", "") != "AuthRequestHandler._require_auth.<locals>.wrapper" \
                        and not getattr(fn, "_c46_traced", False):
                    # an app handler method that is NOT wrapped (should not exist): trace it directly
                    def traced_plain(self_, *a, __inner=fn, __name=f"{cls.__name__}.{m}", **k):
                        w.ran.append(__name)
                        return __inner(self_, *a, **k)
                    traced_plain._c46_traced = True
                    setattr(cls, m.lower(), traced_plain)
                    continue
                while fn is not None and getattr(getattr(fn, "__code__", None), "co_qualname", "") == "AuthRequestHandler._require_auth.<locals>.wrapper":
                    cell = fn.__closure__[0]
                    inner = cell.cell_contents
                    if getattr(getattr(inner, "__code__", None), "co_qualname", "") == "AuthRequestHandler._require_auth.<locals>.wrapper":
                        fn = inner; depth += 1; continue
                    if id(cell) not in seen and not getattr(inner, "_c46_traced", False):
                        seen.add(id(cell))
                        def traced(self_, *a, __inner=inner, __name=f"{cls.__name__}.{m}", **k):
                            w.ran.append(__name)
                            return __inner(self_, *a, **k)
                        traced._c46_traced = True
                        cell.cell_contents = traced
                    break
        # static handler: trace get() by subclass-free patching of the bound attribute on the *instance* is not possible;
        # StaticFileHandler is tornado's, its "handler ran" bit is not part of the property (see docstring)

    def _reset(self, w):
        from mitmproxy.test import tflow
        from mitmproxy import log
        m = w.master
        m.view.clear()
        fs = []
        for i, kw in enumerate([dict(resp=True), dict(resp=True, ws=True), dict(err=True)]):
            f = tflow.tflow(**kw)
            f.id = "c46f%d" % (i + 1)
            f.timestamp_created = 946681200.0
            f.client_conn.id = "c46c%d" % i; f.server_conn.id = "c46s%d" % i
            f.request.path = "/" + MARK + "-path"
            f.request.headers["x-" + MARK] = MARK + "-header"
            if f.request.raw_content is not None: f.request.content = (MARK + "-body").encode()
            if f.response: f.response.content = (MARK + "-response").encode()
            f.comment = MARK + "-comment"
            fs.append(f)
        fs[0].intercept()
        m.view.add(fs)
        m.events.data.clear()
        m.events.data.append(log.LogEntry(MARK + "-log", "info"))
        m.options.update(stickycookie=MARK + "-option", anticache=False)
        w.appmod.ClientConnection.connections.clear()

    def _snap(self, w):
        m = w.master
        flows = []
        for f in m.view:
            st = f.get_state()
            flows.append((f.id, repr(sorted((k, repr(v)) for k, v in st.items())), f.intercepted, f.live))
        opts = repr(sorted((k, repr(o.current())) for k, o in m.options._options.items() if k != "web_password"))
        ev = [(e.msg, e.level) for e in m.events.data]
        return (tuple(flows), opts, tuple(ev), len(w.appmod.ClientConnection.connections))

    # ------------------------------------------------------------------ generation
    def _routes(self):
        if not hasattr(self, "_rt"):
            self._rt = self._table()
            for r in self._rt:
                r["sample"] = sample_path(r["pattern"])
        return self._rt

    def generate(self, rng, tier):
        routes = self._routes()
        n = len(routes)
        for i in range(n):
            for m in ALLM:
                for cred in ("none", "h-valid"):
                    for sfs in (None, "cross-site"):
                        for x in ("none", "ok-header"):
                            yield {"route": i, "method": m, "cred": cred, "sfs": sfs, "xsrf": x, "ws": 1}
        for i in range(n):          # every credential form on every implemented method, gates open
            for m in routes[i]["methods"]:
                for cred in CREDS:
                    yield {"route": i, "method": m, "cred": cred, "sfs": "same-origin", "xsrf": "ok-header", "ws": 1}
        if tier == "thorough":
            for i in range(n):
                for m in ALLM:
                    for cred in CREDS:
                        for sfs in SFS:
                            for x in XSRF:
                                yield {"route": i, "method": m, "cred": cred, "sfs": sfs, "xsrf": x, "ws": 1}
        for c in self._seq_core(): yield c
        for c in self._seq_boundary(): yield c
        while True:
            if rng.chance(0.15):
                yield self._gen_seq(rng)
            else:
                yield {"route": rng.randrange(n), "method": rng.pick(ALLM), "cred": rng.pick(CREDS), "sfs": rng.pick(SFS),
                       "xsrf": rng.pick(XSRF), "ws": int(rng.chance(0.7))}

    CFGS = [["tok", None], ["plain", "A"], ["plain", "B"], ["arg", "A"], ["arg", "B"]]
    ALL_CFGS = CFGS + [["plain", x] for x in PLAIN_CFGS if x not in ("A", "B")] + [["arg", "N"], ["arg", "M"]]

    def _seq_boundary(self):
        """text-vs-bytes boundaries of the password comparison: every configuration (token, plaintext ASCII / non-ASCII /
        mixed / whitespace-only / very long, argon2 of ASCII and non-ASCII) x presented credential = none, the configured one,
        configured + one non-ASCII character, configured minus its last character, its ASCII-only residue - over the token
        parameter and (where the text can travel in a header) the Bearer header, on a read, a state-changing and the
        WebSocket route"""
        for cfg in self.ALL_CFGS:
            base = "tok1" if cfg[0] == "tok" else cfg[1]
            for var in ("", "+e", "-1", "~a"):
                nm = base + var
                for chan in ("qt:", "hb:"):
                    if chan == "hb:" and not header_ok(pw_text(nm)): continue
                    yield {"kind": "seq", "steps": [{"op": "set", "cfg": cfg}, self._rq("Flows", "GET", "none"),
                                                    self._rq("Flows", "GET", chan + nm), self._rq("ClearAll", "POST", chan + nm),
                                                    self._rq("ClientConnection", "GET", chan + nm)]}

    def _idx(self, name):
        for i, r in enumerate(self._routes()):
            if r["handler"] == name: return i
        raise Skip()

    def _rq(self, handler, method, cred, xsrf="ok-header", sfs="same-origin"):
        return {"op": "req", "route": self._idx(handler), "method": method, "cred": cred, "sfs": sfs, "xsrf": xsrf, "ws": 1}

    def _seq_core(self):
        """password rotations, every ordered pair of configurations: log in under the first, then under the second present
        the old password, the new one, none, and the cookie obtained before the rotation"""
        for c1 in self.CFGS:
            for c2 in self.CFGS:
                for salt in ((0, 1) if (c1 == c2 and c1[0] == "arg") else (0,)):
                    p1 = "tok1" if c1[0] == "tok" else c1[1]
                    p2 = ("tok2" if c1[0] == "tok" else "tok1") if c2[0] == "tok" else c2[1]
                    for chan in ("hb:", "qt:"):
                        yield {"kind": "seq", "steps": [
                            {"op": "set", "cfg": c1}, self._rq("Flows", "GET", chan + p1),
                            {"op": "set", "cfg": c2, "salt": salt},
                            self._rq("Flows", "GET", chan + p1), self._rq("ClearAll", "POST", chan + p1),
                            self._rq("Flows", "GET", chan + p2), self._rq("Flows", "GET", "ck:1"), self._rq("Flows", "GET", "none")]}

    def _gen_seq(self, rng):
        steps, nreq, ntok = [], 0, 0
        names = list(PW) + ["tok0"]
        target = rng.randint(2, 4)
        while nreq < target:
            if rng.chance(0.45) or not steps:
                cfg = rng.pick(self.ALL_CFGS)
                if cfg[0] == "tok": ntok += 1; names.append("tok%d" % ntok)
                steps.append({"op": "set", "cfg": cfg, "salt": rng.randint(0, 1)})
            else:
                prior = [i for i, st in enumerate(steps) if st["op"] == "req"]
                nm = rng.pick(names)
                if rng.chance(0.4): nm += rng.pick(["+e", "-1", "~a"])
                chan_ = "hb:" if (rng.chance(0.5) and header_ok(pw_text(nm))) else "qt:"
                cred = rng.weighted([(5, chan_ + nm), (1, "none"),
                                     (2, ("ck:%d" % rng.pick(prior)) if prior else "none"),
                                     (1, "hb:" + rng.pick([n for n in names if header_ok(pw_text(n))]) + "&qt:" + rng.pick(names))])
                h, m = rng.pick([("Flows", "GET"), ("ClearAll", "POST"), ("IndexHandler", "GET"), ("ClientConnection", "GET"),
                                 ("Options", "PUT"), ("FlowHandler", "DELETE"), ("Events", "GET")])
                steps.append(self._rq(h, m, cred, xsrf=rng.pick(["ok-header", "ok-header", "none"]),
                                      sfs=rng.pick(["same-origin", None, "cross-site"])))
                nreq += 1
        return {"kind": "seq", "steps": steps}

    # ------------------------------------------------------------------ implementation
    def _abstract(self, case):
        """(cookieValid, bearer, token) as the wrapper must see this credential form — from the form's definition"""
        cookie, bearer, token = 0, "absent", "absent"
        for part in case["cred"].split("+"):
            if part == "none": pass
            elif part in ("h-wrong", "h-2sp"): bearer = "invalid"
            elif part in ("h-basic", "h-lower", "h-empty"): pass
            elif part == "h-valid": bearer = "valid"
            elif part == "q-wrong": token = "invalid"
            elif part == "q-undecodable": token = "undecodable"
            elif part == "q-empty": pass
            elif part == "q-valid": token = "valid"
            elif part == "c-valid": cookie = 1
            elif part.startswith("c-"): pass
            else: raise Skip()
        return cookie, bearer, token

    def _request(self, w, case, resolve=None):
        """`resolve`: for sequence steps — {"pw": name -> password text, "ck": step -> cookie text or None}"""
        r = self._routes()[case["route"]]
        if r["sample"] is None: raise Skip()
        pw = w.password
        headers = [("Host", "127.0.0.1:8081")]
        query = []
        cookies = []
        name = w.auth_cookie_name()
        for part in self._parts(case["cred"]):
            if part == "h-wrong": headers.append(("Authorization", "Bearer " + pw[:-1] + ("0" if pw[-1] != "0" else "1")))
            elif part == "h-basic": headers.append(("Authorization", "Basic " + pw))
            elif part == "h-lower": headers.append(("Authorization", "bearer " + pw))
            elif part == "h-empty": headers.append(("Authorization", "Bearer"))
            elif part == "h-2sp": headers.append(("Authorization", "Bearer  " + pw))
            elif part == "h-valid": headers.append(("Authorization", "Bearer " + pw))
            elif part == "q-wrong": query.append("token=" + pw.upper() + "x")
            elif part == "q-undecodable": query.append("token=%ff%fe")
            elif part == "q-empty": query.append("token=")
            elif part == "q-valid": query.append("token=" + pw)
            elif part == "c-wrongvalue": cookies.append(name + "=" + w.signed_cookie(name, "n"))
            elif part == "c-badsig":
                v = w.signed_cookie(name, "y"); cookies.append(name + "=" + v[:-1] + ("0" if v[-1] != "0" else "1"))
            elif part == "c-garbage": cookies.append(name + "=y")
            elif part == "c-othername": cookies.append(name + "=" + w.signed_cookie("other", "y"))
            elif part == "c-valid": cookies.append(name + "=" + w.signed_cookie(name, "y"))
            elif part.startswith("hb:"): headers.append(("Authorization", "Bearer " + as_header(resolve["pw"](part[3:]))))
            elif part.startswith("qt:"):
                import urllib.parse
                query.append("token=" + urllib.parse.quote(resolve["pw"](part[3:]), safe=""))
            elif part.startswith("ck:"):
                ck = resolve["ck"].get(int(part[3:]))
                if ck: cookies.append(ck)
        x = case["xsrf"]
        if x in ("cookie-only", "mismatch", "ok-header", "ok-arg"): cookies.append("_mitmproxy_xsrf=tok123")
        if x == "header-only": headers.append(("X-XSRFToken", "tok123"))
        elif x == "mismatch": headers.append(("X-XSRFToken", "tok999"))
        elif x == "ok-header": headers.append(("X-XSRFToken", "tok123"))
        elif x == "ok-arg": query.append("_xsrf=tok123")
        if cookies: headers.append(("Cookie", "; ".join(cookies)))
        if case["sfs"] is not None: headers.append(("Sec-Fetch-Site", case["sfs"]))
        if r["ws"] and case["ws"]:
            headers += [("Upgrade", "websocket"), ("Connection", "Upgrade"), ("Sec-WebSocket-Key", "dGhlIHNhbXBsZSBub25jZQ=="),
                        ("Sec-WebSocket-Version", "13")]
        body = b""
        if case["method"] in ("POST", "PUT", "PATCH", "DELETE", "FOO"):
            headers.append(("Content-Type", "application/json")); body = b"{}"
        uri = r["sample"] + ("?" + "&".join(query) if query else "")
        return case["method"], uri, headers, body

    def _one(self, w, case, resolve=None):
        method, uri, headers, body = self._request(w, case, resolve)
        del w.ran[:]
        conn, cls, handler = w.call(method, uri, headers, body)
        after = self._snap(w)
        changed = after != w.base
        status = conn.status
        rbody = conn.body
        name = w.auth_cookie_name() + "="
        setc = [v for k, v in (conn.headers.get_all() if conn.headers else []) if k.lower() == "set-cookie" and v.startswith(name)]
        kind = "empty" if not rbody else ("tornado-error" if rbody.startswith(b"<html><title>") else "other")
        obs = {"status": status, "body_kind": kind, "ran": list(w.ran), "changed": changed, "leak": MARK.encode() in rbody,
               "setcookie": bool(setc), "handler": cls.__name__}
        if changed:
            self._reset(w)
            w.base = self._snap(w)
        return obs, (setc[0].split(";")[0] if setc else None)

    def impl(self, case):
        w = self.web()
        if case.get("kind") != "seq":
            return self._one(w, case)[0]
        # ---- a sequence of option changes and requests against the one live Application / WebAuth
        auth = w.master.addons.get("webauth")
        toks = {"tok0": auth._password}
        pw = lambda name: pw_text(name, lambda k: toks[k])
        ntok = 0
        cookies, out = {}, []
        try:
            for i, st in enumerate(case["steps"]):
                if st["op"] == "set":
                    kind, x = st["cfg"]
                    if kind == "tok":
                        w.master.options.update(web_password=self._hash("B", 9))     # make sure the option really changes
                        w.master.options.update(web_password="")
                        ntok += 1; toks["tok%d" % ntok] = auth._password
                    elif kind == "plain": w.master.options.update(web_password=pw(x))
                    else: w.master.options.update(web_password=self._hash(x, st.get("salt", 0)))
                    w.pump(); w.pump()                  # the plaintext-password warning reaches the event store via the loop
                    w.base = self._snap(w)              # option changes by the operator are not the request's doing
                    continue
                o, ck = self._one(w, st, {"pw": pw, "ck": cookies})
                cookies[i] = ck
                out.append(o)
        finally:
            w.master.options.update(web_password=self._hash("B", 9))
            w.master.options.update(web_password="")
            w.password = auth._password
            w.pump(); w.pump()
            self._reset(w); w.base = self._snap(w)
        return {"seq": out}

    _hashes = {}

    def _hash(self, x, salt):
        """argon2 hash of password X with minimal cost parameters (verification takes ~0.1 ms); `salt` distinguishes
        several hashes of the same password"""
        import argon2
        key = (x, salt)
        if key not in Check._hashes:
            Check._hashes[key] = argon2.PasswordHasher(time_cost=1, memory_cost=8, parallelism=1).hash(PW[x])
        return Check._hashes[key]

    @staticmethod
    def _parts(cred):
        """credential parts of a step: single-request cases join with '+', sequence steps with '&' (names may end in +e)"""
        return cred.split("&") if ("&" in cred or ":" in cred) else cred.split("+")

    def _seq_truth(self, case):
        """per request step: (cookieValid, bearer, token) by the configuration IN FORCE AT THAT TIME, from the case alone.
        A password is valid iff it is the configured one (plain / argon2 of that text / the token generated by the most
        recent 'tok' setting).  A cookie taken from step k is a valid session cookie iff the specification says step k
        issued one (gates open, method implemented, no cookie presented, valid password): session cookies are signed by
        the Application's cookie_secret and the statement does not demand that a password change revokes them, so a
        cookie issued before a rotation stays 'a valid session cookie' (neither demanded nor forbidden by the oracle;
        the model tie pins the code's behaviour: it keeps working)."""
        routes = self._routes()
        cfg = ("tok", 0); ntok = 0
        issued, res = {}, []
        for i, st in enumerate(case["steps"]):
            if st["op"] == "set":
                kind, x = st["cfg"]
                if kind == "tok": ntok += 1; cfg = ("tok", ntok)
                else: cfg = (kind, x)
                continue
            cfgtext = pw_text("tok%d" % cfg[1]) if cfg[0] == "tok" else PW[cfg[1]]      # token texts are symbolic ("tok3")
            cookie, bearer, token = 0, "absent", "absent"
            for part in self._parts(st["cred"]):
                if part.startswith("hb:"):
                    t = as_header(pw_text(part[3:]))                 # what the wrapper receives
                    bearer = "absent" if t == "" else ("valid" if t == cfgtext else "invalid")
                elif part.startswith("qt:"):
                    t = pw_text(part[3:]).strip()                    # get_argument strips
                    token = "absent" if t == "" else ("valid" if t == cfgtext else "invalid")
                elif part.startswith("ck:"): cookie = int(bool(issued.get(int(part[3:]))))
            r = routes[st["route"]]
            safe = st["method"] in ("GET", "HEAD", "OPTIONS")
            gates = st["method"] in r["methods"] and (safe or (st["xsrf"] in ("ok-header", "ok-arg") and st["sfs"] in (None, "same-origin", "none")))
            pw_ok = bearer == "valid" or (bearer == "absent" and token == "valid")
            issued[i] = gates and not cookie and pw_ok and st["method"] in r["wrapped"]
            res.append((cookie, bearer, token))
        return res

    # ------------------------------------------------------------------ oracle
    def oracle(self, case, obs):
        if case.get("kind") == "seq":
            fails = []
            reqs = [st for st in case["steps"] if st["op"] == "req"]
            for k, (st, o, tr) in enumerate(zip(reqs, obs["seq"], self._seq_truth(case))):
                fails += [f"{x} [request #{k + 1} of the sequence]" for x in self._oracle_one(st, o, tr)]
            return fails
        return self._oracle_one(case, obs, self._abstract(case))

    def _oracle_one(self, case, obs, triple):
        fails = []
        r = self._routes()[case["route"]]
        cookie, bearer, token = triple
        nocred = not cookie and bearer != "valid" and token != "valid"
        safe = case["method"] in ("GET", "HEAD", "OPTIONS")
        xsrf_ok = case["xsrf"] in ("ok-header", "ok-arg")
        cross = case["sfs"] not in (None, "same-origin", "none")
        tag = f"{case['method']} {r['pattern']}"
        if not r["app"]:
            # tornado static rule: outside the authenticated table by design; must not touch state or show flow data
            if obs["changed"]: fails.append(f"{tag}: static rule changed state")
            if obs["leak"]: fails.append(f"{tag}: static rule response contains flow/event/option data")
            return fails
        if nocred:
            if obs["ran"]: fails.append(f"{tag}: handler body {obs['ran']} entered without a valid credential ({case['cred']})")
            if obs["changed"]: fails.append(f"{tag}: state changed without a valid credential ({case['cred']})")
            if obs["leak"]: fails.append(f"{tag}: response to an unauthenticated request contains flow/event/option data")
            allowed = {403}
            if case["method"] not in r["methods"]: allowed.add(405)
            if token == "undecodable": allowed.add(400)
            if cross and not safe: allowed.add(500)          # the Sec-Fetch-Site refusal as implemented
            if obs["status"] not in allowed:
                fails.append(f"{tag}: unauthenticated request ({case['cred']}) answered {obs['status']}, expected a refusal {sorted(allowed)}")
        if not safe and not xsrf_ok:
            if obs["ran"]: fails.append(f"{tag}: non-safe method reached {obs['ran']} without a matching XSRF token ({case['xsrf']})")
            if obs["changed"]: fails.append(f"{tag}: state changed without a matching XSRF token ({case['xsrf']})")
        if not safe and cross:
            if obs["ran"]: fails.append(f"{tag}: cross-site ({case['sfs']}) non-safe request reached {obs['ran']}")
            if obs["changed"]: fails.append(f"{tag}: cross-site ({case['sfs']}) request changed state")
        if safe and obs["changed"] and not (r["ws"]):
            fails.append(f"{tag}: a {case['method']} request changed state (state-changing requests must need an XSRF token)")
        return fails

    # ------------------------------------------------------------------ model tie
    def _line(self, case, triple):
        """the abstract (Boolean credential) model line"""
        cookie, bearer, token = triple
        m = case["method"] if case["method"] in METHODS else "other"
        sfs = {None: "absent", "same-origin": "same-origin", "none": "none"}.get(case["sfs"], "other")
        x = int(case["xsrf"] in ("ok-header", "ok-arg"))
        return f"req {case['route']} {m} {cookie} {bearer} {token} {sfs} {x}"

    # ---- the concrete (raw header text) history lines.  Passwords are named symbolically ("tok0", "pw-A", "$A0"): the
    # model only compares them for equality and asks `verify` (answers listed per request: the texts argon2 accepts)
    @staticmethod
    def _hx(t): return hx(t.encode()) if t else "-"

    def _hreq(self, st, i, pwtext, ver):
        auth, tok, ck = "none", "absent", "-"
        for part in self._parts(st["cred"]):
            if part == "h-wrong": auth = self._hx("Bearer WRONG")
            elif part == "h-basic": auth = self._hx("Basic tok0")
            elif part == "h-lower": auth = self._hx("bearer tok0")
            elif part == "h-empty": auth = self._hx("Bearer")
            elif part == "h-2sp": auth = self._hx("Bearer  tok0")
            elif part == "h-valid": auth = self._hx("Bearer tok0")
            elif part == "q-wrong": tok = "t" + self._hx("WRONG")
            elif part == "q-undecodable": tok = "undecodable"
            elif part == "q-empty": tok = "t-"
            elif part == "q-valid": tok = "t" + self._hx("tok0")
            elif part == "c-valid": ck = "99"
            elif part.startswith("hb:"): auth = self._hx("Bearer " + as_header(pwtext(part[3:])))
            elif part.startswith("qt:"): tok = "t" + self._hx(pwtext(part[3:]).strip())
            elif part.startswith("ck:"): ck = part[3:]
        m = st["method"] if st["method"] in METHODS else "other"
        sfs = "absent" if st["sfs"] is None else "h" + hx(st["sfs"].encode())      # the raw header text: the model classifies it
        x = int(st["xsrf"] in ("ok-header", "ok-arg"))
        return f"hreq {st['route']} {m} {ck} {auth} {tok} {sfs} {x} {i} {ver}"

    def _hist_lines(self, case):
        pwtext = pw_text
        if case.get("kind") != "seq":
            return ["hreset %s %s" % (self._hx("tok0"), "99" if "c-valid" in case["cred"].split("+") else "-"),
                    self._hreq(case, 0, pwtext, "-")]
        lines, ver, ntok = ["hreset %s -" % self._hx("tok0")], "-", 0
        for i, st in enumerate(case["steps"]):
            if st["op"] == "set":
                kind, x = st["cfg"]
                if kind == "tok":
                    ntok += 1; lines.append("hset - %s 1" % self._hx("tok%d" % ntok)); ver = "-"
                elif kind == "plain":
                    lines.append("hset %s %s 1" % (self._hx(PW[x]), self._hx("unused"))); ver = "-"
                else:
                    lines.append("hset %s %s 1" % (self._hx("$%s%d" % (x, st.get("salt", 0))), self._hx("unused"))); ver = self._hx(PW[x])
            else:
                lines.append(self._hreq(st, i, pwtext, ver))
        return lines

    def model_lines(self, case):
        if case.get("kind") == "seq":
            reqs = [st for st in case["steps"] if st["op"] == "req"]
            return [self._line(st, tr) for st, tr in zip(reqs, self._seq_truth(case))] + self._hist_lines(case)
        return [self._line(case, self._abstract(case))] + self._hist_lines(case)

    def model_obs(self, case, replies):
        # [abstract model per request ..., raw-text history model per request ...]
        if case.get("kind") == "seq":
            n = sum(1 for st in case["steps"] if st["op"] == "req")
            hist = [r for l, r in zip(self._hist_lines(case), replies[n:]) if l.startswith("hreq")]
            bad = [r for l, r in zip(self._hist_lines(case), replies[n:]) if not l.startswith("hreq") and r != "ok"]
            return list(replies[:n]) + hist + bad
        return [replies[0], replies[2]] + ([replies[1]] if replies[1] != "ok" else [])

    def impl_view(self, case, obs):
        if case.get("kind") == "seq":
            reqs = [st for st in case["steps"] if st["op"] == "req"]
            v = [self._view_one(st, o) for st, o in zip(reqs, obs["seq"])]
            return v + v
        v = self._view_one(case, obs)
        return [v, v]

    def _view_one(self, case, obs):
        r = self._routes()[case["route"]]
        if not r["app"]:
            # static rows: the model only says whether the (un-authenticated) handler is reached
            if obs["status"] == 405: return "405"
            if obs["status"] == 403: return "403-xsrf"
            return "run"
        if obs["ran"]:
            return "run-setcookie" if obs["setcookie"] else "run"
        st = obs["status"]
        if st == 405: return "405"
        if st == 500: return "cross-site"
        if st == 400: return "400-token"
        if st == 403:
            # tornado's XSRF refusal is an HTTPError rendered by write_error; the wrapper's refusal sets the status and
            # returns (empty body, or the login form on "/")
            return "403-xsrf" if obs["body_kind"] == "tornado-error" else "403-auth"
        return "status-%s" % st

    def classify(self, case, obs):
        return json.dumps(case, sort_keys=True)

    def branches(self, case, obs):
        if case.get("kind") == "seq":
            out = ["seq:len%d" % len(obs["seq"])]
            out += ["seq-cfg:" + st["cfg"][0] for st in case["steps"] if st["op"] == "set"]
            out += ["seq-status:%s" % o["status"] for o in obs["seq"]]
            return out
        return ["status:%s" % obs["status"], "ran" if obs["ran"] else "not-ran", "cred:" + case["cred"].split("-")[0],
                "changed" if obs["changed"] else "unchanged", "handler:" + obs["handler"]]

    def neighbours(self, case, rng):
        for cred in CREDS:
            for x in XSRF:
                for sfs in SFS:
                    c = dict(case); c.update(cred=cred, xsrf=x, sfs=sfs); yield c

    def exhaustive(self, tier):
        n = len(self._routes())
        for i in range(n):
            for m in ALLM:
                for cred in CREDS:
                    for sfs in (None, "cross-site", "same-origin"):
                        for x in ("none", "ok-header", "mismatch"):
                            yield {"route": i, "method": m, "cred": cred, "sfs": sfs, "xsrf": x, "ws": 1}
