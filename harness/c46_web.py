"""In-process driver for the real mitmweb tornado Application (shared by C46 and C47).

No sockets: a request is an `HTTPServerRequest` bound to a recording stand-in for tornado's HTTP1Connection; the
handler is found with the real router (`Application.find_handler`) and run with the real `RequestHandler._execute`
(method check -> xsrf check -> prepare -> wrapped method -> finish), so that routing, cookie signing, XSRF, the
Sec-Fetch-Site check and the auth wrapper are all tornado's / mitmproxy's own code.
"""
import asyncio, logging

import tornado.httputil, tornado.iostream, tornado.web

for _n in ("tornado.access", "tornado.application", "tornado.general"):
    logging.getLogger(_n).disabled = True


class FakeStream:
    """what `connection.detach()` hands to the websocket protocol: a stream that is closed by the peer at once"""
    def __init__(self):
        self.written = []; self._closed = False; self._cb = None
    def set_close_callback(self, cb): self._cb = cb
    def set_nodelay(self, v): pass
    def closed(self): return self._closed
    def close(self, exc_info=False):
        if not self._closed:
            self._closed = True
            if self._cb: cb, self._cb = self._cb, None; cb()
    def write(self, data):
        self.written.append(bytes(data))
        f = asyncio.Future(); f.set_result(None); return f
    def read_bytes(self, n, partial=False):
        f = asyncio.Future(); f.set_exception(tornado.iostream.StreamClosedError()); return f
    read_until = read_bytes


class FakeConn:
    """stands in for tornado.http1connection.HTTP1Connection: records what the handler writes"""
    def __init__(self):
        self.start_line = None; self.headers = None; self.chunks = []; self.finished = False
        self.context = None; self.stream = None; self.detached = None
        self.no_keep_alive = False
    def set_close_callback(self, cb): pass
    def write_headers(self, start_line, headers, chunk=None):
        self.start_line = start_line; self.headers = headers
        if chunk: self.chunks.append(bytes(chunk))
        f = asyncio.Future(); f.set_result(None); return f
    def write(self, chunk):
        self.chunks.append(bytes(chunk))
        f = asyncio.Future(); f.set_result(None); return f
    def finish(self): self.finished = True
    def detach(self):
        self.detached = FakeStream(); return self.detached

    @property
    def status(self): return self.start_line.code if self.start_line else None
    @property
    def body(self): return b"".join(self.chunks)


class Web:
    """a WebMaster + Application on a private event loop"""

    def __init__(self):
        from mitmproxy import options
        from mitmproxy.tools.web import app, master as webmaster
        self.loop = asyncio.new_event_loop()
        asyncio.set_event_loop(self.loop)

        async def mk():
            return webmaster.WebMaster(options.Options(http2=False), with_termlog=False)
        self.master = self.loop.run_until_complete(mk())
        self.app = self.master.app if isinstance(getattr(self.master, "app", None), app.Application) \
            else app.Application(self.master, False)
        self.appmod = app
        self.password = self.master.addons.get("webauth")._password
        self.handler_runs = []          # names of un-wrapped handler methods that were actually entered

    def call(self, method, uri, headers=(), body=b"", host="127.0.0.1:8081"):
        return self.loop.run_until_complete(self.acall(method, uri, headers, body, host))

    async def acall(self, method, uri, headers=(), body=b"", host="127.0.0.1:8081"):
        conn = FakeConn()
        h = tornado.httputil.HTTPHeaders()
        for k, v in headers: h.add(k, v)
        req = tornado.httputil.HTTPServerRequest(method=method, uri=uri, version="HTTP/1.1", headers=h, body=body,
                                                 host=host, connection=conn)
        req._parse_body()
        d = self.app.find_handler(req)
        handler = d.handler_class(self.app, req, **d.handler_kwargs)
        transforms = [t(req) for t in self.app.transforms]
        await handler._execute(transforms, *d.path_args, **d.path_kwargs)
        for _ in range(3):
            await asyncio.sleep(0)      # let the websocket accept task / send task settle
        return conn, d.handler_class, handler

    def signed_cookie(self, name, value, **kw):
        return tornado.web.create_signed_value(self.app.settings["cookie_secret"], name, value, **kw).decode()

    def auth_cookie_name(self):
        return self.app.settings["auth_cookie_name"]()

    def pump(self):
        self.loop.run_until_complete(asyncio.sleep(0))
