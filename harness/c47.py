"""C47 — flow edits through mitmweb are atomic (mitmproxy/tools/web/app.py FlowHandler.put, mitmproxy/flow.py).

A case is a *session* on one flow: an optional `flow.backup()`, then 1..3 JSON edit documents PUT one after the other
through the real tornado Application (real router, XSRF, auth wrapper, `FlowHandler.put`).  After every PUT the flow
is snapshotted (state without the embedded backup, the backup itself, `modified()`).

Oracle (statement: "either applies completely or, if any part of it is invalid (unknown field, malformed port or
status code, malformed header list, invalid host), leaves the flow exactly as it was"):
  * a refused PUT (status != 200) leaves state, backup and modified() exactly as before;
  * an accepted PUT (200) has no invalid part (of the classes the statement lists) and the flow equals the
    pre-state with *every* field update of the document applied (reference replay through the public setters).

Model tie: the Lean model decides which primitive setter steps run, where the handler stops, whether the result is
committed or rolled back and what the backup is afterwards; primitive setter outcomes (int(), Headers.add type checks,
text encoding, ...) are library answers computed by the reference replay and passed on the protocol line.
"""
import copy, json

from common.check import PropertyCheck, Skip, hx

REQ_KEYS = ["method", "scheme", "host", "path", "http_version", "port", "headers", "trailers", "content"]
RESP_KEYS = ["reason", "http_version", "code", "headers", "trailers", "content"]

INF, NAN = float("inf"), float("nan")       # JSON `Infinity` / `1e999` / `NaN`: json.loads accepts them
DEEP = [[[[[[[[[[[[[[[[[[[[1]]]]]]]]]]]]]]]]]]]]
SUR = "\ud800x"                              # lone surrogate: not encodable (UnicodeEncodeError)
VALS = {
    "method": ["PATCH", "post", 5, None, "G ET", "", SUR, INF, [1], {"a": 1}, DEEP],
    "scheme": ["https", "", "ftp", 7, SUR, NAN],
    "host": ["example.org", "a..b", "ex ample", "x" * 70 + ".de", 5, "münchen.de", "[::1]", "", SUR, "\udcff", INF, ["h"]],
    "path": ["/x", "/edit?a=b", "", "/" + "p" * 20000, 5, None, "no-slash", SUR, {"p": 1}],
    "http_version": ["HTTP/2.0", "HTTP/1.0", 1.1, "bogus", SUR, INF],
    # int() raises ValueError for text/NaN, TypeError for null/containers, OverflowError for infinities
    "port": [123, "456", 0, 65535, 65536, 2 ** 31, "70000", "-1", "abc", None, 1.5, [1], " 7 ", -1, 70000, True, "", "0x10", {"a": 1},
             INF, -INF, NAN, 1e300, 10 ** 30, -10 ** 30, "1e999", "Infinity", DEEP, SUR, "١٢٣"],
    "code": [404, "200", 0, 99, 1000, "0", -1, "x", None, 2.7, 99999, [], "", -5, INF, -INF, NAN, 1e300, 10 ** 30, DEEP, SUR, "inf"],
    "reason": ["Non-Autorisé", "OK", 5, "", "r" * 20000, SUR, INF, [1]],
    "headers": [[["a", "b"]], [["a", "b"], ["c"]], [["a", 1]], "ab", 5, None, [["a", "b", "c"]], [],
                [["Host", "x"], ["Content-Type", "text/plain; charset=latin-1"]], [["a", "b"], 7], [[]],
                [["k", "v1"], ["k", "v2"]], {"a": "b"}, [["näme", "väl"]], [None], [["a", None]],
                [["a", SUR]], [[SUR, "b"]], [["a", INF]], INF, DEEP, [["a", "b"], [["x"], "y"]], [["a", "b"], {"k": "v"}]],
    "content": ["text", None, 5, ["x"], "ünï", "", {"a": 1}, "a\x00b", SUR, INF, NAN, DEEP, True],
    "marked": [":red_circle:", "", "x", ":grapes:"],
    "comment": ["a comment", "", "zz", "c" * 20000],
}
VALS["trailers"] = VALS["headers"]
BOGUS_KEYS = ["bogus", "Method", "status_code", "id", ""]
NONDICT = [5, None, [], "s", [["method", "GET"]], True]


def canon(x):
    if isinstance(x, (bytes, bytearray)): return "b:" + bytes(x).hex()
    if hasattr(x, "fields") and not isinstance(x, dict): return canon(tuple(x.fields))     # a Headers object, by value
    if isinstance(x, dict): return {str(k): canon(v) for k, v in sorted(x.items(), key=lambda kv: str(kv[0]))}
    if isinstance(x, (list, tuple)): return [canon(v) for v in x]
    if isinstance(x, float): return repr(x)
    return x


def snap(f):
    st = f.get_state(); st.pop("backup", None)
    b = None
    if f._backup:
        b = {k: v for k, v in f._backup.items() if k != "backup"}
    return {"state": json.dumps(canon(st), sort_keys=True), "backup": json.dumps(canon(b), sort_keys=True) if b else None,
            "modified": bool(f.modified())}


def mkflow(kind, init=None):
    """`init`: shape of the header / trailer lists the flow starts with, per message:
    {"req_h": keep|empty, "resp_h": keep|empty, "req_t": none|empty|some, "resp_t": none|empty|some}"""
    from mitmproxy.test import tflow
    from mitmproxy import http
    if kind == "resp": f = tflow.tflow(resp=True)
    elif kind == "noresp": f = tflow.tflow(resp=False)
    elif kind == "ws": f = tflow.twebsocketflow()
    elif kind == "tcp": f = tflow.ttcpflow()
    else: raise Skip()
    f.id = "4747"
    f.timestamp_created = 946681200.0
    f.client_conn.id = "c47-client"; f.server_conn.id = "c47-server"     # tflow draws random uuids
    init = init or {}
    for which in ("req", "resp"):
        m = getattr(f, "request" if which == "req" else "response", None)
        if m is None: continue
        if init.get(which + "_h") == "empty": m.headers = http.Headers()
        t = init.get(which + "_t", "none")
        if t == "empty": m.trailers = http.Headers()
        elif t == "some": m.trailers = http.Headers([(b"x-trailer", b"t")])
    return f


# ---- the 17 fields of Model.C47.Field, in that order, and how to read them off a flow
STRIP = (b"host", b"content-length", b"content-type")       # header lines the library setters rewrite as a side effect


def _hdrs(h):
    return None if h is None else [[k.hex(), v.hex()] for k, v in h.fields if k.lower() not in STRIP]


def _msgf(which, attr):
    def rd(f):
        m = getattr(f, which, None)
        if m is None: return None
        if attr == "headers": return _hdrs(m.headers)
        if attr == "trailers": return _hdrs(m.trailers)
        if attr == "content": return None if m.raw_content is None else m.raw_content.hex()
        return getattr(m.data, attr) if attr in ("port", "status_code") else getattr(m.data, attr).hex()
    return rd


FIELDS = [("req.method", _msgf("request", "method")), ("req.scheme", _msgf("request", "scheme")), ("req.host", lambda f: getattr(getattr(f, "request", None), "host", None)),
          ("req.path", _msgf("request", "path")), ("req.http_version", _msgf("request", "http_version")), ("req.port", _msgf("request", "port")),
          ("req.headers", _msgf("request", "headers")), ("req.trailers", _msgf("request", "trailers")), ("req.content", _msgf("request", "content")),
          ("resp.reason", _msgf("response", "reason")), ("resp.http_version", _msgf("response", "http_version")), ("resp.code", _msgf("response", "status_code")),
          ("resp.headers", _msgf("response", "headers")), ("resp.trailers", _msgf("response", "trailers")), ("resp.content", _msgf("response", "content")),
          ("marked", lambda f: f.marked), ("comment", lambda f: f.comment)]
READ = dict(FIELDS)
KEY2FIELD = {"code": "code", "method": "method", "scheme": "scheme", "host": "host", "path": "path", "http_version": "http_version",
             "port": "port", "headers": "headers", "trailers": "trailers", "content": "content", "reason": "reason"}


def dig(x):
    return json.dumps(canon(x), sort_keys=True)


def fields_view(f):
    return [dig(rd(f)) for _, rd in FIELDS]


# ---- reference replay: the document as a sequence of primitive setter steps ---------------------------------------
def enc_cps(t):
    return ".".join(str(ord(ch)) for ch in t)


def enc_scalar(v):
    """a JSON value as `int()` sees it (Model.C47.Scalar)"""
    if v is None: return "n"
    if isinstance(v, bool): return "b"
    if isinstance(v, int): return "i"
    if isinstance(v, float): return "f1" if (v == v and v not in (INF, -INF)) else "f0"
    if isinstance(v, str): return "s" + enc_cps(v)
    return "c"


def enc_container(v):
    """a JSON value as `for header in v: headers.add(*_str_pair(header))` sees it (Model.C47.Container)"""
    if isinstance(v, str): return "C%d" % len(v)
    if isinstance(v, dict): return "K%d" % len(v)
    if not isinstance(v, list): return "N"
    out = ["L"]
    for e in v:
        if not isinstance(e, list): out.append("x")
        else: out.append(",".join(["q"] + [("s" + enc_cps(i)) if isinstance(i, str) else "o" for i in e]))
    return ";".join(out)


def pure_obs(kind, v):
    """outcome pattern of the real conversion primitive on its own (no flow state involved): int(), str().encode(...),
    or the `for header in v: headers.add(*_str_pair(header))` loop on a fresh Headers object"""
    from mitmproxy import http
    from mitmproxy.tools.web import app
    try:
        if kind == "int": int(v)
        elif kind == "utf8": str(v).encode("utf-8", "surrogateescape")
        elif kind == "latin1": str(v).encode("ISO-8859-1")
        else:
            pair = getattr(app, "_str_pair", lambda h: h)
            h, pat = http.Headers(), "+"
            try:
                it = iter(v)
            except TypeError:
                return pat + "-"
            for e in it:
                try: h.add(*pair(e))
                except Exception: return pat + "-"
                pat += "+"
            return pat
    except Exception:
        return "-"
    return "+"


class St:
    """one primitive setter step: the thunk, the field it writes and the kind of write (set / clear / add)"""
    def __init__(self, fn, field, kind): self.fn, self.field, self.kind = fn, field, kind
    def __call__(self, f): return self.fn(f)


def _hdr_steps(get_msg, attr, v, field=None):
    """steps of `headers.clear(); for header in v: headers.add(*header)` (attr == 'headers') or the trailers variant"""
    from mitmproxy import http
    if attr == "headers":
        steps = [St(lambda f: get_msg(f).headers.clear(), field, "clear")]
        tgt = lambda f: get_msg(f).headers
    else:
        def first(f):
            m = get_msg(f)
            if m.trailers is not None: m.trailers.clear()
            else: m.trailers = http.Headers()
        steps = [St(first, field, "clear")]
        tgt = lambda f: get_msg(f).trailers
    try:
        items = list(iter(v))
    except TypeError:
        def boom(f): iter(v)
        return steps + [St(boom, field, "add")]
    from mitmproxy.tools.web import app
    pair = getattr(app, "_str_pair", lambda h: h)       # the handler's own pair check (absent before the F-C47c fix)
    for h in items:
        steps.append(St(lambda f, h=h: tgt(f).add(*pair(h)), field, "add"))
    return steps


def leaf_steps(which, k, v):
    """primitive steps the handler performs for key k of the request/response sub-document (None: unknown key)"""
    get = (lambda f: f.request) if which == "request" else (lambda f: f.response)
    pre = "req." if which == "request" else "resp."
    if which == "request":
        if k in ("method", "scheme", "host", "path", "http_version"):
            return [St(lambda f: setattr(get(f), k, str(v)), pre + k, "set")]
        if k == "port":
            return [St(lambda f: setattr(get(f), "port", int(v)), pre + "port", "set")]
    else:
        if k in ("reason", "http_version"):
            return [St(lambda f: setattr(get(f), k, str(v)), pre + k, "set")]
        if k == "code":
            return [St(lambda f: setattr(get(f), "status_code", int(v)), pre + "code", "set")]
    if k in ("headers", "trailers"):
        return _hdr_steps(get, k, v, pre + k)
    if k == "content":
        return [St(lambda f: setattr(get(f), "text", v), pre + "content", "set")]
    return None


def plan(doc, has_req, resp_mode):
    """[(token-prefix, steps|None)] in document order; mirrors only the *shape* of the document"""
    out = []
    if not isinstance(doc, dict):
        return None
    for a, b in doc.items():
        if a in ("request", "response"):
            if isinstance(b, dict):
                out.append((a, [(k, leaf_steps(a, k, v)) for k, v in b.items()]))
            else:
                out.append((a, None))
        elif a == "marked":
            out.append(("marked", [St(lambda f, b=b: setattr(f, "marked", b), "marked", "set")]))
        elif a == "comment":
            out.append(("comment", [St(lambda f, b=b: setattr(f, "comment", b), "comment", "set")]))
        else:
            out.append(("unknown", None))
    return out


class Check(PropertyCheck):
    prop = "C47"
    design_ref = "§5 C47"
    level_text = ("Lean theorems about the model of FlowHandler.put: put_all_or_nothing (for ALL flows, documents and setter outcomes "
                  "the PUT either commits every update of the document, accepted iff no part is unknown/failing, or returns the flow, "
                  "backup included, exactly as it was), put_refused_iff_invalid, put_refused_keeps_revert_target; the per-key dispatch "
                  "of the handler is transcribed (request_keys_dispatch / response_keys_dispatch: which keys reach a setter) together "
                  "with the field every primitive write targets: ops_ids_eq_effects (the typed writes are exactly the committed "
                  "effects), putF_status, putF_refused_unchanged (atomicity on the 17 fields), putF_untouched, "
                  "putF_scalar_last_writer, putF_list_replaced (what an accepted update leaves in each field); counterexample "
                  "theorems for the pre-fix handler; the statement's invalid classes transcribed instead of observed - int() of the "
                  "JSON value (C44.pyInt), _str_pair + Headers.add (C35.encodeSE) and the `for header in v` iteration: strPair_iff, "
                  "headerOutcomes_all_ok_iff, failing_key_leaves_flow_unchanged, malformed_header_list_leaves_flow_unchanged, "
                  "malformed_port_or_code_leaves_flow_unchanged; session_all_or_nothing (whole sessions of PUTs, by induction); "
                  "put_rollback_object_level / put_rollback_objects_fresh (the roll-back on C40's heap of Headers objects: the "
                  "snapshot is a value, in-place edits cannot disturb it). Tied to the real tornado handler by differential sessions of 1-3 PUTs: status, "
                  "commit/rollback, backup, the predicted content of all 17 fields AND the predicted success/failure pattern "
                  "of every port / code / headers / trailers key (driver op `conv`) are compared.")
    level_note = ("the CONVERSIONS behind port, code, headers, trailers (the classes the statement names: int(), _str_pair + "
                  "Headers.add, the iteration) and behind method / scheme / path / http_version / reason given as JSON scalars are "
                  "transcribed and tied to the real primitives on their own (driver op `conv`); whether the whole setter STEP succeeds "
                  "is still an observed input per case (reference replay) - besides the conversion it can fail through the flow's "
                  "state (the port setter rewrites the Host header, which fails when an earlier edit stored an un-encodable host: "
                  "found by the thorough run) - as are host, content and container values of string fields; the VALUE a successful write leaves is symbolic in the model (effect id) and resolved by "
                  "the harness to the value recorded for that effect, so the model predicts WHICH write determines each field, not "
                  "the conversion itself; side effects of library setters on other fields (Host / Content-Length / Content-Type "
                  "lines rewritten by host, port and content setters) are outside the model and masked in the comparison. "
                  "That set_state(get_state()) restores a message whatever in-place edits happened in between is proved on C40's "
                  "transcription of MessageData.get_state / Message.from_state (put_rollback_object_level); for the flow-level fields "
                  "(marked, comment, error, connections, backup) it is checked on every case by the before/after comparison only. DNS flows are not exercised. What put_all_or_nothing establishes is the DISPATCH - when the "
                  "handler commits or rolls back, the order of effects, the class of exception, the backup afterwards, never a 500; the "
                  "roll-back itself is `Flow.restore`, which returns the old value (set_state(get_state()) = identity is the assumption "
                  "just described). putF_refused_unchanged is true by the shape of putF; its content lies in putF_status + "
                  "ops_ids_eq_effects and in the tie. 'Invalid host' is the one clause of the statement without a conversion theorem "
                  "of its own: it is covered generically by failing_key_leaves_flow_unchanged (a setter that raises). "
                  "LENIENT BRANCHES of the oracle: a refusal may carry any "
                  "non-200 status; host validity is left to the implementation (the statement's 'invalid host' is whatever the setter "
                  "rejects); in the field tie Host / Content-Length / Content-Type header lines are masked (library side effects).")
    technique = "Lean 4 proof (transaction model, induction over the step list) + differential sessions against the real tornado handler"
    rule = ("sessions of 1-3 edit documents over http flows with/without response, websocket and tcp flows, optionally with a "
            "prior backup(); documents mix valid values with unknown keys, non-dict sub-documents, malformed ports/status codes, "
            "malformed header/trailer lists, odd hosts and non-text contents; the per-field value pools include inputs on which the "
            "real setters raise exception classes other than ValueError/TypeError/AttributeError (non-finite floats -> "
            "OverflowError), lone surrogates, huge ints and deeply nested containers; initial flows also come with EMPTY header lists and with "
            "absent / empty / non-empty trailers on either message, sessions in which an accepted update first empties them, and sessions "
            "whose first, accepted edit stores boundary / out-of-range values (ports -1..2**31, status codes 0/99/1000, empty or "
            "huge strings) before a mixed valid+invalid document (~60% all-valid, ~40% with >=1 invalid part at a "
            "random position). distinct = distinct session; non-trivial = at least one field update reached a setter.")
    budget = {"quick": 1500, "thorough": 40000}
    time_budget = {"quick": 35, "thorough": 500}
    fingerprints = ["mitmproxy.tools.web.app:FlowHandler.put", "mitmproxy.flow:Flow.backup", "mitmproxy.flow:Flow.revert",
                    "mitmproxy.flow:Flow.get_state", "mitmproxy.flow:Flow.set_state", "mitmproxy.flow:Flow.modified",
                    "mitmproxy.tools.web.app:RequestHandler.json"]
    trusted_base = ["tornado routing/XSRF/cookie code driven in-process (no sockets) through RequestHandler._execute",
                    "mitmproxy.http setters and Flow.get_state/set_state as deterministic functions of the flow state"]
    parallel = False
    _web = None

    # ------------------------------------------------------------------ generation
    def _value(self, rng, key, valid_only):
        vs = VALS[key]
        v = rng.pick(vs)
        if valid_only:
            for _ in range(20):
                if not self._leaf_invalid(key, v): break
                v = rng.pick(vs)
        return v

    @staticmethod
    def _leaf_invalid(key, v):
        """the invalid-part classes the statement lists (port/status code not an integer literal, header list not a list of
        [name, value] string pairs); host validity is left to the implementation"""
        if key in ("port", "code"):
            if isinstance(v, bool): return False
            if isinstance(v, int): return False
            if isinstance(v, float): return v != v or v in (INF, -INF)      # NaN / infinities have no integer value
            if isinstance(v, str):
                try: int(v); return False
                except ValueError: return True
            return True
        if key in ("headers", "trailers"):
            if not isinstance(v, list): return True
            return not all(isinstance(h, list) and len(h) == 2 and all(isinstance(x, str) for x in h) for h in v)
        return False

    def _subdoc(self, rng, keys, n_bad):
        ks = list(keys); rng.shuffle(ks)
        ks = ks[:rng.randint(0, min(5, len(ks)))]
        d = {k: self._value(rng, k, True) for k in ks}
        items = list(d.items())
        for _ in range(n_bad):
            kind = rng.randint(0, 2)
            pos = rng.randint(0, len(items))
            if kind == 0:
                items.insert(pos, (rng.pick(BOGUS_KEYS), rng.pick([1, "v", None])))
            else:
                k = rng.pick(keys)
                items = [(a, b) for a, b in items if a != k]
                pos = min(pos, len(items))
                items.insert(pos, (k, self._value(rng, k, False)))
        return dict(items)

    def _doc(self, rng, bad):
        tops = []
        for a in ("request", "response", "marked", "comment"):
            if rng.chance(0.55): tops.append(a)
        rng.shuffle(tops)
        n_bad = (1 if rng.chance(0.8) else 2) if bad else 0
        where = [rng.randint(0, max(0, len(tops))) for _ in range(n_bad)]
        items = []
        for a in tops:
            if a == "request": items.append((a, self._subdoc(rng, REQ_KEYS, 0)))
            elif a == "response": items.append((a, self._subdoc(rng, RESP_KEYS, 0)))
            else: items.append((a, rng.pick(VALS[a])))
        for w in where:
            mode = rng.randint(0, 4)
            subs = [i for i, (a, b) in enumerate(items) if a in ("request", "response") and isinstance(b, dict)]
            if mode <= 2 and subs:
                i = rng.pick(subs); a = items[i][0]
                keys = REQ_KEYS if a == "request" else RESP_KEYS
                base = dict(items[i][1])
                extra = self._subdoc(rng, keys, 1)
                # keep document order: existing keys first, the (possibly bad) ones at a random end
                merged = list(base.items()) + [(k, v) for k, v in extra.items() if k not in base] if rng.chance(0.6) \
                    else [(k, v) for k, v in extra.items()] + [(k, v) for k, v in base.items() if k not in extra]
                items[i] = (a, dict(merged))
            elif mode == 3:
                a = rng.pick(["request", "response"])
                items = [(x, y) for x, y in items if x != a]
                items.insert(min(w, len(items)), (a, rng.pick(NONDICT)))
            else:
                items.insert(min(w, len(items)), (rng.pick(BOGUS_KEYS + ["flow"]), rng.pick([1, {"a": 1}, None])))
        return dict(items)

    def generate(self, rng, tier):
        while True:
            kind = rng.weighted([(5, "resp"), (3, "noresp"), (1, "ws"), (1, "tcp")])
            n = rng.weighted([(5, 1), (4, 2), (2, 3)])
            docs = [self._doc(rng, rng.chance(0.4)) for _ in range(n)]
            if rng.chance(0.03): docs[rng.randrange(n)] = rng.pick([[], 5, "x", None, [{"comment": "c"}]])
            init = None
            if rng.chance(0.4):
                init = {"req_h": rng.pick(["keep", "empty"]), "resp_h": rng.pick(["keep", "empty"]),
                        "req_t": rng.pick(["none", "empty", "some"]), "resp_t": rng.pick(["none", "empty", "some"])}
            if rng.chance(0.2):
                # an accepted update first empties header/trailer lists, then a mixed valid+invalid document follows
                msg = rng.pick(["request", "response"])
                docs = [{msg: {rng.pick(["headers", "trailers"]): [], **({"trailers": []} if rng.chance(0.3) else {})}}] + docs[:2]
                bad = rng.pick([("port", "abc"), ("bogus", 1), ("code", "x"), ("headers", [["a"]])])
                docs[-1] = {msg: {"headers": [["n1", "v1"]], "trailers": [["t1", "v1"]], "content": "new", bad[0]: bad[1]}} \
                    if rng.chance(0.6) else docs[-1]
            if rng.chance(0.2):
                first = {"request": {k: v for k, v in (("port", rng.pick([-1, 0, 65535, 65536, 70000, 2 ** 31])),
                                                       ("method", rng.pick(["", "M" * 5000, "PATCH"])), ("path", rng.pick(["", "/b", "*"])),
                                                       ("host", rng.pick(["", "h" * 300, "a..b"])), ("scheme", rng.pick(["", "ftp"])))
                                     if rng.chance(0.6)},
                         "response": {k: v for k, v in (("code", rng.pick([0, 99, 1000, -1, 2 ** 31])), ("reason", rng.pick(["", "r" * 5000])),
                                                        ("http_version", rng.pick(["", "HTTP/9.9"]))) if rng.chance(0.6)}}
                if kind == "noresp": first.pop("response")
                bad = rng.pick([("port", "abc"), ("bogus", 1), ("headers", [["a"]]), ("content", 5)])
                second = {"comment": "second", "request": {"method": "DELETE", "path": "/changed", bad[0]: bad[1]}}
                if kind != "noresp" and rng.chance(0.5): second = {"response": {"code": 418, "reason": "teapot"}, **second}
                docs = [first, second] + docs[:1]
            c = {"flow": kind, "pre_backup": int(rng.chance(0.25)), "docs": docs}
            if init: c["init"] = init
            yield c

    # ------------------------------------------------------------------ implementation
    def setup(self, tier):
        pass

    def web(self):
        if Check._web is None:
            from c46_web import Web
            Check._web = Web()
        return Check._web

    def _analyse(self, case):
        """reference replay of the whole session on scratch flows: per document the protocol tokens, the state after
        applying every update, and whether any setter step fails"""
        f = mkflow(case["flow"], case.get("init"))
        if case["pre_backup"]: f.backup()
        has_req = hasattr(f, "request")
        out = []
        eff = 0
        vals = {}                       # effect id -> digest of what that write left in its field (set) / the pair it added (add)
        orig = fields_view(f)
        committed = []                  # every step of the accepted documents so far
        for doc in case["docs"]:
            resp_mode = 0 if not hasattr(f, "response") else (2 if f.response else 1)
            pl = plan(doc, has_req, resp_mode)
            # the scratch flow is rebuilt from the initial flow through the public setters only (never via
            # get_state/from_state/copy: those are part of what is being checked)
            scratch = mkflow(case["flow"], case.get("init"))
            for st_ in committed: st_(scratch)
            toks, failed, effects, done = [], False, [], []
            conv, conv_obs = [], []

            def run(steps):
                nonlocal failed, eff
                t = ""
                for s in steps:
                    if failed: break
                    try:
                        s(scratch)
                    except Exception:
                        t += "-"; failed = True
                    else:
                        eff += 1; t += "+%d" % eff; effects.append(eff); done.append(s)
                        if s.kind == "set": vals[eff] = dig(READ[s.field](scratch))
                        elif s.kind == "add":
                            msg = scratch.request if s.field.startswith("req.") else scratch.response
                            k, v = (msg.headers if s.field.endswith("headers") else msg.trailers).fields[-1]
                            vals[eff] = None if k.lower() in STRIP else [k.hex(), v.hex()]
                return t or "_"
            reached_setter = False
            if pl is None:
                toks = ["nondict"]
                failed = True
            else:
                for a, sub in pl:
                    if a in ("marked", "comment"):
                        toks.append(a[0].upper() + ":" + run(sub))
                    elif a == "unknown":
                        toks.append("U"); failed = True
                    else:
                        T = "Q" if a == "request" else "P"
                        dispatched = (a == "request" and has_req) or (a == "response" and resp_mode != 0)
                        if sub is None:
                            toks.append(T + "n"); failed = True
                            continue
                        toks.append(T + "{")
                        for k, steps in sub:
                            if steps is None:
                                toks.append("k:%s:_" % (k.encode().hex() or "-"))
                                if dispatched: failed = True
                            elif not dispatched:
                                toks.append("k:%s:_" % k.encode().hex())
                            else:
                                reached_setter = True
                                was_failed = failed
                                pat = run(steps)
                                toks.append("k:%s:%s" % (k.encode().hex(), pat))
                                present = (a == "request") or resp_mode == 2
                                if not was_failed and present and k in ("port", "code", "headers", "trailers") and \
                                        not (a == "request" and k == "code") and not (a == "response" and k == "port"):
                                    v = doc[a][k]
                                    conv.append(("conv int " + enc_scalar(v)) if k in ("port", "code") else ("conv hdr " + enc_container(v)))
                                    # the conversion on its own: the setter behind it (e.g. the Host-header update of the port
                                    # setter) may fail for reasons of the flow's state, which stays an observed step outcome
                                    conv_obs.append(pure_obs("int" if k in ("port", "code") else "hdr", v))
                                elif not was_failed and present and not isinstance(doc[a][k], (list, dict)) and (
                                        (a == "request" and k in ("method", "scheme", "path", "http_version")) or
                                        (a == "response" and k in ("http_version", "reason"))):
                                    # str(v) of a JSON scalar, then always_bytes(..., utf-8/surrogateescape) - latin-1 for the reason
                                    conv.append(("conv latin1 " if k == "reason" else "conv utf8 ") + enc_scalar(doc[a][k]))
                                    conv_obs.append(pure_obs("latin1" if k == "reason" else "utf8", doc[a][k]))
                        toks.append("}")
                        if not dispatched: failed = True      # falls through to "Unknown update request: ..."
            all_state = snap(scratch)["state"] if not failed else None
            out.append({"line": "put %d %d %s" % (int(has_req), resp_mode, " ".join(toks) if toks else "."),
                        "all_state": all_state, "ref_failed": failed, "effects": effects, "reached": reached_setter,
                        "vals": vals, "orig": orig, "conv": conv, "conv_obs": conv_obs})
            if not failed:
                # commit on the reference flow exactly what the handler is specified to do on success
                f.backup()
                for s in done: s(f)
                committed += done
        return out

    def impl(self, case):
        w = self.web()
        f = mkflow(case["flow"], case.get("init"))
        w.master.view.clear()
        w.master.view.add([f])
        if case["pre_backup"]: f.backup()
        auth = [("Host", "127.0.0.1:8081"), ("Authorization", "Bearer " + w.password), ("Cookie", "_mitmproxy_xsrf=abc"),
                ("X-XSRFToken", "abc"), ("Content-Type", "application/json")]
        ref = self._analyse(case)
        steps = []
        hist = [snap(f)["state"]]
        for doc, r in zip(case["docs"], ref):
            before = snap(f)
            conn, cls, _ = w.call("PUT", "/flows/4747", auth, json.dumps(doc).encode())
            assert cls.__name__ == "FlowHandler", cls
            after = snap(f)
            status = conn.status
            if after["state"] == r["all_state"] and after["state"] == before["state"]:
                lab = "all" if status == 200 else "pre"
            elif r["all_state"] is not None and after["state"] == r["all_state"]: lab = "all"
            elif after["state"] == before["state"]: lab = "pre"
            else: lab = "other"
            hist.append(after["state"])
            if after["backup"] is None: bl = "none"
            else:
                bl = "other"
                for j, s in enumerate(hist[:-1]):
                    if s == after["backup"]: bl = "s%d" % j; break
            steps.append({"status": status, "state": lab, "backup": bl, "fields": fields_view(f),
                          "unchanged": after == before, "modified": after["modified"],
                          "body": conn.body[:60].decode("latin-1")})
        w.master.view.clear()
        return {"steps": steps}

    # ------------------------------------------------------------------ oracle
    def _doc_invalid(self, doc, kind):
        """is any part of the document invalid in one of the classes the statement lists?"""
        if not isinstance(doc, dict): return "document is not an object"
        for a, b in doc.items():
            if a in ("request", "response"):
                if kind == "tcp": return f"unknown field {a} for this flow type"
                if not isinstance(b, dict): return f"{a} is not an object"
                keys = REQ_KEYS if a == "request" else RESP_KEYS
                for k, v in b.items():
                    if k not in keys: return f"unknown field {a}.{k}"
                    if self._leaf_invalid(k, v): return f"malformed {a}.{k}"
            elif a not in ("marked", "comment"):
                return f"unknown field {a}"
        return None

    def oracle(self, case, obs):
        fails = []
        ref = self._analyse(case)
        for i, (doc, st, r) in enumerate(zip(case["docs"], obs["steps"], ref)):
            if st["status"] != 200:
                if not st["unchanged"]:
                    fails.append(f"PUT #{i} refused with {st['status']} but the flow changed (state {st['state']}, backup {st['backup']})")
            else:
                inv = self._doc_invalid(doc, case["flow"])
                if inv:
                    fails.append(f"PUT #{i} accepted although {inv}")
                elif st["state"] != "all":
                    fails.append(f"PUT #{i} accepted but the flow is not the pre-state with every update applied (state {st['state']})")
        return fails

    # ------------------------------------------------------------------ model tie
    def model_lines(self, case):
        ref = self._analyse(case)
        return ["reset %d" % case["pre_backup"]] + [r["line"] for r in ref] + [c for r in ref for c in r["conv"]]

    def model_obs(self, case, replies):
        # reply: "<ok|refused> <cur ids|-> <backup ids|none>"
        if not replies[0].startswith("ok"): return replies
        ref = self._analyse(case)
        out, curs = [], [[]]
        nput = len(ref)
        predicted = list(replies[1 + nput:])          # the model's prediction of the int()/header-loop step patterns
        for rep, r in zip(replies[1:1 + nput], ref):
            p = rep.split(" ")
            if len(p) != 4: out.append(rep); continue
            ids = lambda s: [] if s == "-" else [int(x) for x in s.split(",")]
            cur = ids(p[1]); pre = curs[-1]
            if cur == pre + r["effects"] and (r["effects"] or p[0] == "ok"): lab = "all"
            elif cur == pre: lab = "pre"
            else: lab = "other"
            curs.append(cur)
            if p[2] == "none": bl = "none"
            else:
                b = ids(p[2]); bl = "other"
                for j, c in enumerate(curs[:-1]):
                    if c == b: bl = "s%d" % j; break
            # the model's symbolic field values -> digests of the values the reference replay recorded for those effects
            fv = []
            for j, lab_f in enumerate(p[3].split(",")):
                if lab_f == "o": fv.append(r["orig"][j])
                elif lab_f.startswith("s"): fv.append(r["vals"].get(int(lab_f[1:]), "?"))
                elif lab_f.startswith("p"):
                    ids_f = [int(x) for x in lab_f[1:].split(".") if x]
                    fv.append(dig([r["vals"][i] for i in ids_f if r["vals"].get(i) is not None]))
                else: fv.append("?" + lab_f)
            out.append([p[0], lab, bl, fv])
        return out + [predicted]

    def impl_view(self, case, obs):
        observed = [c for r in self._analyse(case) for c in r["conv_obs"]]     # what the real setters did (reference replay)
        return [["ok" if s["status"] == 200 else "refused", s["state"], s["backup"], s["fields"]] for s in obs["steps"]] + [observed]

    def classify(self, case, obs):
        return json.dumps(case, sort_keys=True) if any(isinstance(d, dict) and d for d in case["docs"]) else None

    def branches(self, case, obs):
        out = ["flow:" + case["flow"], "docs:%d" % len(case["docs"])]
        for s in obs["steps"]:
            out.append("status:%s" % s["status"])
            if s["status"] != 200:
                out.append("refused:" + ("unknown-field" if s["body"].startswith("Unknown update") else
                                         "setter-error" if s["body"].startswith("Invalid update") else "other"))
            out.append("backup:" + ("none" if s["backup"] == "none" else "some"))
        if case["pre_backup"]: out.append("pre-backup")
        return out

    def neighbours(self, case, rng):
        for i, d in enumerate(case["docs"]):
            if not isinstance(d, dict): continue
            for a in list(d):
                c = copy.deepcopy(case); del c["docs"][i][a]; yield c
            for key in ("port", "headers"):
                for v in VALS[key]:
                    c = copy.deepcopy(case)
                    r = dict(c["docs"][i].get("request") or {}) if isinstance(c["docs"][i].get("request"), dict) else {}
                    r[key] = v; c["docs"][i]["request"] = r; yield c

    def exhaustive(self, tier):
        for init in ({"req_h": "empty", "resp_h": "empty", "req_t": "empty", "resp_t": "empty"}, {"req_t": "some", "resp_t": "some"}):
            for msg in ("request", "response"):
                for k, v in (("headers", [["n", "v"]]), ("trailers", [["t", "v"]]), ("content", "new")):
                    for bad in (("port", "abc"), ("bogus", 1), ("code", "x")):
                        yield {"flow": "resp", "pre_backup": 0, "init": init, "docs": [{msg: {k: v, bad[0]: bad[1]}}]}
        for kind in ("resp", "noresp", "tcp"):
            for pb in (0, 1):
                for k in REQ_KEYS:
                    for v in VALS[k]:
                        yield {"flow": kind, "pre_backup": pb, "docs": [{"request": {"path": "/first"}}, {"request": {"path": "/x", k: v}}]}
                        yield {"flow": kind, "pre_backup": pb, "docs": [{"comment": "c", "request": {k: v, "bogus": 1}}]}
                for k in RESP_KEYS:
                    for v in VALS[k]:
                        yield {"flow": kind, "pre_backup": pb, "docs": [{"comment": "c", "response": {"reason": "R", k: v}}]}
