"""C48 — exported commands reproduce the request and are shell-safe (mitmproxy/addons/export.py, net/http/http1/assemble.py).

Every case is a request (arbitrary bytes in method, host, path, header names/values, body).  The real exporter's
curl / httpie strings are *executed* by /bin/sh (dash) and bash with stub `curl` / `http` programs first on PATH
(nothing else is on PATH), which dump their argv (and stdin); the raw export is parsed by the strict reference parser.
A case exports the SAME flow object 2-3 times in a drawn order of formats: the oracle is applied to every export of the
sequence (expectations come from a second, never-exported flow built from the case) and no export may change the flow.

Oracle (statement sentence by sentence):
  * "run by a POSIX shell, executes only curl": exactly one stub invocation, its argv[0] is the curl stub, exit status 0,
    nothing on stderr (an injected command would be "not found" -> stderr/exit status, or a second invocation);
  * "arguments encoding exactly that method, URL and header set": the argv is read with curl's option semantics
    (-X, -H, -d, --compressed, --resolve, positional URL; method = -X, else POST when -d is present, else GET) and
    compared with the request: method, pretty_url, the header lines except content-length and the Host/:authority that
    equals the URL host (curl derives those itself); an Accept-Encoding header is represented by --compressed (curl
    then sends its own Accept-Encoding value: a deliberate substitution of the exporter, accepted here);
  * "for bodies that are valid text - exactly that body": when the content is valid UTF-8 under a UTF-8/absent charset
    the -d value must be byte-identical to the content and must not start with '@' (curl would read a file);
  * httpie: argv == [http, method, url, "name: value"...]; executed under bash (the here-string `<<<` the exporter uses
    for bodies is not POSIX) and also under /bin/sh when there is no body;
  * "The raw export parses back to the same request": for requests that HTTP/1 can represent at all (token-ish method and
    target without whitespace, field names without ':'/whitespace, values without CR/LF/NUL and outer whitespace,
    Content-Length consistent) the reference parser yields the same method, target, version, field list and body.
"""
import json, os, stat, subprocess, sys, tempfile

from common.check import PropertyCheck, Skip, hx, unhx
from common.paths import WORK
from common import refparsers

BIN = os.path.join(WORK, "c48", "bin")
STUB = """#!/bin/sh
# C48 stub: "<argc>\\0<argv0>\\0<arg1>\\0..." to stdout, stdin copied to $C48_STDIN
printf '%s\\000' "$#" "$0"
for a in "$@"; do printf '%s\\000' "$a"; done
if [ -n "$C48_STDIN" ]; then /bin/cat > "$C48_STDIN"; fi
exit 0
"""
SHELLS = {"sh": "/bin/sh", "bash": "/bin/bash"}

SOUP = ["'", '"', "\\", "$", "`", ";", "|", "&", "<", ">", "(", ")", "*", "?", "[", "]", "#", "~", "=", "%", "!", "{", "}",
        " ", "\t", "\n", "\r", "\x1b", "\x01", "\x7f", "é", "日", "@", "-", "+", ",", ".", "/", ":", "a", "Z", "0", "_",
        "$(id)", "`id`", "%s", "%%", "\\n", "\\x41", "'\"'\"'", "$HOME", "\\\\", "-d", "--", "\n\n", "x\n"]
METHODS = [b"GET", b"POST", b"PUT", b"DELETE", b"PATCH", b"HEAD", b"OPTIONS"]
ODD_METHODS = [b"GE T", b"P'OST", b"$(id)", b"`id`", b";id", b"get", b"G\"ET", b"M\xc3\xa9T", b"A&B", b"X\\Y", b"P\nQ", b"%s", b"*"]
HOSTS = [b"example.com", b"address", b"1.2.3.4", b"ex'ample.com", b"a b.com", b"$(id).com", b"xn--mnchen-3ya.de", b"h;id", b"::1", b"h\"q"]
# host forms x ports: IPv6 literals (compressed, full, v4-mapped, loopback), IPv4, names, IDN (A-label / U-label), trailing dot
NET_HOSTS = [b"2001:db8::1", b"2001:0db8:0000:0000:0000:0000:0000:0001", b"::ffff:1.2.3.4", b"::1", b"fe80::1", b"::",
             b"192.0.2.7", b"example.com", b"example.com.", b"xn--mnchen-3ya.de", "münchen.de".encode(), b"localhost", b"a.b.c.d.example"]
# what a Host header / :authority may carry for such a host
def host_header_forms(host, port):
    br = b"[" + host + b"]" if b":" in host else host
    return [br, br + b":%d" % port, br + b":8443", host]
PATHS = [b"/", b"/path?a=foo&a=bar&b=baz", b"/p ath", b"/it's", b"/$(id)", b"/`id`", b"/a;b|c&d", b"/%41%%", b"/back\\slash",
         b"/nl\nx", b"/tab\tx", b"/\xc3\xa9", b"/\xff\xfe", b"/*?[x]", b"/#frag", b"/~", b"/!bang", b"/{a,b}", b"/'\"'\"'", b"/<>", b"*", b""]
HNAMES = [b"header", b"X-Custom", b"Accept", b"Accept-Encoding", b"accept-encoding", b"Host", b"host", b"Content-Length",
          b"content-type", b":authority", b"Cookie", b"X-'q", b"x y", b"x$(id)", b"X;id", b"User-Agent", b"x\xff"]
# Content-Type values used by the priming history, with a Python codec that encodes the non-ASCII sample bodies
PRIME_CTS = {"text/plain; charset=iso-8859-1": "latin-1", "text/plain; charset=latin-1": "latin-1", "text/html; charset=ISO-8859-15": "iso-8859-15",
             "application/x-www-form-urlencoded; charset=windows-1252": "cp1252", "text/plain; charset=ascii": "utf-8",
             "text/plain; charset=utf-8": "utf-8", "application/json": "utf-8"}
TE_SPELLINGS = [b"chunked", b"Chunked", b"CHUNKED", b"cHuNkEd", b"gzip, chunked", b"gzip, Chunked", b"gzip,CHUNKED", b"gzip ,\tchunked",
                b"deflate, gzip, Chunked", b"identity, chunked", b"chunked, gzip", b"gzip", b"x-unknown, chunked"]
CTYPES = [b"text/plain", b"text/plain; charset=utf-8", b"application/json", b"text/plain; charset=latin-1",
          b"text/plain; charset=utf-16", b"application/octet-stream", b"text/html; charset=bogus"]


import re as _re_mod
_re_dot = _re_mod.compile(rb"/\.\.?(/|$)")          # a literal dot segment in a path


def worker_main():
    """fresh-state worker: one JSON case per line in, its text classification and exports out; it never runs a history"""
    chk = Check()
    for line in sys.stdin:
        try:
            out = chk._fresh_compute(json.loads(line))
        except Exception as e:          # reported to the parent, which treats it as a harness problem
            out = {"error": "%s: %s" % (type(e).__name__, e)}
        sys.stdout.write(json.dumps(out) + "\n"); sys.stdout.flush()


def soup(rng, n, ctl=True):
    out = ""
    for _ in range(n):
        c = rng.pick(SOUP)
        if not ctl and any(ord(x) < 32 for x in c): c = "x"
        out += c
    return out


class Check(PropertyCheck):
    prop = "C48"
    design_ref = "§5 C48"
    level_text = ("Lean theorems about Model.Sh (shlex.quote + a POSIX reading of the command lines the exporter emits): "
                  "run (joinSp (map quote args)) = args for ALL byte-string arguments (so only curl/http is executed, with "
                  "exactly those arguments), the curl argv decodes to the request's method/url/headers for ALL requests, the "
                  "body is exact for all texts without C0 controls (and, under a printf that knows \\x, for all texts not "
                  "ending in a newline), counterexamples for the rest, and the raw export reads back; the model and the real "
                  "exporter are tied by executing the real strings under /bin/sh (dash) and bash with stub curl/http programs. "
                  "Round 3: curl_command_single_command / httpie_command_single_command (EVERY command line the exporter can emit - "
                  "any request, body kind, option setting, either printf flavour - is read as one simple command whose argv starts "
                  "with curlArgs / equals httpieArgs), httpie_body_ctl_nohex, curl_refused_iff_binary, popHeaders_sublist and "
                  "popHeaders_keeps_others (pop_headers only removes Content-Length / Host / :authority lines), assemble_chunked and "
                  "raw_chunked_parses_back (the chunk-framed raw export reads back for every content), isChunked_case_insensitive. "
                  "Round 5: url_argument_dials_request_host - the URL argument is C33's transcription of url.unparse/hostport "
                  "(driver op `url` ties it to the real function) and, read back the way a client reads an authority, names exactly "
                  "the request's host (IPv6 literals in brackets) and port, for every host a URL can carry. Round 6: "
                  "curl_sends_every_header (curl's reading of a -H argument, `sentHeader`: no header is lost, an empty value travels as "
                  "`Name;`) with old_empty_header_dropped_counterexample, curl_url_taken_literally (--globoff whenever the URL holds "
                  "[ ] { }), httpie_items_read_back_partial + httpie_old_empty_header_counterexample. THE HTTPIE CLAUSE IS PROVED ONLY UP "
                  "TO THE ARGV (one command, argv = [http, METHOD, URL, items]); `httpie_argv_shape` merely restates the definition; "
                  "httpie's reading of the items is modelled from its documented grammar for header items only and tied to nothing "
                  "(httpie is not installed).")
    level_note = ("POSIX shell semantics are modelled for the emitted constructs only and validated against dash and bash, not "
                  "proved of any shell; NUL cannot be passed in argv and is excluded from generated fields. CURL: `decodeCurl` / "
                  "`sentHeader` are a hand-written model of curl's option parser and -H handling; the driver compares them with the "
                  "harness's Python twins (`_curl_semantics`, `_sent_header`: ops `curl`, `sent`), and the twins - not the Lean functions "
                  "directly - are compared with the REAL /usr/bin/curl 7.88 by the `curlreal` cases (~12% of the cases: the exported "
                  "command's argv is handed to curl with every connection redirected to a listener on 127.0.0.1; method, request "
                  "target, header lines and body that curl sends are compared with the twins' reading and with the request). That "
                  "chain found two genuine defects, both fixed in /repo: empty-valued headers dropped ('Name: ') and URL globbing of "
                  "[ ] { }. curlreal covers http URLs, token methods and header names, values without line breaks, UTF-8 text bodies "
                  "not starting with '@'; curl options other than -X -H -d --compressed --resolve --globoff are never emitted. HTTPIE is "
                  "not installed: the oracle compares the argv with [http, METHOD, URL, 'name: value' | 'name;' ...] and nothing reads "
                  "that argv the way httpie does except the untied model `httpieItem` (header items only; no `\\` escapes, no data/file "
                  "items, not the METHOD/URL positional rules, not httpie's own default headers Accept/User-Agent/Content-Type); pretty_host, get_text and content decoding are library "
                  "answers; url.unparse / hostport are transcribed (C33) and tied, while WHICH host and port pretty_url feeds into it "
                  "(Host header vs request.host) stays an input. 'Exactly that method' is read as Request.method (the data "
                  "model upper-cases the wire bytes), 'that URL' as pretty_url or url (they differ only when the Host header has "
                  "no port and the connection a non-default one), an Accept-Encoding header is represented by --compressed "
                  "(deliberate substitution by the exporter). body_exact is proved only as body_exact_partial with "
                  "counterexamples (F-C48b trailing newline under $(...), F-C48d printf \\x under dash); F-C48c ('@' prefix) is a "
                  "curl-semantics finding (the argv is exact). `$(printf ...)` also runs the shell's printf: 'executes only curl' "
                  "is read as 'no command other than curl and the exporter's own fixed printf'. raw_parses_back (non-chunked) and "
                  "raw_chunked_parses_back (Transfer-Encoding: chunked, every content) are proved for the trailer-free assemble "
                  "paths against a minimal reader written in the model; the strict Python reference parser judges the real bytes. "
                  "LENIENT BRANCHES of the oracle: the URL may be pretty_url or url, and the independent 'what would be dialled' clause "
                  "applies only to hosts a URL authority can carry (valid name / IPv4 / IPv6, one Host line, path starting with '/'); "
                  "the body clause applies only when the content is valid UTF-8 text under a UTF-8/absent charset (other charsets: the "
                  "export must merely not be refused and must equal the fresh-state export); httpie with a body is not run under "
                  "/bin/sh (`<<<` is a syntax error there); the raw clause applies only to requests HTTP/1 can represent (token-ish "
                  "method/target, no CR/LF/NUL or outer whitespace in values, Content-Length consistent or chunked final coding "
                  "without Content-Length); recorded findings F-C48b/c/d (body) and F-C48f (empty-valued header whose name contains ';') are excused by exact "
                  "classifiers with a self-test.")
    technique = "Lean 4 proof (induction over arguments/bytes) + execution of the real exports under real shells with stub programs"
    rule = ("requests with ~60% plain and ~40% hostile material (shell metacharacters, quotes, control characters, %, "
            "backslashes, non-UTF-8 bytes; never NUL) in method, host, path, header names and values; Transfer-Encoding in its equivalent spellings (Chunked, CHUNKED, 'gzip, Chunked', inner "
            "whitespace; without Content-Length) for the raw/curl/httpie exports; host forms x ports (IPv6 literals compressed/full/v4-mapped, "
            "IPv4, names, IDN, trailing dot, with default and non-default ports; Host header / :authority / request.host as the "
            "source, with and without brackets and ports); bodies: none, text soups, "
            "binary, non-UTF-8 charsets; export_preserve_original_ip on/off with several peer addresses; each case exports ONE flow "
            "object 2-3 times in a drawn format order (curl/httpie/raw, with repeats) - every export is judged, must leave "
            "the flow's get_state() unchanged and must equal the export of an identical request computed by a worker process on "
            "fresh state; ~45% of the cases first run a HISTORY in the checking process (other messages get .text assigned - also "
            "text their declared charset cannot encode - or read under Content-Type values the request under test then shares). distinct = distinct "
            "request; non-trivial = at least one field contains a character outside shlex's safe set.")
    budget = {"quick": 100, "thorough": 12000}
    time_budget = {"quick": 12, "thorough": 500}
    fingerprints = ["mitmproxy.addons.export:curl_command", "mitmproxy.addons.export:httpie_command",
                    "mitmproxy.addons.export:request_content_for_console", "mitmproxy.addons.export:pop_headers",
                    "mitmproxy.addons.export:cleanup_request", "mitmproxy.addons.export:raw_request",
                    "mitmproxy.net.http.http1.assemble:assemble_request", "mitmproxy.net.http.http1.assemble:assemble_body",
                    "mitmproxy.net.http.http1.assemble:_assemble_request_line", "shlex:quote"]
    trusted_base = ["/bin/sh (dash) and /bin/bash as representatives of POSIX shells; the stub programs",
                    "curl's documented option semantics (-X, -H, -d incl. the '@file' rule, --compressed, --resolve)",
                    "harness/common/refparsers.py (strict RFC 9112 reader) for the raw export"]
    parallel = False
    _tctx = None

    # ------------------------------------------------------------------ generation
    def generate(self, rng, tier):
        # the runner evaluates generated cases in batches of 256; a case costs 5-6 process creations (15-30 ms each on the
        # shared box), so the quick tier draws a fixed 100 cases to stay well under a minute
        drawn = 0
        while tier != "quick" or drawn < 100:
            drawn += 1
            hostile = rng.chance(0.4)
            method = rng.pick(ODD_METHODS) if hostile and rng.chance(0.3) else rng.pick(METHODS)
            host = rng.pick(HOSTS) if hostile else rng.pick(HOSTS[:3])
            net = rng.chance(0.35)
            if net: host = rng.pick(NET_HOSTS)
            path = rng.pick(PATHS) if hostile or rng.chance(0.2) else rng.pick(PATHS[:2])
            if hostile and rng.chance(0.3): path = b"/" + soup(rng, rng.randint(1, 6)).encode()
            hdrs = []
            for _ in range(rng.randint(0, 4)):
                n = rng.pick(HNAMES) if hostile or rng.chance(0.3) else rng.pick(HNAMES[:4])
                r = rng.random()
                if n.lower() in (b"host", b":authority"):
                    v = host if r < 0.4 else (rng.pick(host_header_forms(rng.pick(NET_HOSTS), rng.pick([80, 443, 8080]))) if r < 0.8 else rng.pick(HOSTS))
                elif n.lower() == b"content-type": v = rng.pick(CTYPES)
                elif n.lower() == b"content-length": v = rng.pick([b"5", b"0", b"x"])
                elif r < 0.5 and not hostile: v = rng.pick([b"qvalue", b"*/*", b"gzip, deflate", b"a=b; c=d"])
                elif r < 0.95: v = soup(rng, rng.randint(0, 6)).encode()
                else: v = rng.pick([b"\xff\xfe", b"caf\xe9", b"a\r\nInjected: yes"])
                hdrs.append([hx(n), hx(v)])
            port_ = rng.pick([80, 443, 22, 8080])
            if net and rng.chance(0.6):
                hdrs = [h for h in hdrs if unhx(h[0]).lower() not in (b"host", b":authority")]
                src = rng.pick([host, host, rng.pick(NET_HOSTS)])
                hdrs.append([hx(rng.pick([b"Host", b"host", b":authority"])), hx(rng.pick(host_header_forms(src, port_)))])
            r = rng.random()
            if r < 0.3: body = None
            elif r < 0.45: body = rng.pick([b"content", b"nobinarysupport", b"a=1&b=2", b'{"k": "v"}', b"50%", b"@/etc/hostname", b"line\n"])
            elif r < 0.85: body = soup(rng, rng.randint(1, 8), ctl=rng.chance(0.5)).encode()
            elif r < 0.93: body = rng.pick([b"\xff\xfe", b"\x80abc", b"caf\xe9", bytes(rng.getrandbits(8) | 1 for _ in range(6))])
            else: body = rng.pick(["é".encode("latin-1"), "hé".encode("utf-16"), b"\xff\xfe", "日本".encode("utf-8")])
            if body is not None and b"\x00" in body: body = body.replace(b"\x00", b"0")
            case = {"method_hex": hx(method), "scheme": rng.pick(["http", "https"]), "host_hex": hx(host),
                   "port": port_, "path_hex": hx(path), "headers": hdrs,
                   "content_hex": None if body is None else hx(body),
                   "version": rng.pick(["HTTP/1.1", "HTTP/1.1", "HTTP/1.0", "HTTP/2.0"]),
                   "authority": int(rng.chance(0.3 if net else 0.2)),
                   "preserve": int(rng.chance(0.4)), "peer": rng.pick([None, "1.2.3.4", "::1", "address", "example.com"]),
                   "set_content": int(rng.chance(0.85)), "exe": int(rng.chance(0.1)),
                   "order": rng.pick(self.ORDERS)}
            if rng.chance(0.15):
                # chunked transfer coding in its equivalent spellings (case, lists, inner optional whitespace), no Content-Length
                te = rng.pick(TE_SPELLINGS)
                case["headers"] = [h for h in case["headers"] if unhx(h[0]).lower() not in (b"content-length", b"transfer-encoding", b"content-encoding")] \
                    + [[hx(rng.pick([b"Transfer-Encoding", b"transfer-encoding", b"TRANSFER-ENCODING"])), hx(te)]]
                case["set_content"] = 0; case["version"] = "HTTP/1.1"; case["authority"] = 0
                if case["content_hex"] is None or rng.chance(0.7):
                    case["content_hex"] = hx(rng.pick([b"chunked body", b"a=1&b=2", b"x", b"line1\r\nline2", bytes(range(1, 40))]))
                if rng.chance(0.15): case["content_hex"] = None
            if rng.chance(0.45):
                # a history: 1-3 other messages get .text assigned / read under Content-Type values, some of which the request
                # under test then shares (with a body that IS valid under the declared charset)
                cts = [rng.pick(list(PRIME_CTS)) for _ in range(rng.randint(1, 3))]
                case["prime"] = [{"ct": ct, "op": rng.pick(["set_text", "set_text", "get_text"]), "msg": rng.pick(["req", "resp"]),
                                  "text": rng.pick(["日本語", "é€", "plain", "\U0001f600", "ü"])} for ct in cts]
                if rng.chance(0.7):
                    ct = rng.pick(cts); enc = PRIME_CTS[ct]
                    txt = rng.pick(["caf\xe9", "\xfcber \xe4", "na\xefve 50% \\n", "\xe9\n"])
                    case["headers"] = [h for h in case["headers"] if unhx(h[0]).lower() not in (b"content-type", b"content-encoding")] \
                        + [[hx(b"content-type"), hx(ct.encode())]]
                    case["content_hex"] = hx(txt.encode(enc)); case["set_content"] = 1
                    if unhx(case["method_hex"]) == b"GET" and rng.chance(0.5): case["method_hex"] = hx(b"POST")
            yield case
            if rng.chance(0.12):
                cr = self._curlreal_case(rng, case)
                if cr is not None: yield cr

    # ------------------------------------------------------------------ implementation
    def setup(self, tier):
        os.makedirs(BIN, exist_ok=True)
        for name in ("curl", "http"):
            p = os.path.join(BIN, name)
            if not os.path.exists(p) or open(p).read() != STUB:
                with open(p, "w") as f: f.write(STUB)
                os.chmod(p, 0o755)
        self.tmp = tempfile.mkdtemp(prefix="run-", dir=os.path.join(WORK, "c48"))
        self.known_selftest()

    def _ctx(self):
        if Check._tctx is None:
            from mitmproxy.test import taddons
            from mitmproxy.addons import export
            Check._exp = export.Export()
            Check._tctx = taddons.context(Check._exp)
            Check._tctx.__enter__()
        return Check._tctx

    def _flow(self, case):
        from mitmproxy import http
        from mitmproxy.test import tflow
        host = unhx(case["host_hex"])
        hdrs = [(unhx(n), unhx(v)) for n, v in case["headers"]]
        content = None if case["content_hex"] is None else unhx(case["content_hex"])
        for b in [unhx(case["method_hex"]), host, unhx(case["path_hex"]), content or b""] + [x for h in hdrs for x in h]:
            if b"\x00" in b: raise Skip()
        authority = ((b"[" + host + b"]" if b":" in host else host) + b":%d" % case["port"]) if case["authority"] else b""
        req = http.Request(host.decode("utf-8", "surrogateescape"), case["port"], unhx(case["method_hex"]), case["scheme"].encode(),
                           authority, unhx(case["path_hex"]), case["version"].encode(), http.Headers(hdrs),
                           b"" if content is None else content, None, 946681200, 946681201)
        if content is not None and case["set_content"]:
            try:
                req.content = content            # goes through the setter: Content-Length is maintained
            except ValueError:
                pass
        f = tflow.tflow(req=req)
        f.server_conn.peername = (case["peer"], 22) if case["peer"] else None
        return f

    # exe mode: `<shell> script` with the stub executables first on PATH (one exec of the shell + one of the stub)
    RUNNER_EXE = ('while read -r shell script out stdin; do '
                  'if [ "$stdin" = - ]; then unset C48_STDIN; else C48_STDIN="$stdin"; export C48_STDIN; fi; '
                  '"$shell" "$script" >"$out.o" 2>"$out.e" <"$C48_EMPTY"; echo $?; done')
    # fn mode: the script is sourced in a subshell of a persistent shell under test, curl/http are shell functions with
    # the stub's behaviour (no exec at all: process creation costs ~50 ms on the loaded box); PATH still holds only stubs
    STUB_FN = ('%s() { printf "%%s\\000" "$#" %s; for a in "$@"; do printf "%%s\\000" "$a"; done; '
               'if [ -n "$C48_STDIN" ]; then /bin/cat > "$C48_STDIN"; fi; }; ')
    RUNNER_FN = (STUB_FN % ("curl", "curl") + STUB_FN % ("http", "http") +
                 'while read -r shell script out stdin; do '
                 '( if [ "$stdin" = - ]; then unset C48_STDIN; else C48_STDIN="$stdin"; fi; . "$script" ) '
                 '>"$out.o" 2>"$out.e" <"$C48_EMPTY"; echo $?; done')
    _runners = {}

    def _run(self, shell, script_path, out, stdin_path, mode):
        key = (os.getpid(), mode, shell if mode == "fn" else "-")
        pr = Check._runners.get(key)
        if pr is None or pr.poll() is not None:
            argv = ["/bin/sh", "-c", self.RUNNER_EXE] if mode == "exe" else [SHELLS[shell], "-c", self.RUNNER_FN]
            empty = os.path.join(WORK, "c48", "empty")
            open(empty, "wb").close()
            pr = subprocess.Popen(argv, env={"PATH": BIN, "LC_ALL": "C.UTF-8", "C48_EMPTY": empty},
                                  stdin=subprocess.PIPE, stdout=subprocess.PIPE, stderr=subprocess.DEVNULL)
            Check._runners[key] = pr
        pr.stdin.write(("%s %s %s %s\n" % (SHELLS[shell], script_path, out, stdin_path or "-")).encode()); pr.stdin.flush()
        line = pr.stdout.readline()
        return int(line.strip() or b"-1")

    def _shell(self, shell, script: bytes, want_stdin, mode="fn"):
        sp = os.path.join(self.tmp, "script-%d" % os.getpid())
        with open(sp, "wb") as fh: fh.write(script)
        out = os.path.join(self.tmp, "out-%d" % os.getpid())
        stdin_path = os.path.join(self.tmp, "stdin-%d" % os.getpid()) if want_stdin else None
        if want_stdin:
            try: os.unlink(stdin_path)
            except OSError: pass
        rc = self._run(shell, sp, out, stdin_path, mode)
        data = open(out + ".o", "rb").read(); err = open(out + ".e", "rb").read()
        inv, pos = [], 0
        parts = data.split(b"\x00")
        if parts and parts[-1] == b"": parts.pop()
        ok = True
        while pos < len(parts):
            try: n = int(parts[pos])
            except ValueError: ok = False; break
            if pos + 2 + n > len(parts): ok = False; break
            inv.append([hx(x) for x in parts[pos + 1: pos + 2 + n]]); pos += 2 + n
        sin = None
        if want_stdin and os.path.exists(stdin_path):
            sin = hx(open(stdin_path, "rb").read())
        return {"rc": rc, "stderr": err.decode("latin-1")[:200], "inv": inv, "parse_ok": ok, "stdin": sin, "mode": mode}

    ORDERS = [["curl", "httpie", "raw"], ["curl", "raw", "httpie"], ["httpie", "curl", "raw"], ["httpie", "raw", "curl"],
              ["raw", "curl", "httpie"], ["raw", "httpie", "curl"], ["curl", "raw"], ["httpie", "raw"], ["raw", "curl", "raw"],
              ["curl", "curl", "raw"], ["raw", "httpie", "raw"], ["httpie", "httpie", "curl"]]

    @staticmethod
    def _order(case):
        return case.get("order") or ["curl", "httpie", "raw"]

    @staticmethod
    def _own_clean(f):
        """the request as `cleanup_request` is specified to see it, computed on OUR OWN copy (public API only)"""
        rq = f.request.copy()
        rq.decode(strict=False)
        return rq

    def _prime(self, case):
        """messages this process handles BEFORE the export under test: `.text` assigned (also text the declared charset
        cannot encode) or read under various Content-Type values"""
        from mitmproxy.test import tutils
        for pr in case.get("prime") or []:
            m = tutils.treq(content=b"x") if pr.get("msg") != "resp" else tutils.tresp(content=b"x")
            m.headers["content-type"] = pr["ct"]
            try:
                if pr["op"] == "set_text": m.text = pr["text"]
                else:
                    m.raw_content = pr["text"].encode("utf-8"); m.get_text(strict=False)
            except Exception:
                pass

    def _fresh_compute(self, case):
        """(runs in the worker) text classification and the three exports of the case's request, each on a fresh flow"""
        from mitmproxy.addons import export
        from mitmproxy import exceptions
        tctx = self._ctx()
        tctx.options.export_preserve_original_ip = bool(case["preserve"])
        try:
            f0 = self._flow(case)
        except Skip:
            return {"skip": 1}
        rq = self._own_clean(f0); export.pop_headers(rq)
        try:
            t = rq.get_text(strict=True) if rq.content else None
            text_hex = None if not rq.content else (hx(t.encode("utf-8", "surrogateescape")) if t else "empty-text")
        except ValueError:
            text_hex = "bin"
        ex = {}
        for fmt, name in (("curl", "curl"), ("httpie", "httpie"), ("raw", "raw_request")):
            try:
                v = export.formats[name](self._flow(case))
                ex[fmt] = hx(v if isinstance(v, bytes) else v.encode("utf-8", "surrogateescape"))
            except exceptions.CommandError:
                ex[fmt] = "error"
            except (ValueError, AssertionError) as e:
                ex[fmt] = "error:" + type(e).__name__
        return {"text_hex": text_hex, "exports": ex}

    _worker = None

    def _fresh(self, case):
        w = Check._worker
        if w is None or w[0] != os.getpid() or w[1].poll() is not None:
            from common.paths import REPO
            code = ("import sys, os; sys.path[:0] = [%r, %r]; os.chdir(%r); import c48; c48.worker_main()"
                    % (os.path.dirname(os.path.abspath(__file__)), REPO, REPO))
            pr = subprocess.Popen([sys.executable, "-c", code], stdin=subprocess.PIPE, stdout=subprocess.PIPE,
                                  stderr=subprocess.DEVNULL, env=dict(os.environ))
            Check._worker = w = (os.getpid(), pr)
        c = {k: v for k, v in case.items() if k not in ("prime",)}
        w[1].stdin.write((json.dumps(c) + "\n").encode()); w[1].stdin.flush()
        line = w[1].stdout.readline()
        if not line: raise RuntimeError("fresh-state worker died")
        return json.loads(line)

    # ------------------------------------------------------------------ the real /usr/bin/curl against a local listener
    CURL = "/usr/bin/curl"
    CURL_OWN = (b"host", b"user-agent", b"accept", b"content-type", b"content-length", b"accept-encoding")

    def _curlreal_case(self, rng, case):
        """a request the real curl can be run with: http, a host a URL can carry, token method and header names (not the ones curl
        manages on its own), values without line breaks, a text body not starting with '@'"""
        import re
        if not os.path.exists(self.CURL): return None
        c = {k: v for k, v in case.items() if k not in ("prime", "order")}
        c["op"] = "curlreal"; c["scheme"] = "http"; c["version"] = "HTTP/1.1"; c["authority"] = 0; c["preserve"] = 0; c["peer"] = None
        c["set_content"] = 1
        if not re.fullmatch(rb"[A-Za-z][A-Za-z-]*", unhx(c["method_hex"])): c["method_hex"] = hx(rng.pick([b"GET", b"POST", b"PUT", b"M-SEARCH"]))
        if not self._plain_host(c) or not re.fullmatch(rb"/[!-~]*", unhx(c["path_hex"])) or b"#" in unhx(c["path_hex"]):
            c["host_hex"] = hx(rng.pick([b"example.com", b"2001:db8::1", b"1.2.3.4"])); c["path_hex"] = hx(b"/p?a=b")
        hs = []
        for n, v in c["headers"]:
            n_, v_ = unhx(n), unhx(v)
            if refparsers.TOKEN.match(n_) and n_.lower() not in (b"expect", b"transfer-encoding", b"connection", b"content-length", b"te", b"upgrade") \
                    and not any(ch in v_ for ch in b"\r\n\x00"):
                hs.append([n, v])
        if rng.chance(0.5): hs.append([hx(rng.pick([b"X-Empty", b"Cookie", b"x-blank"])), hx(rng.pick([b"", b" ", b"\t "]))])
        c["headers"] = hs
        body = None if c["content_hex"] is None else unhx(c["content_hex"])
        if body is not None:
            try: body.decode("utf-8")
            except UnicodeDecodeError: body = b"text body"
            if body.startswith(b"@") or b"\x00" in body: body = b"x" + body.replace(b"\x00", b"")
            c["content_hex"] = hx(body)
        return c

    def _real_curl(self, args):
        """run the real curl with `args`, every connection redirected to a listener on 127.0.0.1 that records the request and
        answers 204; returns (exit status, raw request bytes or None)"""
        import socket, threading, re
        srv = socket.socket(); srv.bind(("127.0.0.1", 0)); srv.listen(1); port = srv.getsockname()[1]
        got = []

        def serve():
            srv.settimeout(6)
            try: conn, _ = srv.accept()
            except OSError: got.append(None); return
            conn.settimeout(1.0); data = b""
            try:
                while True:
                    d = conn.recv(65536)
                    if not d: break
                    data += d
                    if b"\r\n\r\n" in data:
                        head, _, body = data.partition(b"\r\n\r\n")
                        m = re.search(rb"(?i)\r\ncontent-length:[ \t]*(\d+)", head)
                        if m and len(body) >= int(m.group(1)): break
                        if not m and b"chunked" not in head.lower(): break
                        if not m and body.endswith(b"0\r\n\r\n"): break
            except OSError: pass
            try: conn.sendall(b"HTTP/1.1 204 No Content\r\nConnection: close\r\n\r\n")
            except OSError: pass
            conn.close(); got.append(data)
        t = threading.Thread(target=serve); t.start()
        out = os.path.join(self.tmp, "curl-out-%d" % os.getpid())
        r = subprocess.run([self.CURL, "-q", "-s", "--max-time", "4", "--noproxy", "*", "--connect-to", "::127.0.0.1:%d" % port, "-o", out]
                           + args, capture_output=True, stdin=subprocess.DEVNULL, env={"PATH": "/usr/bin:/bin", "HOME": self.tmp, "LC_ALL": "C.UTF-8"})
        t.join(); srv.close()
        return r.returncode, (got[0] if got else None)

    def _curlreal_ok(self, case):
        import re
        if not re.fullmatch(rb"[A-Za-z][A-Za-z-]*", unhx(case["method_hex"])): return False
        if not self._plain_host(case) or not re.fullmatch(rb"/[!-~]*", unhx(case["path_hex"])) or b"#" in unhx(case["path_hex"]): return False
        for n, v in case["headers"]:
            if not refparsers.TOKEN.match(unhx(n)) or any(ch in unhx(v) for ch in b"\r\n\x00"): return False
        if case["content_hex"] is not None:
            body = unhx(case["content_hex"])
            try: body.decode("utf-8")                      # the body clause is about UTF-8 text (other charsets: lenient branch)
            except UnicodeDecodeError: return False
            if body.startswith(b"@") or b"\x00" in body: return False
        return True

    def _impl_curlreal(self, case):
        if not self._curlreal_ok(case): raise Skip()       # (also keeps the shrinker inside the kind's domain)
        from mitmproxy.addons import export
        tctx = self._ctx()
        tctx.options.export_preserve_original_ip = False
        f = self._flow(case)
        from mitmproxy import exceptions
        try:
            cmd = export.formats["curl"](f).encode("utf-8", "surrogateescape")
        except exceptions.CommandError:
            raise Skip()                                  # not a text body under its declared charset: outside this kind
        run = self._shell("bash", cmd, False, "fn")
        fresh = self._fresh({k: v for k, v in case.items() if k != "op"})
        obs = {"kind": "curlreal", "cmd_hex": hx(cmd), "run": run, "api_method_hex": hx(f.request.method.encode("utf-8", "surrogateescape")),
               "text_hex": fresh.get("text_hex"), "clean_content_hex": case["content_hex"]}
        if not run["parse_ok"] or len(run["inv"]) != 1 or run["rc"] != 0 or run["stderr"]:
            obs["raw"] = None; return obs
        argv = [unhx(x) for x in run["inv"][0]]
        rc, raw = self._real_curl([a.decode("utf-8", "surrogateescape") for a in argv[1:]])
        obs["curl_rc"] = rc; obs["raw_hex"] = None if raw is None else hx(raw)
        return obs

    def _oracle_curlreal(self, case, obs):
        """what the REAL curl sends for the exported command: (a) the harness's reading of the argv (`_curl_semantics`,
        `_sent_header` - the twins of Model.C48.decodeCurl / sentHeader) agrees with it; (b) it is the request: method, path,
        every header (value up to surrounding whitespace; Accept-Encoding -> curl's own), and the text body"""
        fails = []
        r = obs["run"]
        if obs.get("raw_hex") is None or obs.get("curl_rc") != 0:
            return [f"curlreal: the real curl did not deliver a request (stub run rc={r['rc']} stderr={r['stderr']!r}, curl rc={obs.get('curl_rc')})"]
        p = refparsers.parse_requests(unhx(obs["raw_hex"]))
        if p.stop is not None or len(p.messages) != 1:
            return [f"curlreal: what curl sent is not one well-formed request: {p.stop} {unhx(obs['raw_hex'])[:200]!r}"]
        m = p.messages[0]
        sent_lines = [(bytes(k), bytes(v)) for k, v in m["fields"]]
        argv = [unhx(x) for x in r["inv"][0]]
        c = self._curl_semantics(argv)
        ws = b" \t\n\x0b\x0c\r\x1c\x1d\x1e\x1f"
        # (a) the readers
        if m["method"] != c["eff_method"]: fails.append(f"curlreal: curl sent method {m['method']!r}, the argv reader says {c['eff_method']!r}")
        low = lambda pairs: [(k.lower(), v) for k, v in pairs]       # field names are case-insensitive (curl re-spells Host itself)
        twin = low(self._line_pair(l) for l in map(self._sent_header, c["H"]) if l is not None)
        mine = [(k.lower(), v.strip(ws)) for k, v in sent_lines if (k.lower(), v.strip(ws)) in twin or k.lower() not in self.CURL_OWN]
        if sorted(mine) == sorted(twin): mine = twin                  # curl moves Host / User-Agent lines to its own positions
        if mine != twin: fails.append(f"curlreal: curl sent the header lines {mine!r}, the -H reader says {twin!r}")
        if (c["data"] or b"") != m["body"]: fails.append(f"curlreal: curl sent the body {m['body']!r}, the argv reader says {c['data']!r}")
        if c["compressed"] != any(k.lower() == b"accept-encoding" and b"gzip" in v for k, v in sent_lines if (k.lower(), v.strip(ws)) not in twin):
            fails.append("curlreal: --compressed and curl's own Accept-Encoding line do not correspond")
        # (b) the request
        if m["method"] != unhx(obs["api_method_hex"]): fails.append(f"curlreal: curl sent method {m['method']!r}, the request has {unhx(obs['api_method_hex'])!r}")
        if m["target"] != unhx(case["path_hex"]): fails.append(f"curlreal: curl requested {m['target']!r}, the request's path is {unhx(case['path_hex'])!r}")
        want = [(k.lower(), v.strip(ws)) for k, v in self._expected_headers(case) if k.lower() != b"accept-encoding"]
        body = b"" if case["content_hex"] is None else unhx(case["content_hex"])
        if unhx(obs["api_method_hex"]) != b"GET" and not body: want.append((b"content-length", b"0"))
        have = [(k.lower(), v.strip(ws)) for k, v in sent_lines]
        missing = [h for h in want if h not in have]
        if missing: fails.append(f"curlreal: request headers {missing!r} are not among what curl sent {have!r}")
        has_ctl = any(ch < 32 for ch in body)
        tb = self._text_body(case, obs)       # same domain as the argv-level body clause: UTF-8 text under a UTF-8 / UTF-8-inferred charset
        if tb is not None and not (has_ctl and body.endswith(b"\n")) and m["body"] != body:      # trailing newline: finding F-C48b (argv level)
            fails.append(f"curlreal: curl sent the body {m['body']!r}, the request's is {body!r}")
        return fails

    def impl(self, case):
        if case.get("op") == "curlreal": return self._impl_curlreal(case)
        from mitmproxy.addons import export
        from mitmproxy import exceptions
        tctx = self._ctx()
        tctx.options.export_preserve_original_ip = bool(case["preserve"])
        self._prime(case)              # the HISTORY: other messages handled by this process before the export under test
        fresh = self._fresh(case)      # the same request on fresh state (a worker process that never sees any history)
        if fresh.get("skip"): raise Skip()
        f0 = self._flow(case)          # never exported: source of the expectations / library answers
        obs = {"fresh": fresh["exports"]}
        rq = self._own_clean(f0); export.pop_headers(rq)
        # is the body valid text, and which: decided on FRESH state (the history must not change what the request is)
        obs["text_hex"] = fresh["text_hex"]
        if fresh["text_hex"] == "empty-text": raise Skip()    # `assert text` in the exporter: not a text body
        obs["pretty_url_hex"] = hx(rq.pretty_url.encode("utf-8", "surrogateescape"))
        obs["pretty_host_hex"] = hx(rq.pretty_host.encode("utf-8", "surrogateescape"))
        obs["orig_url_hex"] = hx(f0.request.pretty_url.encode("utf-8", "surrogateescape"))
        obs["orig_plain_url_hex"] = hx(f0.request.url.encode("utf-8", "surrogateescape"))
        # the request's method as mitmproxy's data model defines it (Request.method upper-cases the wire bytes)
        obs["api_method_hex"] = hx(f0.request.method.encode("utf-8", "surrogateescape"))
        clean = self._own_clean(f0)
        obs["clean_headers"] = [[hx(k), hx(v)] for k, v in clean.headers.fields]
        obs["clean_content_hex"] = None if clean.raw_content is None else hx(clean.raw_content)
        obs["clean_line"] = [hx(clean.data.method), hx(clean.data.scheme), hx(clean.data.authority), hx(clean.data.path), hx(clean.data.http_version)]
        has_body = bool(rq.content)
        # the export SEQUENCE on one and the same flow object
        f = self._flow(case)
        seq, cache = [], {}
        for fmt in self._order(case):
            before = repr(f.get_state())
            step = {"fmt": fmt}
            if fmt in ("curl", "httpie"):
                try:
                    cmd = export.formats[fmt](f)
                except exceptions.CommandError:
                    step["o"] = {"cmd_hex": "error"}
                else:
                    script = cmd.encode("utf-8", "surrogateescape")
                    key = (fmt, script)
                    if key not in cache:
                        o = {"cmd_hex": hx(script)}
                        for sh in SHELLS:
                            if fmt == "httpie" and sh == "sh" and has_body: continue       # `<<<` is not POSIX
                            o[sh] = self._shell(sh, script, fmt == "httpie", "exe" if case.get("exe") else "fn")
                        cache[key] = o
                    step["o"] = cache[key]
                obs[fmt] = step["o"]
            else:
                try:
                    step["raw_hex"] = hx(export.formats["raw_request"](f))
                except (exceptions.CommandError, ValueError) as e:
                    step["raw_hex"] = "error:" + type(e).__name__
                obs["raw_hex"] = step["raw_hex"]
            step["changed"] = repr(f.get_state()) != before
            seq.append(step)
        obs["seq"] = seq
        obs["url_tie"] = self._url_real(case)
        return obs

    @staticmethod
    def _url_inputs(case):
        """(scheme, host, port, path) as ASCII text, or None when the url transcription tie does not apply"""
        host, path = unhx(case["host_hex"]), unhx(case["path_hex"])
        if not host or any(c >= 0x80 for c in host + path): return None
        return case["scheme"], host.decode("ascii"), case["port"], path.decode("ascii")

    def _url_real(self, case):
        """the real `mitmproxy.net.http.url.unparse` and how a client reads its authority (harness `_dial`, text level)"""
        from mitmproxy.net.http import url
        inp = self._url_inputs(case)
        if inp is None: return None
        u = url.unparse(*inp).encode("ascii")
        # the same reading as Model.C48.dial: authority up to / ? #, bracketed literal or host[:digits] with one colon
        rest = u.split(b"://", 1)[1] if b"://" in u else None
        d = "unreadable"
        if rest is not None:
            auth = rest
            for i, ch in enumerate(rest):
                if ch in b"/?#": auth = rest[:i]; break
            if auth.startswith(b"["):
                body, sep, tail = auth[1:].partition(b"]")
                if sep and tail == b"": d = hx(body) + ":none"
                elif sep and tail.startswith(b":") and tail[1:].isdigit(): d = hx(body) + ":" + hx(tail[1:])
            elif auth.count(b":") == 0: d = hx(auth) + ":none"
            elif auth.count(b":") == 1 and auth.split(b":")[1].isdigit(): d = hx(auth.split(b":")[0]) + ":" + hx(auth.split(b":")[1])
            else:
                h0, _, p0 = auth.partition(b":")
                d = "unreadable"
        return "url=%s;dial=%s" % (hx(u), d)

    # ------------------------------------------------------------------ oracle
    @staticmethod
    def _expected_headers(case):
        """the header set the command must encode: all field lines except content-length and the Host / :authority that
        equals the request host"""
        host = unhx(case["host_hex"])
        hs = [(unhx(n), unhx(v)) for n, v in case["headers"]]
        if case["content_hex"] is not None and case["set_content"]:
            pass
        hs = [h for h in hs if h[0].lower() != b"content-length"]
        for name in (b"host", b":authority"):
            vals = [v for n, v in hs if n.lower() == name]
            if vals and b", ".join(vals) == host:
                hs = [h for h in hs if h[0].lower() != name]
        return hs

    @staticmethod
    def _dial(url):
        """(host, port) a URL-taking client (curl, httpie) connects to for this URL argument, by RFC 3986 authority syntax;
        None when the authority cannot be read that way (e.g. an IPv6 literal without brackets)"""
        if b"://" not in url: return None
        scheme, rest = url.split(b"://", 1)
        auth = rest
        for sep in (b"/", b"?", b"#"):
            auth = auth.split(sep, 1)[0]
        auth = auth.rsplit(b"@", 1)[-1]
        default = {b"http": 80, b"https": 443}.get(scheme.lower())
        if auth.startswith(b"["):
            if b"]" not in auth: return None
            host, tail = auth[1:].split(b"]", 1)
            if tail == b"": return (host.lower(), default)
            if tail.startswith(b":") and tail[1:].isdigit(): return (host.lower(), int(tail[1:]))
            return None
        if auth.count(b":") > 1: return None             # bare IPv6: host and port cannot be told apart
        if b":" in auth:
            host, p = auth.split(b":")
            return (host.lower(), int(p)) if p.isdigit() else None
        return (auth.lower(), default)

    @staticmethod
    def _norm_host(h):
        h = h.lower()
        if any(c >= 0x80 for c in h):
            try: return h.decode("utf-8").encode("idna").lower()
            except (UnicodeError, ValueError): return h
        return h

    def _dial_ok(self, case, d):
        return d is not None and (self._norm_host(d[0]), d[1]) in {(self._norm_host(h), p) for h, p in self._dial_targets(case)}

    def _dial_targets(self, case):
        """acceptable (host, port) pairs, from the case alone: the connection target (request.host, request.port) or what a
        Host header / :authority line names (its port, else the scheme's default - pretty_url's reading)"""
        default = {"http": 80, "https": 443}[case["scheme"]]
        out = {(unhx(case["host_hex"]).lower(), case["port"])}
        for n, v in case["headers"]:
            if unhx(n).lower() in (b"host", b":authority"):
                hv = unhx(v)
                if hv.count(b":") > 1 and not hv.startswith(b"["):
                    out.add((hv.lower(), default))          # a bare IPv6 literal as Host value: the whole value is the host
                    continue
                d = self._dial(b"http://" + hv + b"/")
                if d: out.add((d[0], d[1] if hv.rstrip(b"0123456789").endswith(b":") else default))
        return out

    @staticmethod
    def _sent_header(a):
        """the line curl puts on the wire for one -H argument (lib/http.c Curl_add_custom_headers; confirmed against the real
        /usr/bin/curl by the `curlreal` cases): with a colon, the argument itself unless only spaces follow the colon (header
        removed); without a colon, `name;` (first ';' = last character) is sent as `name:`; anything else is ignored"""
        sp = b" \t\n\x0b\x0c\r"
        if b":" in a:
            return a if a.split(b":", 1)[1].lstrip(sp) != b"" else None
        if b";" in a and a.index(b";") == len(a) - 1:
            return a[:-1] + b":"
        return None

    @staticmethod
    def _line_pair(line):
        """(name, value without surrounding whitespace) of a header line"""
        i = line.find(b":", 1 if line.startswith(b":") else 0)       # a pseudo-header name starts with ':'
        n, v = (line, b"") if i < 0 else (line[:i], line[i + 1:])
        return (n, v.strip(b" \t\n\x0b\x0c\r\x1c\x1d\x1e\x1f"))

    @staticmethod
    def _curl_semantics(argv):
        """curl's reading of its command line (the options the exporter may use)"""
        out = {"method": None, "H": [], "compressed": False, "globoff": False, "path_as_is": False, "resolve": [], "data": None, "urls": [], "unknown": []}
        i = 1
        while i < len(argv):
            a = argv[i]
            if a in (b"-H", b"-X", b"-d", b"--resolve"):
                if i + 1 >= len(argv): out["unknown"].append(a); break
                v = argv[i + 1]; i += 2
                if a == b"-H": out["H"].append(v)
                elif a == b"-X": out["method"] = v
                elif a == b"-d": out["data"] = v
                else: out["resolve"].append(v)
                continue
            if a == b"--compressed": out["compressed"] = True
            elif a == b"--globoff": out["globoff"] = True
            elif a == b"--path-as-is": out["path_as_is"] = True
            elif a.startswith(b"-"): out["unknown"].append(a)
            else: out["urls"].append(a)
            i += 1
        out["eff_method"] = out["method"] if out["method"] is not None else (b"POST" if out["data"] is not None else b"GET")
        return out

    @staticmethod
    def _plain_host(case):
        """the dial clause applies when the host is something a URL authority can carry (no '/', '?', '#', '@', brackets,
        whitespace in it) and the request is not in authority form"""
        h = unhx(case["host_hex"])
        pth = unhx(case["path_hex"])
        # exactly one source per kind: several Host / :authority lines make the request itself ambiguous
        names = [unhx(n).lower() for n, v in case["headers"]]
        if names.count(b"host") > 1 or names.count(b":authority") > 1: return False
        import re as _re
        for v in [h] + [unhx(v) for n, v in case["headers"] if unhx(n).lower() in (b"host", b":authority")]:
            if not _re.fullmatch(rb"[A-Za-z0-9._~:\[\]\x80-\xff-]+", v): return False     # not a host a URL authority can carry
            try:                                   # a host that is not a valid (IDN) name is outside what a URL can carry
                v.decode("utf-8").encode("idna") if any(c >= 0x80 for c in v) else v.split(b":")[0].strip(b"[]").decode("idna")
            except (UnicodeError, ValueError):
                return False
        if b":" in h:
            import ipaddress
            try: ipaddress.IPv6Address(h.decode("ascii"))
            except ValueError: return False
        return bool(h) and not any(c in h for c in b"/?#@[] \t\r\n") and unhx(case["method_hex"]).upper() != b"CONNECT" \
            and (pth == b"" or pth == b"*" or pth.startswith(b"/"))      # else the path text runs into the authority

    def _text_body(self, case, obs):
        """the body as valid text whose UTF-8 form is the content itself (else None)"""
        if case["content_hex"] is None or obs["text_hex"] in (None, "bin"): return None
        content = unhx(obs["clean_content_hex"]) if obs["clean_content_hex"] else b""
        return content if content and unhx(obs["text_hex"]) == content else None

    def oracle(self, case, obs):
        """the statement applied to EVERY export of the sequence, plus: an export does not change the flow"""
        if obs.get("kind") == "curlreal": return self._oracle_curlreal(case, obs)
        fails = []
        for i, step in enumerate(obs["seq"]):
            tag = "" if i == 0 else f" [export #{i + 1} of {'>'.join(self._order(case))} on the same flow]"
            if step["changed"]:
                fails.append(f"{step['fmt']}: the export changed the flow (get_state before != after){tag}")
            here = step["raw_hex"] if step["fmt"] == "raw" else step["o"]["cmd_hex"]
            there = obs["fresh"][step["fmt"]]
            if here.split(":")[0] != there.split(":")[0]:
                fails.append(f"{step['fmt']}: the export differs from the export of an identical request on fresh state "
                             f"({unhx(here)[:80] if not here.startswith('error') else here!r} vs "
                             f"{unhx(there)[:80] if not there.startswith('error') else there!r}){tag}")
            rnd = {k: v for k, v in obs.items() if k not in ("curl", "httpie", "raw_hex", "seq", "fresh")}
            if step["fmt"] == "raw": rnd["raw_hex"] = step["raw_hex"]
            else: rnd[step["fmt"]] = step["o"]
            fails += [x + tag for x in self._oracle_one(case, rnd)]
        return fails

    def _oracle_one(self, case, obs):
        fails = []
        method = unhx(obs["api_method_hex"])
        # "that URL": the request's pretty_url (Host-header view) or its url (connection view); they differ only when the
        # Host header carries no port while the connection uses a non-default one
        urls = [unhx(obs["orig_url_hex"]), unhx(obs["orig_plain_url_hex"])]
        exp_h = self._expected_headers(case)
        has_content = bool(obs["clean_content_hex"] and unhx(obs["clean_content_hex"]))
        for fmt in ("curl", "httpie"):
            if fmt not in obs: continue
            o = obs[fmt]
            if o["cmd_hex"] == "error":
                if obs["text_hex"] != "bin":
                    fails.append(f"{fmt}: export refused although the body is " + ("absent" if obs["text_hex"] is None else "valid text"))
                continue
            for sh in SHELLS:
                if sh not in o: continue
                r = o[sh]
                tag = f"{fmt}/{sh}"
                prog = ("curl" if fmt == "curl" else "http").encode()
                if r["mode"] == "exe": prog = os.path.join(BIN.encode(), prog)
                if not r["parse_ok"] or len(r["inv"]) != 1 or r["rc"] != 0 or r["stderr"]:
                    fails.append(f"{tag}: not exactly one clean execution of the stub (invocations={len(r['inv'])} rc={r['rc']} stderr={r['stderr']!r})")
                    continue
                argv = [unhx(x) for x in r["inv"][0]]
                if argv[0] != prog:
                    fails.append(f"{tag}: executed {argv[0]!r}"); continue
                if fmt == "curl":
                    c = self._curl_semantics(argv)
                    if c["unknown"]: fails.append(f"{tag}: curl would read {c['unknown'][0]!r} as an option")
                    if c["eff_method"] != method: fails.append(f"{tag}: method sent by curl is {c['eff_method']!r}, request has {method!r}")
                    if len(c["urls"]) != 1 or c["urls"][0] not in urls: fails.append(f"{tag}: url arguments {c['urls']!r} != one of {urls!r}")
                    elif not c["path_as_is"] and _re_dot.search(c["urls"][0].split(b"://", 1)[-1].partition(b"/")[2].split(b"?")[0].join([b"/", b""])):
                        fails.append(f"{tag}: url {c['urls'][0]!r} has dot segments in its path and --path-as-is is not given: curl would remove them")
                    elif not c["globoff"] and any(ch in c["urls"][0].split(b"://", 1)[-1].partition(b"/")[2] for ch in b"[]{}"):
                        # curl expands [ ] { } in a URL as globbing patterns (one request per expansion) unless --globoff is given
                        fails.append(f"{tag}: url {c['urls'][0]!r} contains curl globbing characters and --globoff is not given: curl would expand it")
                    elif self._plain_host(case):
                        d = self._dial(c["urls"][0])
                        if not self._dial_ok(case, d):
                            fails.append(f"{tag}: url {c['urls'][0]!r} makes curl dial {d!r}, the request goes to one of {sorted(self._dial_targets(case))!r}")
                    # the header lines curl SENDS for its -H arguments must be the request's header set (name, value up to
                    # surrounding whitespace), in order; an empty value must still be sent
                    want_H = [(k, v.strip(b" \t\n\x0b\x0c\r\x1c\x1d\x1e\x1f")) for k, v in exp_h if k.lower() != b"accept-encoding"]
                    if method != b"GET" and not has_content: want_H.append((b"content-length", b"0"))
                    sent = [self._sent_header(a) for a in c["H"]]
                    got_H = [self._line_pair(l) for l in sent if l is not None]
                    if got_H != want_H or None in sent:
                        fails.append(f"{tag}: header lines curl sends for -H {c['H']!r} are {got_H!r} != {want_H!r}")
                    if c["compressed"] != any(k.lower() == b"accept-encoding" for k, v in exp_h):
                        fails.append(f"{tag}: --compressed does not mirror the presence of Accept-Encoding")
                    if case["preserve"] and case["peer"] and unhx(obs["pretty_host_hex"]) != case["peer"].encode():
                        want_r = [unhx(obs["pretty_host_hex"]) + b":%d:[" % case["port"] + case["peer"].encode() + b"]"]
                    else: want_r = []
                    if c["resolve"] != want_r: fails.append(f"{tag}: --resolve {c['resolve']!r} != {want_r!r}")
                    tb = self._text_body(case, obs)
                    if tb is not None:
                        if c["data"] != tb:
                            fails.append(f"{tag}: body: -d value {c['data']!r} != content {tb!r}")
                        elif tb.startswith(b"@"):
                            fails.append(f"{tag}: body: -d value starts with '@', curl reads it as a file name")
                    elif not has_content and c["data"] is not None:
                        fails.append(f"{tag}: -d present although the request has no content")
                else:
                    # httpie request items (documented grammar): `Name: value`, and `Name;` for an empty value
                    blank = lambda v: v.strip(b" \t\n\x0b\x0c\r\x1c\x1d\x1e\x1f") == b""
                    want = [prog, method, argv[2] if len(argv) > 2 and argv[2] in urls else urls[0]] + \
                        [(k + b";") if blank(v) else (k + b": " + v) for k, v in exp_h]
                    if argv != want: fails.append(f"{tag}: argv {argv[1:]!r} != {want[1:]!r}")
                    elif self._plain_host(case):
                        d = self._dial(argv[2])
                        if not self._dial_ok(case, d):
                            fails.append(f"{tag}: url {argv[2]!r} makes httpie dial {d!r}, the request goes to one of {sorted(self._dial_targets(case))!r}")
        # raw export
        if "raw_hex" in obs and self._wire_safe(case, obs):
            if obs["raw_hex"].startswith("error"):
                fails.append("raw: export failed for a representable request: " + obs["raw_hex"])
            else:
                p = refparsers.parse_requests(unhx(obs["raw_hex"]))
                m = p.messages[0] if p.messages else None
                line = [unhx(x) for x in obs["clean_line"]]
                target = self._target(line)
                want = (line[0], target, line[4], [(unhx(k), unhx(v)) for k, v in obs["clean_headers"]], unhx(obs["clean_content_hex"]))
                got = None if m is None else (m["method"], m["target"], m["version"], [(bytes(k), bytes(v)) for k, v in m["fields"]], m["body"])
                if p.stop is not None or len(p.messages) != 1 or got != want:
                    fails.append(f"raw: does not parse back: stop={p.stop} got={got!r} want={want!r}")
        return fails

    @staticmethod
    def _target(line):
        method, scheme, authority, path, _ = line
        if method.upper() == b"CONNECT": return authority
        if authority: return scheme + b"://" + authority + path
        return path

    def _wire_safe(self, case, obs):
        """can HTTP/1 represent this request at all? (else the raw export cannot be expected to read back)"""
        if obs["clean_content_hex"] is None: return False
        line = [unhx(x) for x in obs["clean_line"]]
        ws = b" \t\r\n\x0b\x0c"
        tgt = self._target(line)
        if not line[0] or not tgt or any(c in ws for c in line[0] + tgt): return False
        if not refparsers.VERSION.match(line[4]) or line[4] == b"HTTP/2.0": return False
        content = unhx(obs["clean_content_hex"])
        cl, te = [], []
        for k, v in obs["clean_headers"]:
            k, v = unhx(k), unhx(v)
            if not refparsers.TOKEN.match(k): return False
            if any(c in b"\r\n\x00" for c in v) or v != v.strip(b" \t"): return False
            if k.lower() == b"transfer-encoding": te.append(v)
            if k.lower() == b"content-length": cl.append(v)
        if te:
            # chunked framing (RFC 9112 §6.1/§7: coding names are case-insensitive, list with optional whitespace): the
            # request is representable when chunked is the final coding, all codings are known, no Content-Length, HTTP/1.1
            codings = [c.strip(b" \t").lower() for v in te for c in v.split(b",")]
            return (not cl and line[4] == b"HTTP/1.1" and codings[-1] == b"chunked" and codings.count(b"chunked") == 1
                    and all(c in refparsers.KNOWN_CODINGS for c in codings))
        if cl:
            return len(cl) == 1 and cl[0] == b"%d" % len(content)
        return not content

    # ------------------------------------------------------------------ known findings
    def known(self, case, obs, failure):
        """A failure is an instance of a recorded finding only if BOTH the input is in the finding's input class AND the failure
        is the recorded one: the body clause of a curl export, under the recorded shell, with the received -d value being
        exactly what the recorded mechanism produces.  Everything is read off the export step the failure message names."""
        import re as _re
        mh = _re.match(r"curl/(sh|bash): header lines curl sends for -H ", failure)
        if mh:
            # F-C48f: the ONLY header lines missing on the wire belong to headers whose name contains ';' and whose value is
            # blank (`X;id;` is not curl's empty-header form); every other line is there, in order
            sh = mh.group(1)
            ms = _re.search(r" \[export #(\d+) of ", failure)
            idx = int(ms.group(1)) - 1 if ms else 0
            if idx >= len(obs["seq"]) or obs["seq"][idx]["fmt"] != "curl": return None
            r = obs["seq"][idx]["o"].get(sh)
            if not r or not r["parse_ok"] or len(r["inv"]) != 1 or r["rc"] != 0 or r["stderr"]: return None
            c = self._curl_semantics([unhx(x) for x in r["inv"][0]])
            ws = b" \t\n\x0b\x0c\r\x1c\x1d\x1e\x1f"
            want = [(k, v.strip(ws)) for k, v in self._expected_headers(case) if k.lower() != b"accept-encoding"]
            has_content = bool(obs["clean_content_hex"] and unhx(obs["clean_content_hex"]))
            if unhx(obs["api_method_hex"]) != b"GET" and not has_content: want.append((b"content-length", b"0"))
            sent = [self._sent_header(a) for a in c["H"]]
            got = [self._line_pair(l) for l in sent if l is not None]
            lost = [h for h in want if b";" in h[0] and b":" not in h[0] and h[1] == b""]
            rest = [h for h in want if h not in lost]
            return "F-C48f" if lost and got == rest else None
        m = _re.match(r"curl/(sh|bash): body: ", failure)
        if not m: return None
        sh = m.group(1)
        tb = self._text_body(case, obs)
        if tb is None: return None
        ms = _re.search(r" \[export #(\d+) of ", failure)
        idx = int(ms.group(1)) - 1 if ms else 0
        if idx >= len(obs["seq"]) or obs["seq"][idx]["fmt"] != "curl": return None
        o = obs["seq"][idx]["o"]
        r = o.get(sh)
        if not r or not r["parse_ok"] or len(r["inv"]) != 1 or r["rc"] != 0 or r["stderr"]: return None
        got = self._curl_semantics([unhx(x) for x in r["inv"][0]])["data"]
        has_ctl = any(c < 32 for c in tb)
        if "-d value starts with '@', curl reads it as a file name" in failure:
            # F-C48c: body starts with '@' and the argv value is the body itself (exact)
            return "F-C48c" if tb.startswith(b"@") and got == tb else None
        if not _re.match(r"curl/(sh|bash): body: -d value .* != content ", failure): return None
        if not has_ctl or got is None: return None
        if sh == "sh":
            # F-C48d: dash's printf does not know \xHH: every control byte arrives as the four characters \xHH, rest exact
            want = b"".join(b"\\x%02x" % c if c < 32 else bytes([c]) for c in tb)
            return "F-C48d" if got == want and got != tb else None
        if sh == "bash" and tb.endswith(b"\n") and got == tb.rstrip(b"\n"):
            # F-C48b: only the trailing newline(s) are missing
            return "F-C48b"
        return None

    def known_selftest(self):
        """positive witness + near misses per finding: (body, shell, value the stub received, failure text, expected id)"""
        def fake(body, sh, got, step=0, fmt="curl"):
            case = {"content_hex": hx(body)}
            run = {"rc": 0, "stderr": "", "parse_ok": True, "stdin": None, "mode": "fn",
                   "inv": [[hx(b"curl"), hx(b"-X"), hx(b"POST"), hx(b"http://h/")] + ([hx(b"-d"), hx(got)] if got is not None else [])]}
            seq = [{"fmt": "raw", "raw_hex": "-", "changed": False}] * step + [{"fmt": fmt, "o": {"cmd_hex": "-", sh: run}, "changed": False}]
            return case, {"text_hex": hx(body), "clean_content_hex": hx(body), "seq": seq}
        tag = lambda n: "" if n == 0 else f" [export #{n + 1} of x on the same flow]"
        neq = lambda sh, got, body, n=0: f"curl/{sh}: body: -d value {got!r} != content {body!r}" + tag(n)
        at = lambda sh, n=0: f"curl/{sh}: body: -d value starts with '@', curl reads it as a file name" + tag(n)
        T = []
        # F-C48b
        T += [(b"line\n", "bash", b"line", neq("bash", b"line", b"line\n"), "F-C48b"),
              (b"a\tb\n\n", "bash", b"a\tb", neq("bash", b"a\tb", b"a\tb\n\n"), "F-C48b"),
              (b"line\n", "bash", b"lin", neq("bash", b"lin", b"line\n"), None),                       # same input, other damage
              (b"line\n", "bash", b"line", "curl/bash: method sent by curl is b'GET', request has b'POST'", None),   # other clause
              (b"line", "bash", b"lin", neq("bash", b"lin", b"line"), None),                            # outside the class
              (b"a\x01b", "bash", b"ab", neq("bash", b"ab", b"a\x01b"), None)]                          # control char lost, no newline
        # F-C48c
        T += [(b"@/etc/hostname", "sh", b"@/etc/hostname", at("sh"), "F-C48c"),
              (b"@/etc/hostname", "bash", b"@/etc/hostname", at("bash"), "F-C48c"),
              (b"@x", "bash", b"x", neq("bash", b"x", b"@x"), None),                                    # same input, value damaged
              (b"x@", "bash", b"x@", at("bash"), None),                                                # '@' not leading
              (b"@x", "bash", b"@x", "curl/bash: url arguments [] != one of []", None)]
        # F-C48d
        T += [(b"a\x01b", "sh", b"a\\x01b", neq("sh", b"a\\x01b", b"a\x01b"), "F-C48d"),
              (b"l\n", "sh", b"l\\x0a", neq("sh", b"l\\x0a", b"l\n"), "F-C48d"),
              (b"a\x01b", "sh", b"a", neq("sh", b"a", b"a\x01b"), None),                               # same input, other damage
              (b"a\x01b", "bash", b"a\\x01b", neq("bash", b"a\\x01b", b"a\x01b"), None),              # bash must decode \x
              (b"plain", "sh", b"plai", neq("sh", b"plai", b"plain"), None),                            # no control character
              (b"a\x01%", "sh", b"a\\x01", neq("sh", b"a\\x01", b"a\x01%"), None)]                   # '%' lost as well
        # F-C48f (header clause): positive + near misses
        def fakeh(hdrs, sh, argvH):
            case = {"content_hex": None, "host_hex": hx(b"h"), "headers": [[hx(a), hx(b)] for a, b in hdrs]}
            inv = [hx(b"curl")] + [x for a in argvH for x in (hx(b"-H"), hx(a))] + [hx(b"http://h/")]
            run = {"rc": 0, "stderr": "", "parse_ok": True, "stdin": None, "mode": "fn", "inv": [inv]}
            return case, {"text_hex": None, "clean_content_hex": "-", "api_method_hex": hx(b"GET"),
                          "seq": [{"fmt": "curl", "o": {"cmd_hex": "-", sh: run}, "changed": False}]}
        hf = lambda sh: f"curl/{sh}: header lines curl sends for -H [...] are [...] != [...]"
        case, obs = fakeh([(b"X;id", b""), (b"a", b"b")], "sh", [b"X;id;", b"a: b"])
        assert self.known(case, obs, hf("sh")) == "F-C48f"
        case, obs = fakeh([(b"X;id", b""), (b"a", b"b")], "sh", [b"X;id;"])                 # another line is missing too
        assert self.known(case, obs, hf("sh")) is None
        case, obs = fakeh([(b"x-empty", b""), (b"a", b"b")], "bash", [b"x-empty: ", b"a: b"])   # the OLD defect: not this finding
        assert self.known(case, obs, hf("bash")) is None
        case, obs = fakeh([(b"X;id", b"v")], "sh", [b"X;id: w"])                           # value differs, nothing lost
        assert self.known(case, obs, hf("sh")) is None
        # a later export of the sequence is judged on its own step
        case, obs = fake(b"line\n", "bash", b"line", step=1)
        assert self.known(case, obs, neq("bash", b"line", b"line\n", 1)) == "F-C48b"
        assert self.known(case, obs, neq("bash", b"line", b"line\n", 0)) is None       # step 0 of that sequence is a raw export
        for body, sh, got, failure, want in T:
            case, obs = fake(body, sh, got)
            res = self.known(case, obs, failure)
            assert res == want, f"known() selftest: body={body!r} shell={sh} got={got!r} failure={failure!r}: {res} != {want}"

    # ------------------------------------------------------------------ model tie
    def _answers(self, case):
        """library answers the model takes as input (no shell involved)"""
        from mitmproxy.addons import export
        self._ctx()
        f = self._flow(case)
        rq = self._own_clean(f); export.pop_headers(rq)
        if not rq.content: body = "none"
        else:
            try:
                t = rq.get_text(strict=True)
                if not t: raise Skip()
                body = "t" + hx(t.encode("utf-8", "surrogateescape"))
            except ValueError:
                body = "bin"
        clean = self._own_clean(f)
        e = lambda x: hx(x.encode("utf-8", "surrogateescape"))
        return {"body": body, "method": e(rq.method), "url": e(rq.pretty_url), "pretty_host": e(rq.pretty_host), "host": e(clean.host),
                "hdrs": ["%s:%s" % (hx(k), hx(v)) for k, v in clean.headers.fields],
                "line": [hx(clean.data.method), hx(clean.data.scheme), hx(clean.data.authority), hx(clean.data.path), hx(clean.data.http_version)],
                "content": None if clean.raw_content is None else hx(clean.raw_content),
                "trailers": clean.data.trailers is not None}

    def model_lines(self, case):
        if case.get("op") == "curlreal": return None        # judged against the real curl by the oracle; the argv readers are tied by `sent`/`curl`
        a = self._answers(case)
        m = a["method"]
        hd = (" " + " ".join(a["hdrs"])) if a["hdrs"] else ""
        peer = "none" if not case["peer"] else hx(case["peer"].encode())
        one = {"curl": f"curl {case['preserve']} {peer} {m} {a['host']} {a['pretty_host']} {case['port']} {a['url']} {a['body']}{hd}",
               "httpie": f"httpie {m} {a['host']} {a['url']} {a['body']}{hd}",
               "raw": "raw " + " ".join(a["line"]) + " " + (a["content"] or "-") + hd}
        lines = [one[fmt] for fmt in self._order(case)]
        inp = self._url_inputs(case)
        if inp is not None:
            lines.append("url %s %s %d %s" % (hx(inp[0].encode()), hx(inp[1].encode()), inp[2], hx(inp[3].encode())))
        hargs = self._h_args(case)
        if hargs is not None:
            lines.append("sent " + " ".join(hx(a) for a in hargs) if hargs else "sent")
        return lines

    def _h_args(self, case):
        """the -H arguments of the exported curl command (read with shlex from the real export), or None"""
        import shlex
        from mitmproxy.addons import export
        from mitmproxy import exceptions
        if "curl" not in self._order(case): return None
        try:
            cmd = export.formats["curl"](self._flow(case))
            argv = shlex.split(cmd.split(' -d "$(printf ')[0])
        except (exceptions.CommandError, ValueError, Skip):
            return None
        out = [argv[i + 1] for i in range(len(argv) - 1) if argv[i] == "-H"]
        return [a.encode("utf-8", "surrogateescape") for a in out]

    @staticmethod
    def _show_exec(r, prog_name):
        if r is None: return None
        # anything but one clean execution is outside what Model.Sh interprets (its answer is then "unmodelled")
        if not r["parse_ok"] or len(r["inv"]) != 1 or r["rc"] != 0 or r["stderr"]: return "unmodelled"
        argv = [unhx(x) for x in r["inv"][0]]
        if argv[0] != (os.path.join(BIN, prog_name).encode() if r["mode"] == "exe" else prog_name.encode()): return "unmodelled"
        return "ok:%s:%s" % (r["stdin"] if r["stdin"] not in (None, "-") else "none", ",".join([hx(prog_name.encode())] + r["inv"][0][1:]))

    def impl_view(self, case, obs):
        out = []
        for step in obs["seq"]:
            if step["fmt"] == "raw":
                out.append(step["raw_hex"] if not step["raw_hex"].startswith("error") else "error")
                continue
            o = step["o"]; prog = "curl" if step["fmt"] == "curl" else "http"
            if o["cmd_hex"] == "error": out.append("error"); continue
            out.append({"cmd": o["cmd_hex"], "sh": self._show_exec(o.get("sh"), prog), "bash": self._show_exec(o.get("bash"), prog)})
        if obs.get("url_tie") is not None: out.append(obs["url_tie"])
        if "curl" in self._order(case) and obs.get("curl", {}).get("cmd_hex") not in (None, "error"):
            hargs = self._h_args(case)
            if hargs is not None:
                out.append(",".join(hx(l) if l is not None else "none" for l in map(self._sent_header, hargs)) if hargs else "-")
        return out

    def model_obs(self, case, replies):
        out = []
        for fmt, rep in zip(self._order(case), replies):
            d = dict(kv.split("=", 1) for kv in rep.split(";") if "=" in kv)
            if fmt == "raw": out.append(d.get("raw", rep)); continue
            if rep == "error" or "=" not in rep: out.append(rep); continue
            v = {"cmd": d.get("cmd"), "sh": d.get("sh"), "bash": d.get("bash")}
            # the harness does not run a here-string under /bin/sh (syntax error there)
            if fmt == "httpie" and v["cmd"] and b" <<< " in unhx(v["cmd"]): v["sh"] = None
            out.append(v)
        out += list(replies[len(self._order(case)):])      # the `url` and `sent` transcription lines
        return out

    def classify(self, case, obs):
        safe = set(b"abcdefghijklmnopqrstuvwxyzABCDEFGHIJKLMNOPQRSTUVWXYZ0123456789_@%+=:,./-")
        fields = [unhx(case["method_hex"]), unhx(case["host_hex"]), unhx(case["path_hex"])] + [unhx(x) for h in case["headers"] for x in h]
        if case["content_hex"]: fields.append(unhx(case["content_hex"]))
        return json.dumps(case, sort_keys=True) if any(c not in safe for f in fields for c in f) else None

    def branches(self, case, obs):
        if obs.get("kind") == "curlreal": return ["curlreal", "curlreal:rc%s" % obs.get("curl_rc")]
        out = ["order:" + ">".join(self._order(case))]
        if "curl" in obs: out.append("curl:" + ("error" if obs["curl"]["cmd_hex"] == "error" else "ok"))
        t = obs["text_hex"]
        out.append("body:" + ("none" if t is None else "binary" if t == "bin" else
                              "text-ctl" if any(c < 32 for c in unhx(t)) else "text-plain"))
        if self._wire_safe(case, obs): out.append("raw:representable")
        if case["preserve"] and case["peer"]: out.append("preserve-ip")
        if any(unhx(n).lower() == b"accept-encoding" for n, v in case["headers"]): out.append("accept-encoding")
        if unhx(case["method_hex"]) == b"GET" and t is not None: out.append("GET-with-body")
        return out
