"""C50 — content views always render safely; the DNS view re-encodes faithfully
(mitmproxy/contentviews/__init__.py, _view_dns.py, _registry.py)."""
import ast, inspect, io, json, struct, unicodedata, warnings, logging
from common.check import PropertyCheck, hx, unhx

warnings.simplefilter("ignore", DeprecationWarning)
KEEP = "\t\n\r"
NAMED = {1: "A", 28: "AAAA", 2: "NS", 5: "CNAME", 12: "PTR", 16: "TXT", 65: "HTTPS"}
STRICT = {1, 28, 65}          # from_json's type-specific parser rejects the "0x… (invalid T data)" marker
LOOSE = {2, 5, 12, 16}        # … accepts any string (text / domain name)


def s2h(s): return hx(s.encode("utf-8", "surrogatepass"))
def h2s(h): return unhx(h).decode("utf-8", "surrogatepass")
def cps(s): return ",".join(str(ord(c)) for c in s) if s else "-"
def is_cc(c): return unicodedata.category(c) == "Cc"
def bad_chars(t): return sorted({ord(c) for c in t if is_cc(c) and c not in KEEP})


def lean_str(s):
    out = []
    for c in s:
        if c == '"': out.append('\\"')
        elif c == "\\": out.append("\\\\")
        elif c == "\n": out.append("\\n")
        elif 0x20 <= ord(c) < 0x7f: out.append(c)
        else: out.append("\\u{%x}" % ord(c))
    return '"' + "".join(out) + '"'


def scan_prettify(src):
    """(T) static scan of prettify_message: what text does each `return` hand out?
    rows (label, kind): kind = lit (a string literal), esc (ret.text was passed through escape_control_characters
    immediately before), raw (anything else)."""
    fn = ast.parse(src).body[0]
    rows = []

    def walk(stmts):
        for i, st in enumerate(stmts):
            if isinstance(st, ast.Return):
                v = st.value
                if isinstance(v, ast.Call) and ast.unparse(v.func) == "ContentviewResult":
                    t = [k.value for k in v.keywords if k.arg == "text"]
                    if t and isinstance(t[0], ast.Constant) and isinstance(t[0].value, str):
                        rows.append((t[0].value, "lit")); continue
                    rows.append((ast.unparse(v), "raw")); continue
                prev = stmts[i - 1] if i else None
                ok = (isinstance(v, ast.Name) and isinstance(prev, ast.Assign) and len(prev.targets) == 1
                      and ast.unparse(prev.targets[0]) == f"{v.id}.text"
                      and ast.unparse(prev.value) == f"strutils.escape_control_characters({v.id}.text)")
                rows.append((ast.unparse(v), "esc" if ok else "raw"))
            for sub in ("body", "orelse", "finalbody"):
                if hasattr(st, sub) and isinstance(getattr(st, sub), list): walk(getattr(st, sub))
            for h in getattr(st, "handlers", []): walk(h.body)
    walk(fn.body)
    return rows


class Check(PropertyCheck):
    prop = "C50"
    design_ref = "§5 C50"
    level_text = ("Lean theorems: render_text_has_no_Cc (prettify_message's result text, for ANY view function, raising or "
                  "not, auto or explicit, is free of Unicode-Cc characters except TAB/LF/CR — corollary of C49's table theorem "
                  "over the modelled fallback/error branches), prettify_returns_escaped (static scan of prettify_message), "
                  "symbol tables round-trip (types/classes/op codes/response codes, regenerated), record-data and whole-message "
                  "JSON mapping round trip `dns_view_roundtrip_partial` (reserved = 0, record data representable, YAML text clean "
                  "and loadable) with the three counterexample theorems for the recorded defects; https_records.py and "
                  "HTTPSRecord.to_json/from_json transcribed (Model/C50_Https.lean): priority_roundtrip (all 65536 SvcPriority values), "
                  "params_roundtrip (any order, unknown keys), svc_key_roundtrip, https_json_roundtrip (values via C51's theorem), "
                  "https_reencode_exact: every HTTPS rdata the decoder accepts is re-encoded byte for byte, the name codec being the only parameter; "
                  "the TXT, NS/CNAME/PTR and A codecs are transcriptions (Model/C50_Codecs.lean over C35's UTF-8 codec, C25's name codec, C22's "
                  "parseV4): utf8_dec_enc, name_dec_enc (for every Idna, no law), ip4_dec_enc, ip4_rejects_marker, transcribed_codec_laws(_A) and "
                  "dns_view_roundtrip_transcribed(_A): the guarded DNS-view round trip with YAML, Python's idna codec for ACE labels (no law needed) "
                  "and the AAAA/HTTPS part as the only parameters; type/opcode/rcode/class_text_clean: to_str of every number is free of control characters "
                  "(three of the `internal` texts C49's dumper_output_clean takes as hypothesis; dumper_output_clean_sym restates that theorem without them). "
                  "AAAA: str(IPv6Address)/IPv6Address(text) transcribed (Model/C50_V6.lean, reader = C22.parseV6): ip6_dec_enc, ip6_rejects_marker, "
                  "transcribed_codec_laws_6 and dns_view_roundtrip_transcribed_6 - the guarded DNS-view round trip with every text codec (A, AAAA, NS, CNAME, PTR, "
                  "TXT) a transcription; parameters left: YAML, Python's idna codec for ACE labels (law-free), the HTTPS part; https_codec_laws / all_transcribed_codec_laws / "
                  "dns_view_roundtrip_all_transcribed plug the https_records transcription in as that part (the JSON object travels as an opaque code), so no codec "
                  "law is assumed - only the domain-name law inside HTTPS rdata (NameLaw) and the three guards. The message-level functions the dns_* theorems are about "
                  "(toJson, fromJson, rrToJson/rrFromJson, the type dispatch of realCodec6) are executed by the driver op `msg` and compared with DNSMessage.to_json / "
                  "from_json(to_json) of the real code on every generated DNS message without an HTTPS record or ACE label. The property sentence is checked "
                  "directly as an oracle: every registered view x random and structured bodies x message kinds: no exception, "
                  "clean text; DNS: reencode_message(prettify_message(m)) decoded by mitmproxy.dns equals the original.")
    level_note = ("The clause `returns text without raising` is carried by the ORACLE (prettify_message raised ... / did not return) and the `pm` tie, not by a theorem with content: "
                  "prettifyText is total by construction and the only failure it has as an input is a raising VIEW (ViewOut.raised); a raising raw view in the auto fallback, a raising "
                  "get_data, an unknown explicit view name or an exception while formatting the error text are not inputs of the model. "
                  "The classifiers of F-C50c / F-C50d predict the excused re-encoding with the implementation's own yaml_dumps / yaml_loads / from_json (the findings ARE facts about that "
                  "library pipeline), so a change inside those functions moves the prediction with it; fromStr models from_str only on to_str outputs (String.toNat? is narrower than int()). "
                  "The whole-message tie `msg` leaves out messages with an HTTPS record (DataJ.obj is opaque; HTTPS is tied by the `https` op) and ACE labels; prettifyDns/reencodeDns add only "
                  "the YAML parameter and prettifyText (tied by `pm`) around toJson/fromJson. "
                  "partial: the DNS round trip is proved only under the guard (reserved = 0, every NS/CNAME/PTR/TXT rdata decodable, "
                  "no U+0085 in the YAML, YAML load o dump identity) — the excluded classes are genuine defects recorded as F-C50a/b/c/d. Assumed (parameters "
                  "with laws, validated by the tie, not proved): ruamel YAML dump/load (the only library law left); "
                  "the UTF-8 (TXT), domain-name (NS/CNAME/PTR, Python's idna codec for ACE labels left as a law-free parameter), IPv4 (A) and IPv6 (AAAA) "
                  "codecs are not assumed: transcribed, proved and tied by the driver ops utf8/utf8e/name/ip4/ip4e/ip6/ip6e (the HTTPS-record codec is no longer assumed: transcribed and proved up to the domain-name codec, "
                  "tied by the `https` driver op on structured, mutated and truncated rdata with the ASCII non-ACE name codec); Rust and Python view bodies are black boxes (arbitrary functions in the theorem; their "
                  "exceptions are modelled as the `raised` input). Decoding for the oracle uses mitmproxy.dns itself; inputs that "
                  "mitmproxy.dns does not reproduce by pack/unpack alone (C25/C26 territory) are skipped.")
    technique = "Lean 4 proof (C49 table theorem + DNS JSON-mapping model with codec laws) + translator + view fuzzing oracle and model-vs-code correspondence"
    rule = ("render cases: (view in registered views + auto + unknown names) x message kind (HTTP request/response with content-type / "
            "content-encoding / missing body, TCP, UDP, WebSocket text/binary, DNS message) x body (70% structured: JSON, XML/HTML, CSS, JS, "
            "GraphQL, protobuf, gRPC, msgpack, MQTT, multipart, urlencoded, PNG/GIF/JPEG/ICO headers, zip, DNS wire, socket.io, WBXML, HTTP/3 "
            "frames; 20% mutated with control bytes; 10% random); dns cases: random DNS messages (all header bits, known and unknown "
            "types/classes, valid and invalid rdata, text with YAML-significant and control characters) x transport dns/udp/tcp/http, "
            "hand-packed (uncompressed) wire form; every rendering is produced and re-encoded twice (history: caches must not change the result);  plus LARGE messages of 17-45 KiB (many TXT/A records, names up to 253 bytes, owner names "
            "re-used after first occurring before and after byte offset 16384). "
            "distinct = distinct case; non-trivial = body non-empty.")
    budget = {"quick": 9000, "thorough": 150000}
    time_budget = {"quick": 10, "thorough": 600}
    fingerprints = ["mitmproxy.contentviews:prettify_message", "mitmproxy.contentviews:reencode_message",
                    "mitmproxy.contentviews._view_dns:DNSContentview", "mitmproxy.contentviews._registry:ContentviewRegistry.get_view",
                    "mitmproxy.contentviews._utils:get_data", "mitmproxy.contentviews._utils:yaml_dumps",
                    "mitmproxy.contentviews._utils:yaml_loads", "mitmproxy.dns:DNSMessage.to_json", "mitmproxy.dns:DNSMessage.from_json",
                    "mitmproxy.dns:ResourceRecord._data_json", "mitmproxy.dns:ResourceRecord.from_json",
                    "mitmproxy.dns:Question.to_json", "mitmproxy.dns:Question.from_json",
                    "mitmproxy.utils.strutils:escape_control_characters",
                    "mitmproxy.contrib.wbxml.ASWBXMLByteQueue:ASWBXMLByteQueue.dequeueAndLog",
                    "mitmproxy.net.dns.https_records:unpack", "mitmproxy.net.dns.https_records:_unpack_params",
                    "mitmproxy.net.dns.https_records:pack", "mitmproxy.net.dns.https_records:_pack_params",
                    "mitmproxy.net.dns.https_records:HTTPSRecord.to_json", "mitmproxy.net.dns.https_records:HTTPSRecord.from_json",
                    "mitmproxy.net.dns.https_records:SVCParamKeys",
                    "mitmproxy.net.dns.domain_names:unpack", "mitmproxy.net.dns.domain_names:unpack_from",
                    "mitmproxy.net.dns.domain_names:_unpack_label_into", "mitmproxy.net.dns.domain_names:pack"]
    trusted_base = ["ruamel.yaml dump/load, ipaddress, the idna and utf-8 codecs, https_records pack/unpack as codec parameters with partial-inverse laws",
                    "mitmproxy.dns pack/unpack as the decoder of the re-encoded message (inputs it does not reproduce are skipped)",
                    "content view bodies (Python and Rust) are arbitrary functions"]
    parallel = True          # thorough tier only (see setup): under load the fork pool is slower than in-process for short runs

    def setup(self, tier):
        self.parallel = (tier == "thorough")
        self.known_selftest()

    def known_selftest(self):
        """every classifier: one positive witness, the same input with a different failure, a neighbouring input with the
        same kind of failure (known_audit.txt)"""
        self._ensure()
        def base(**kw):
            c = {"kind": "dns", "mode": "dns", "id": 42, "query": 0, "op": 0, "aa": 0, "tc": 0, "rd": 1, "ra": 1, "z": 0, "rcode": 0,
                 "qs": [[s2h("example.com"), 16, 1]], "an": [], "ns": [], "ar": []}
            c.update(kw); return c
        def rr(t, data): return [[s2h("example.com"), t, 1, 60, hx(data)]]
        def run(case):
            obs = self._impl(case); return obs, self.oracle(case, obs)
        def forged(case, obs, mut):
            o = json.loads(json.dumps(obs)); o.pop("diffs", None); mut(o); return o, self.oracle(case, o)
        def setdata(h):
            def m(o): o["back"]["rr"][0][0][4] = h
            return m
        checks = []
        # F-C50a
        c = base(z=1); obs, fs = run(c); checks.append(("a+", c, obs, fs, {"F-C50a"}))
        o2, fs2 = forged(c, obs, lambda o: o["back"].__setitem__("z", 3)); checks.append(("a: other Z value", c, o2, fs2, {None}))
        o2, fs2 = forged(c, obs, lambda o: o["back"]["hdr"].__setitem__(0, 7)); checks.append(("a: id differs too", c, o2, fs2, {"F-C50a", None}))
        c0 = base(); obs0, _ = run(c0)
        o2, fs2 = forged(c0, obs0, lambda o: o["back"].__setitem__("z", 1)); checks.append(("a: Z appears from 0", c0, o2, fs2, {None}))
        # F-C50b
        c = base(an=rr(16, b"\xff")); obs, fs = run(c); checks.append(("b+ TXT", c, obs, fs, {"F-C50b"}))
        o2, fs2 = forged(c, obs, setdata("00")); checks.append(("b: other data", c, o2, fs2, {None}))
        c = base(an=rr(2, bytes.fromhex("2282825cff"))); obs, fs = run(c); checks.append(("b+ NS", c, obs, fs, {"F-C50b"}))
        c = base(an=rr(1, b"\x01")); obs, _ = run(c)
        o2, fs2 = forged(c, obs, setdata("02")); checks.append(("b: undecodable A record", c, o2, fs2, {None}))
        c = base(an=rr(16, b"hello")); obs, _ = run(c)
        o2, fs2 = forged(c, obs, setdata(b"0x68656c6c6f (invalid TXT data)".hex())); checks.append(("b: decodable TXT", c, o2, fs2, {None}))
        # F-C50c
        c = base(an=rr(16, b"a\xc2\x85b")); obs, fs = run(c); checks.append(("c+", c, obs, fs, {"F-C50c"}))
        o2, fs2 = forged(c, obs, setdata("6162")); checks.append(("c: other data", c, o2, fs2, {None}))
        c = base(an=rr(16, "a\u2028b".encode())); obs, _ = run(c)
        o2, fs2 = forged(c, obs, setdata("612e62")); checks.append(("c: U+2028 instead of U+0085", c, o2, fs2, {None}))
        # F-C50d
        txt = ("\x01 b\x01 \x01bba\x01\x01\x01b\x01\x01\x01\x01\x01\x01a\x01b\x01\x01  \x01\x01\x01 \x01b" + "\x01ab " * 20).encode()
        c = base(an=rr(16, txt)); obs, fs = run(c); checks.append(("d+", c, obs, fs, {"F-C50d"}))
        o2, fs2 = forged(c, obs, setdata(txt[:-1].hex())); checks.append(("d: other data", c, o2, fs2, {None}))
        c = base(an=rr(16, b"short text")); obs, _ = run(c)
        o2, fs2 = forged(c, obs, setdata(b"short  text".hex())); checks.append(("d: YAML-faithful text", c, o2, fs2, {None}))
        c = base(an=rr(65, b"\x00\x01\x00\x00\x03\x00\x02\x01\xbb")); obs, _ = run(c)
        o2, fs2 = forged(c, obs, setdata("000100")); checks.append(("d: HTTPS record loses a parameter", c, o2, fs2, {None}))
        for label, case, obs, fs, want in checks:
            got = {self.known(case, obs, f) for f in fs}
            if not fs or got != want:
                raise AssertionError(f"known_selftest {label}: failures={fs[:2]} classified {got}, expected {want}")

    # ---------------------------------------------------------------- translator
    def translate(self):
        from mitmproxy import contentviews
        from mitmproxy.net.dns import types, classes, op_codes, response_codes
        rows = scan_prettify(inspect.getsource(contentviews.prettify_message))

        def tab(name, d):
            return (f"def {name} : List (Nat × String) := [" + ", ".join(f"({k}, {lean_str(v)})" for k, v in sorted(d.items())) + "]")
        out = ["/- GENERATED by harness/c50.py Check.translate() from the live /repo code — do not edit. -/",
               "namespace MitmVerif.Gen.C50", "",
               "/-- every `return` of contentviews.prettify_message: (what is returned, lit | esc | raw) -/",
               "def prettifyReturns : List (String × String) := [" + ", ".join(f"({lean_str(a)}, {lean_str(b)})" for a, b in rows) + "]", "",
               "/-- mitmproxy.net.dns.{types,classes,op_codes,response_codes}._STRINGS -/",
               tab("typeNames", types._STRINGS), tab("classNames", classes._STRINGS), tab("opNames", op_codes._STRINGS),
               tab("rcodeNames", response_codes._STRINGS), "",
               "/-- record types with a type-specific branch in ResourceRecord._data_json / from_json -/",
               f"def decodedTypes : List Nat := {sorted(NAMED)}",
               f"def strictTypes : List Nat := {sorted(STRICT)}",
               "/-- https_records.SVCParamKeys: value -> lower-case name used as JSON key -/",
               tab("svcKeyNames", {k.value: k.name.lower() for k in __import__("mitmproxy.net.dns.https_records", fromlist=["x"]).SVCParamKeys}),
               "", "end MitmVerif.Gen.C50", ""]
        return {"MitmVerif/Gen/C50.lean": "\n".join(out)}

    # ---------------------------------------------------------------- generator
    CTRL = [b"\x1b[31m", b"\x9b", b"\xc2\x9b", b"\xc2\x85", b"\x00", b"\x07", b"\x7f", b"\xe2\x80\xa8", b"\x1b]0;x\x07", b"\xff", b"\x0c", b"\x08"]

    def _views(self):
        from mitmproxy import contentviews
        return list(contentviews.registry.available_views())

    def structured(self, rng):
        from mitmproxy.test import tutils
        k = rng.randrange(24)
        c = lambda: rng.pick(self.CTRL).decode("latin-1")
        if k == 0: return b"application/json", json.dumps({"a": [1, 2.5, None, True, c()], c(): {"b": "x" * rng.randint(0, 90)}}, ensure_ascii=rng.chance(.5)).encode("utf-8", "surrogatepass")
        if k == 1: return b"text/html", b"<!DOCTYPE html><html><head><title>" + rng.pick(self.CTRL) + b"</title></head><body a='" + rng.pick(self.CTRL) + b"'><p>x<br></body></html>"
        if k == 2: return b"text/xml", b"<?xml version='1.0'?><a b=\"" + rng.pick(self.CTRL) + b"\"><![CDATA[" + rng.pick(self.CTRL) + b"]]><c/></a>"
        if k == 3: return b"text/css", b"body{color:red;content:'" + rng.pick(self.CTRL) + b"'}/*" + rng.pick(self.CTRL) + b"*/@media x{a{b:c}}"
        if k == 4: return b"application/javascript", b"function f(){return '" + rng.pick(self.CTRL) + b"';}//" + rng.pick(self.CTRL) + b"\nvar a={b:[1,2]};"
        if k == 5: return b"application/json", json.dumps({"query": "query Q { a(b: \"%s\") { c } }" % c(), "variables": {"v": c()}}).encode("utf-8", "surrogatepass")
        if k == 6: return b"application/graphql", b"query { a(b: \"" + rng.pick(self.CTRL) + b"\") { c } }"
        if k == 7: return b"application/x-protobuf", b"\x08\x96\x01\x12" + bytes([len(rng.pick(self.CTRL))]) + rng.pick(self.CTRL) + b"\x1a\x03\x08\x01\x10"
        if k == 8:
            p = b"\x0a\x03" + rng.pick(self.CTRL)[:3].ljust(3, b"a") + b"\x10\x01"
            return b"application/grpc", b"\x00" + struct.pack("!I", len(p)) + p
        if k == 9: return b"application/msgpack", b"\x82\xa1a\x93\x01\x02\xc0\xa1b\xa5" + rng.pick(self.CTRL)[:5].ljust(5, b"z")
        if k == 10: return None, b"\x10\x10\x00\x04MQTT\x04\x02\x00\x3c\x00\x04" + rng.pick(self.CTRL)[:4].ljust(4, b"c")
        if k == 11: return None, b"\x30\x0a\x00\x03a/" + rng.pick(self.CTRL)[:1] + b"hello"
        if k == 12: return b"multipart/form-data; boundary=xx", b"--xx\r\nContent-Disposition: form-data; name=\"" + rng.pick(self.CTRL) + b"\"\r\n\r\nv" + rng.pick(self.CTRL) + b"\r\n--xx--\r\n"
        if k == 13: return b"application/x-www-form-urlencoded", b"a=1&b=%1b%9b&" + rng.pick(self.CTRL) + b"=" + rng.pick(self.CTRL)
        if k == 14: return b"image/png", b"\x89PNG\r\n\x1a\n\x00\x00\x00\rIHDR\x00\x00\x00\x01\x00\x00\x00\x01\x08\x02\x00\x00\x00\x90wS\xde\x00\x00\x00\x05tEXt" + rng.pick(self.CTRL)[:5].ljust(5, b"\x00") + b"\x00\x00\x00\x00"
        if k == 15: return b"image/gif", b"GIF89a\x01\x00\x01\x00\x80\x00\x00\x00\x00\x00\xff\xff\xff!\xfe\x03" + rng.pick(self.CTRL)[:3].ljust(3, b"a") + b"\x00,\x00\x00\x00\x00\x01\x00\x01\x00\x00\x02\x02D\x01\x00;"
        if k == 16: return b"image/jpeg", b"\xff\xd8\xff\xe0\x00\x10JFIF\x00\x01\x01\x00\x00\x01\x00\x01\x00\x00\xff\xfe\x00\x05" + rng.pick(self.CTRL)[:3].ljust(3, b"a") + b"\xff\xd9"
        if k == 17: return b"image/x-icon", b"\x00\x00\x01\x00\x01\x00\x10\x10\x00\x00\x01\x00\x20\x00\x68\x04\x00\x00\x16\x00\x00\x00"
        if k == 18:
            import zipfile
            bio = io.BytesIO()
            with zipfile.ZipFile(bio, "w") as z: z.writestr("a" + c() + ".txt", b"x")
            return b"application/zip", bio.getvalue()
        if k == 19: return b"application/dns-message", tutils.tdnsresp().packed
        if k == 20: return None, b"42[\"ev\",{\"a\":\"" + rng.pick(self.CTRL) + b"\"}]"
        if k == 21: return b"application/vnd.wap.wbxml", b"\x03\x01\x6a\x00\x45\x03" + rng.pick(self.CTRL)[:3] + b"\x00\x01"
        if k == 22: return None, b"\x00\x04\x01\x02\x03\x04\x01\x02\x00\x00" + rng.pick(self.CTRL)
        return b"text/plain", ("caf\xe9 漢 " + c() + " end").encode("utf-8", "surrogatepass")

    def gen_render(self, rng, views):
        r = rng.random()
        ctype, body = self.structured(rng)
        if r < 0.2 and body:
            b = bytearray(body)
            for _ in range(rng.randint(1, 3)):
                i = rng.randrange(len(b) + 1)
                m = rng.randrange(3)
                if m == 0: b[i:i] = rng.pick(self.CTRL)
                elif m == 1 and b: b[min(i, len(b) - 1)] = rng.getrandbits(8)
                else: del b[i:i + rng.randint(1, 4)]
            body = bytes(b)
        elif r < 0.3:
            body = rng.bytes_(rng.randint(0, 80))
        if rng.chance(0.25): ctype = rng.pick([None, b"application/json", b"text/html", b"application/dns-message", b"\x1b/\x9b", b"multipart/form-data; boundary=\x1b", b"image/svg+xml", b"application/grpc+proto"])
        v = rng.pick(views) if rng.chance(0.6) else "auto"
        if rng.chance(0.04): v = rng.pick(["nonexistent", v.upper(), "", "\x1b[31m"])
        return {"kind": "render", "view": v, "msg": rng.pick(["req", "resp", "resp", "tcp", "udp", "ws_text", "ws_bin", "dnsmsg"]),
                "data_hex": hx(body), "ctype_hex": hx(ctype) if ctype else "-", "cenc": rng.pick(["", "", "", "", "gzip", "identity", "br", "\x1bx"]),
                "missing": int(rng.chance(0.03)), "port": rng.pick([80, 443, 53, 5353])}

    NAMES = ["example.com", "a.b.c", "", "xn--bcher-kva.example", "a\x1bb.com", "A.B", "a b.com", "0x41.com", "true", "null", "1", "~", "a: b",
             "- a", "#x", "'q'", '"q"', "a\\b", "*.x", "_srv._tcp.x", "a" * 63, "a\x7fb", "a\tb", "x (invalid NS data)"]
    TXTS = [b"hello", b"", b"\x05hello", "\xe9\x1b\x9b ".encode(), b"0x41", b"0xzz (invalid", b"a (b", b"\xff\xfe", b"true", b"123", b"- x", b"a: b",
            b"a\nb", b"a\r\nb", b" lead", b"trail ", b"\t", b"'", b'"', b"\\", b"a\xc2\x85b", b"#c", b"x #c", b"|", b">", b"%", b"@", b"`", b"\x80" + b"k" * 128,
            b"0xff (invalid TXT data)", b"word " * 30, b"a\n\nb\n", b"\xc2\x85", b"{a: 1}", b"[1]", b"\x00", b"\xef\xbb\xbfbom", b"\x7f"]

    def _rdata(self, rng, t):
        from mitmproxy.net.dns import domain_names
        if rng.chance(0.2): return rng.bytes_(rng.randint(0, 20))
        if t == 1: return rng.bytes_(4)
        if t == 28: return rng.bytes_(16)
        if t in (2, 5, 12):
            try: return domain_names.pack(rng.pick(self.NAMES))
            except Exception: return b"\x01a\x00"
        if t == 16: return rng.pick(self.TXTS)
        if t == 65: return self._https(rng)
        return rng.bytes_(rng.randint(0, 12))

    def _https(self, rng):
        """structured HTTPS/SVCB rdata (RFC 9460): SvcPriority over the whole 16-bit range, TargetName, SvcParams in and out of
        order, known and unknown keys, empty values, occasionally a repeated key or a truncated tail"""
        pri = rng.pick([0, 1, 2, 0x7fff, 0x8000, 0x8001, 0xffff, rng.getrandbits(16)])
        name = rng.pick([b"\x00", b"\x01a\x00", b"\x03foo\x07example\x00", b"\x03svc\x07example\x03net\x00", b"\x02A-\x00"])
        vals = {0: [b"\x00\x01", b"\x00\x01\x00\x03"], 1: [b"\x02h2", b"\x02h2\x02h3", b"\x08http/1.1"], 2: [b""], 3: [b"\x01\xbb", b"\x20\xfb"],
                4: [b"\x01\x02\x03\x04", b"\xc0\x00\x02\x01\xc0\x00\x02\x02"], 5: [b"\x00\x45\xfe\x0d\x00", rng.bytes_(rng.randint(1, 70))],
                6: [bytes(15) + b"\x01"], 7: [b"/dns-query{?dns}"], 0x8000: [b"", b"x'\"\\\n"], 65535: [b"\xff"]}
        keys = rng.sample(sorted(vals), rng.randint(0, 5))
        if rng.chance(0.7): keys.sort()
        if keys and rng.chance(0.08): keys.append(rng.pick(keys))          # a repeated key
        out = struct.pack("!H", pri) + name
        for k in keys:
            v = rng.pick(vals[k]); out += struct.pack("!HH", k, len(v)) + v
        if rng.chance(0.05): out = out[:-1] if len(out) > 3 else out + b"\x00"
        return out

    def gen_dns(self, rng):
        def rr():
            t = rng.pick([1, 28, 2, 5, 12, 16, 16, 65, 65, 99, 65535, 0, 10, 13])
            return [s2h(rng.pick(self.NAMES)), t, rng.pick([1, 3, 255, 0, 65535, 4, 254]), rng.pick([0, 60, 2 ** 32 - 1, 2 ** 31]), hx(self._rdata(rng, t))]
        return {"kind": "dns", "mode": rng.pick(["dns", "dns", "udp", "tcp", "http"]), "id": rng.pick([0, 42, 65535, rng.getrandbits(16)]),
                "query": rng.randint(0, 1), "op": rng.pick([0, 0, 1, 2, 4, 5, 15, 7]), "aa": rng.randint(0, 1), "tc": int(rng.chance(.3)),
                "rd": rng.randint(0, 1), "ra": rng.randint(0, 1), "z": rng.pick([0, 0, 0, 0, 0, 0, 1, 7]), "rcode": rng.pick([0, 0, 1, 2, 3, 5, 15, 11]),
                "qs": [[s2h(rng.pick(self.NAMES)), rng.pick([1, 28, 16, 65, 255, 4242, 0]), rng.pick([1, 3, 255, 0, 9])] for _ in range(rng.pick([0, 1, 1, 1, 2]))],
                "an": [rr() for _ in range(rng.pick([0, 1, 2]))], "ns": [rr() for _ in range(rng.pick([0, 0, 1]))],
                "ar": [rr() for _ in range(rng.pick([0, 0, 1]))]}

    def generate(self, rng, tier):
        views = self._views()
        yield {"kind": "table"}
        for n in range(0, 70000, 7 if tier == "thorough" else 331):
            yield {"kind": "sym", "n": n}
        for n in list(range(0, 300)) + [65535, 65534, 32768]:
            yield {"kind": "sym", "n": n}
        for v in views:                       # every view x every message kind once on an empty and a tiny body
            for msg in ["req", "resp", "tcp", "udp", "ws_text", "ws_bin", "dnsmsg"]:
                for d in (b"", b"\x1b\x9b"):
                    yield {"kind": "render", "view": v, "msg": msg, "data_hex": hx(d), "ctype_hex": "-", "cenc": "", "missing": 0, "port": 80}
        for _ in range(3 if tier == "quick" else 12):
            yield self.gen_big_dns(rng)
        for d in (b"", b"\x00", b"\x00\x01", b"\x80\x00\x00", b"\xff\xff\x00", b"\x00\x01\x00\x00\x03\x00\x02\x01\xbb\x00\x03\x00\x02\x20\xfb",
                  b"\x00\x01\x3f" + b"a" * 63 + b"\x00", b"\x00\x01\x40" + b"a" * 64 + b"\x00", b"\x00\x01\x01\xe9\x00", b"\x00\x01\x03a.b\x00",
                  b"\x00\x01\xc0\x0c", b"\x00\x01\x00\x00\x01\x00", b"\x00\x01\x00\x00\x01\x00\x05ab"):
            yield {"kind": "https", "data_hex": hx(d)}
        for d in (b"", b"\x00", b"\x01a", b"\x01a\x00", b"\x01a\x00\xff", b"\xc0\x0c", b"\x01\xe9\x00", b"\x03a.b\x00", b"\x40" + b"a" * 64 + b"\x00",
                  b"\x3f" + b"a" * 63 + b"\x00", b"\x03WWW\x07Example\x03COM\x00", b"\x02a \x01\x1b\x00"):
            yield {"kind": "name", "data_hex": hx(d)}
        for d in (b"", b"\x00\x00\x00\x00", b"\xff\xff\xff\xff", b"\x01\x02\x03", b"\x01\x02\x03\x04\x05", b"\x0a\x64\xc8\x09"):
            yield {"kind": "ip4", "data_hex": hx(d)}
        for t in ("1.2.3.4", "01.2.3.4", "1.2.3", "1.2.3.4.5", "256.1.1.1", "1.2.3.4/8", "", "0x01020304 (invalid A data)", "1.2.3.\u0664", "1.2.3.4 ",
                  "::1", "1..2.3", "1.2.3.-4", "0.0.0.0", "255.255.255.255", "1.2.3.0004", "\u0130.2.3.4", "1.2.3.4\n"):
            yield {"kind": "ip4e", "s_hex": s2h(t)}
        for d in (bytes(16), bytes(15) + b"\x01", b"\xff" * 16, bytes(10) + b"\xff\xff\x01\x02\x03\x04", bytes(12) + b"\x01\x02\x03\x04", bytes.fromhex("20010db8000000000001000000000001"),
                  bytes.fromhex("20010db8000100000000000000000001"), bytes.fromhex("00010000000000010000000000000001"), bytes.fromhex("fe800000000000000000000000000000"),
                  bytes.fromhex("00000000000000000000000000010000"), bytes.fromhex("0001000200030004000500060007000a"), bytes(15), bytes(17), b""):
            yield {"kind": "ip6", "data_hex": hx(d)}
        for t in ("::", "::1", "1::", "::ffff:1.2.3.4", "fe80::1%eth0", "fe80::1%", "1:2:3:4:5:6:7:8", "1:2:3:4:5:6:7", "1:2:3:4:5:6:7:8:9", "::1::", "1:::2", "g::1", "12345::",
                  "::1.2.3", "1.2.3.4", "", ":", ":::", "0:0:0:0:0:0:0:0", "::0:0", "2001:DB8::A", "[::1]", "::1/128", "\u0661::", "fe80::1%a%b", "::ffff:1.2.3.4%x", "1:2:3:4:5:6:1.2.3.4", "::%\x1b"):
            yield {"kind": "ip6e", "s_hex": s2h(t)}
        for d in (b"", b"\xff", b"h\xc3\xa9", b"\xed\xb2\x80", b"\xf0\x9f\x98\x80", b"\xc0\x80", b"\xe0\x80\x80", b"\xf4\x90\x80\x80", b"\xc3", b"a\xe2\x82"):
            yield {"kind": "utf8", "data_hex": hx(d)}
        while True:
            r = rng.random()
            if r < 0.012 and rng.chance(0.5):
                if rng.chance(0.6):
                    ws = [rng.pick([0, 0, 0, 1, 0xffff, 0x0db8, rng.getrandbits(16)]) for _ in range(8)]
                    d = b"".join(w.to_bytes(2, "big") for w in ws)
                    yield {"kind": "ip6", "data_hex": hx(d if rng.chance(0.95) else d[:rng.randrange(16)])}
                else:
                    parts = [rng.pick(["0", "1", "ffff", "db8", "", "00a", "12345", "g", "1.2.3.4", "A"]) for _ in range(rng.randint(1, 9))]
                    yield {"kind": "ip6e", "s_hex": s2h(":".join(parts) + rng.pick(["", "", "", "%eth0", "%", "::"]))}
            elif r < 0.012:
                if rng.chance(0.5): yield {"kind": "ip4", "data_hex": hx(rng.bytes_(rng.pick([4, 4, 4, 3, 5, 0, 16])))}
                else:
                    t = ".".join(rng.pick(["0", "1", "9", "10", "99", "100", "255", "256", "00", "", "1e", "+1", " 1", "１"]) for _ in range(rng.pick([4, 4, 4, 3, 5])))
                    yield {"kind": "ip4e", "s_hex": s2h(t)}
            elif r < 0.03:
                k = rng.randrange(3)
                if k == 0:
                    b = rng.pick(self.TXTS) if rng.chance(0.5) else bytes(rng.pick([0x41, 0x7f, 0x80, 0xbf, 0xc2, 0xc3, 0xe0, 0xed, 0xa0, 0xf0, 0xf4, 0x90, 0xff, 0x20]) for _ in range(rng.randint(1, 8)))
                    yield {"kind": "utf8", "data_hex": hx(b)}
                elif k == 1:
                    yield {"kind": "utf8e", "s_hex": s2h("".join(rng.pick(["a", "\xe9", "\u6f22", "\U0001f600", "\ud800", "\udc80", "\udcff", "\udfff", "\x00", "\x7f"]) for _ in range(rng.randint(0, 5))))}
                else:
                    d = bytearray(self._rdata(rng, 2))
                    if rng.chance(0.3) and d: d[rng.randrange(len(d))] = rng.pick([0, 1, 3, 0x2e, 0x40, 0xc0, 0xff, 0x41])
                    if rng.chance(0.1): d += b"\x00"
                    yield {"kind": "name", "data_hex": hx(bytes(d))}
            elif r < 0.08:
                d = bytearray(self._https(rng))
                if rng.chance(0.25) and d:
                    i = rng.randrange(len(d)); d[i] = rng.getrandbits(8)
                if rng.chance(0.1): d = d[:rng.randrange(len(d) + 1)]
                yield {"kind": "https", "data_hex": hx(bytes(d))}
            elif r < 0.6: yield self.gen_render(rng, views)
            elif r < (0.603 if tier == "quick" else 0.604): yield self.gen_big_dns(rng)
            else: yield self.gen_dns(rng)

    # ---------------------------------------------------------------- implementation runner
    _env = None

    def _ensure(self):
        if Check._env is None:
            from mitmproxy.test import taddons
            logging.disable(logging.CRITICAL)
            Check._env = taddons.context()
        return Check._env

    def build_render(self, case):
        from mitmproxy import http, tcp, udp, websocket, dns
        from mitmproxy.test import tflow, tutils
        from wsproto.frame_protocol import Opcode
        data = unhx(case["data_hex"]); msg = case["msg"]
        if msg in ("req", "resp", "ws_text", "ws_bin"):
            f = tflow.tflow(resp=True)
            f.server_conn.address = ("example.com", case["port"])
            if msg in ("req", "resp"):
                m = f.request if msg == "req" else f.response
                m.raw_content = None if case["missing"] else data
                if case["ctype_hex"] != "-": m.headers[b"content-type"] = unhx(case["ctype_hex"])
                if case["cenc"]: m.headers["content-encoding"] = case["cenc"]
                return m, f
            return websocket.WebSocketMessage(Opcode.TEXT if msg == "ws_text" else Opcode.BINARY, True, data), f
        if msg == "tcp":
            f = tflow.ttcpflow(); f.server_conn.address = ("example.com", case["port"]); return tcp.TCPMessage(True, data), f
        if msg == "udp":
            f = tflow.tudpflow(); f.server_conn.address = ("example.com", case["port"]); return udp.UDPMessage(True, data), f
        if msg == "dnsmsg":
            try:
                m = dns.DNSMessage.unpack(data)
            except Exception:
                m = tutils.tdnsresp()
            return m, tflow.tdnsflow(req=m)
        raise ValueError(msg)

    @staticmethod
    def hand_pack(case):
        """uncompressed RFC 1035 wire form of the case, or None if a name cannot be written"""
        def name(h):
            out = b""
            n = h2s(h)
            if n:
                for label in n.split("."):
                    try: l = label.encode("idna")
                    except Exception: return None
                    if not 0 < len(l) < 64: return None
                    out += bytes([len(l)]) + l
            return out + b"\x00"
        flags = ((0 if case["query"] else 1) << 15) | (case["op"] << 11) | (case["aa"] << 10) | (case["tc"] << 9) | (case["rd"] << 8) \
            | (case["ra"] << 7) | (case["z"] << 4) | case["rcode"]
        out = struct.pack("!HHHHHH", case["id"], flags, len(case["qs"]), len(case["an"]), len(case["ns"]), len(case["ar"]))
        for n, t, c in case["qs"]:
            w = name(n)
            if w is None: return None
            out += w + struct.pack("!HH", t, c)
        for n, t, c, ttl, d in case["an"] + case["ns"] + case["ar"]:
            w = name(n); data = unhx(d)
            if w is None or len(data) > 65535: return None
            out += w + struct.pack("!HHIH", t, c, ttl, len(data)) + data
        return out

    def gen_big_dns(self, rng, late=None):
        """LARGE messages (16-64 KiB): many records, long names, long TXT data, owner names repeated after their first
        occurrence before and AFTER byte offset 16384 (the reach of a 14-bit compression pointer)"""
        def txt(n):        # valid UTF-8 character-strings, first length byte < 0x80
            out = b""
            while n > 0:
                k = min(n, rng.randint(20, 120) if rng.chance(0.1) else rng.randint(40, 120)); out += bytes([k]) + bytes(rng.pick(b"abcxyz 0123=;.-") for _ in range(k)); n -= k + 1
            return out
        def longname(i):
            labels = [f"h{i:03d}"] + ["l" * rng.randint(1, 63) for _ in range(rng.randint(0, 3))] + ["bulk", "example", "org"]
            n = ".".join(labels)
            return n if len(n) <= 253 else f"h{i:03d}.bulk.example.org"
        early = "early.example.org"
        an, size = [], 12 + 22
        target = rng.pick([17000, 20000, 30000, 45000])
        i = 0
        while size < target and i < 400:
            nm = early if rng.chance(0.1) else longname(i)
            if rng.chance(0.75): t, d = 16, txt(rng.pick([40, 90, 200, 400, 1200]))
            else: t, d = rng.pick([(1, rng.bytes_(4)), (28, rng.bytes_(16)), (99, rng.bytes_(rng.randint(0, 300)))])
            an.append([s2h(nm), t, 1, rng.pick([0, 300, 2 ** 31]), hx(d)]); size += len(nm) + 2 + 10 + len(d); i += 1
        late = late or rng.pick(["late.example.org", "l" * 63 + ".late.example", longname(999)])
        ar = [[s2h(late), 1, 1, 300, hx(rng.bytes_(4))], [s2h(early), 1, 1, 300, hx(rng.bytes_(4))],
              [s2h(late), 1, 1, 300, hx(rng.bytes_(4))], [s2h(late), 28, 1, 300, hx(rng.bytes_(16))],
              [s2h(h2s(an[-1][0])), 16, 1, 5, hx(txt(30))], [s2h("other.example.org"), 1, 1, 300, hx(rng.bytes_(4))]]
        return {"kind": "dns", "mode": rng.pick(["dns", "udp", "tcp", "http"]), "id": rng.getrandbits(16), "query": 0, "op": 0, "aa": rng.randint(0, 1),
                "tc": 0, "rd": 1, "ra": 1, "z": 0, "rcode": 0, "qs": [[s2h(early), 16, 1]], "an": an, "ns": [], "ar": ar, "big": 1}

    def build_dns(self, case):
        from mitmproxy import dns
        def rr(l): return [dns.ResourceRecord(h2s(n), t, c, ttl, unhx(d)) for n, t, c, ttl, d in l]
        return dns.DNSMessage(id=case["id"], query=bool(case["query"]), op_code=case["op"], authoritative_answer=bool(case["aa"]),
                              truncation=bool(case["tc"]), recursion_desired=bool(case["rd"]), recursion_available=bool(case["ra"]),
                              reserved=case["z"], response_code=case["rcode"],
                              questions=[dns.Question(h2s(n), t, c) for n, t, c in case["qs"]],
                              answers=rr(case["an"]), authorities=rr(case["ns"]), additionals=rr(case["ar"]), timestamp=1.0)

    @staticmethod
    def key(m):
        return {"hdr": [m.id, m.query, m.op_code, m.authoritative_answer, m.truncation, m.recursion_desired, m.recursion_available, m.response_code],
                "z": m.reserved, "qs": [[q.name, q.type, q.class_] for q in m.questions],
                "rr": [[[r.name, r.type, r.class_, r.ttl, r.data.hex()] for r in sec] for sec in (m.answers, m.authorities, m.additionals)]}

    @staticmethod
    def msg_tie(m0):
        """whole-message tie: (driver line, expected reply) for `DNSMessage.to_json()` and `from_json(to_json())` of the real code against
        the model's toJson / fromJson over `realCodec6` (every text codec computed by the model).  None when the message is outside the
        domain the driver's codec covers: an HTTPS record (its JSON object is opaque in `DataJ`) or an ACE label in NS/CNAME/PTR rdata."""
        import copy
        from mitmproxy import dns
        rrs = list(m0.answers) + list(m0.authorities) + list(m0.additionals)
        if any(r.type == 65 or (r.type in (2, 5, 12) and b"xn--" in r.data) for r in rrs): return None
        b = lambda x: "1" if x else "0"
        toks = ["msg", str(m0.id), b(m0.query), str(m0.op_code), b(m0.authoritative_answer), b(m0.truncation), b(m0.recursion_desired),
                b(m0.recursion_available), str(m0.reserved), str(m0.response_code), str(len(m0.questions))]
        for q in m0.questions: toks += [cps(q.name), str(q.type), str(q.class_)]
        toks += [str(len(m0.answers)), str(len(m0.authorities)), str(len(m0.additionals))]
        for r in rrs: toks += [cps(r.name), str(r.type), str(r.class_), str(r.ttl), hx(r.data)]
        j = m0.to_json()
        sec = lambda l: ";".join(l) if l else "-"
        rj = lambda x: f"{cps(x['name'])}/{x['type']}/{x['class']}/{x['ttl']}/" + ("obj" if isinstance(x["data"], dict) else "s:" + cps(x["data"]))
        left = (f"id={j['id']} q={b(j['query'])} op={j['op_code']} aa={b(j['authoritative_answer'])} tc={b(j['truncation'])} rd={b(j['recursion_desired'])} "
                f"ra={b(j['recursion_available'])} rc={j['response_code']} qs={sec([cps(q['name']) + '/' + q['type'] + '/' + q['class'] for q in j['questions']])} "
                f"an={sec([rj(x) for x in j['answers']])} ns={sec([rj(x) for x in j['authorities']])} ar={sec([rj(x) for x in j['additionals']])}")
        try:
            m1 = dns.DNSMessage.from_json(copy.deepcopy(j))
            rr = lambda x: f"{cps(x.name)}/{x.type}/{x.class_}/{x.ttl}/{hx(x.data)}"
            right = (f"id={m1.id} q={b(m1.query)} op={m1.op_code} aa={b(m1.authoritative_answer)} tc={b(m1.truncation)} rd={b(m1.recursion_desired)} "
                     f"ra={b(m1.recursion_available)} z={m1.reserved} rc={m1.response_code} "
                     f"qs={sec([cps(q.name) + '/' + str(q.type) + '/' + str(q.class_) for q in m1.questions])} "
                     f"an={sec([rr(x) for x in m1.answers])} ns={sec([rr(x) for x in m1.authorities])} ar={sec([rr(x) for x in m1.additionals])}")
        except Exception:
            right = "raise"
        return [" ".join(toks), left + " | " + right]

    @staticmethod
    def prim_dec(r):
        """result of the type-specific decoder used by ResourceRecord._data_json: ('s', text) | ('obj', json) | None"""
        from mitmproxy.net.dns import https_records
        try:
            if r.type == 1: return ("s", str(r.ipv4_address))
            if r.type == 28: return ("s", str(r.ipv6_address))
            if r.type in (2, 5, 12): return ("s", r.domain_name)
            if r.type == 16: return ("s", r.text)
            if r.type == 65: return ("obj", https_records.unpack(r.data).to_json())
        except Exception:
            return None
        return None

    @staticmethod
    def prim_enc(t, j):
        """result of the type-specific setter used by ResourceRecord.from_json: bytes | None (raised)"""
        from mitmproxy import dns
        from mitmproxy.net.dns import https_records
        from ipaddress import IPv4Address, IPv6Address
        r = dns.ResourceRecord("x", t, 1, 0, b"")
        try:
            if t == 1: r.ipv4_address = IPv4Address(j)
            elif t == 28: r.ipv6_address = IPv6Address(j)
            elif t in (2, 5, 12): r.domain_name = j
            elif t == 16: r.text = j
            elif t == 65: r.data = https_records.pack(dns.HTTPSRecord.from_json(j))
            else: return None
        except Exception:
            return None
        return r.data

    TIMEOUT = 20      # seconds; "returns text" also means: returns
    case_timeout = 150

    def on_timeout(self, case):
        # the inner guard in impl() normally fires first; this is the runner-level fallback
        return [f"content view did not return within {self.case_timeout} s ({case.get('view')!r}, {case.get('msg')})"]

    def impl(self, case):
        # a wall-clock limit turns a view that never returns into an observation; on a loaded machine a starved worker can
        # exceed it without any hang, so a timeout is only reported when a second attempt with four times the limit times out too
        obs = self._impl_limited(case, self.TIMEOUT)
        if "did not return within" in str(obs.get("exc") or "") and not Check._confirmed_hang:
            obs = self._impl_limited(case, 4 * self.TIMEOUT)
            if "did not return within" in str(obs.get("exc") or ""):
                Check._confirmed_hang = True      # a real hang exists: later timeouts (shrinking) are taken at the short limit
        Check._last = (json.dumps(case, sort_keys=True), obs)
        return obs

    _confirmed_hang = False

    def _impl_limited(self, case, limit):
        import signal

        def on_alarm(*a):
            raise BaseException("view did not return within %d s" % limit)
        old = signal.signal(signal.SIGALRM, on_alarm)
        signal.setitimer(signal.ITIMER_REAL, limit)
        try:
            obs = self._impl(case)
        except BaseException as e:
            if "did not return within" not in str(e): raise
            obs = {"exc": "Timeout: " + str(e), "stage": "timeout", "orig": None, "hang": 1}
        finally:
            signal.setitimer(signal.ITIMER_REAL, 0)
            signal.signal(signal.SIGALRM, old)
        return obs

    def _impl(self, case):
        from mitmproxy import contentviews, dns, http, tcp, udp
        from mitmproxy.contentviews import _utils
        from mitmproxy.net.dns import types, classes, op_codes, response_codes
        from mitmproxy.test import tflow
        from common.check import Skip
        self._ensure()
        kind = case["kind"]
        if kind == "table":
            rows = scan_prettify(inspect.getsource(contentviews.prettify_message))
            return {"table": f"returns={len(rows)} raw={sum(1 for _, k in rows if k == 'raw')} types={len(types._STRINGS)} classes={len(classes._STRINGS)} "
                             f"ops={len(op_codes._STRINGS)} rcodes={len(response_codes._STRINGS)}",
                    "raw": [a for a, k in rows if k == "raw"]}
        if kind == "utf8":
            data = unhx(case["data_hex"])
            try: t = data.decode("utf-8")
            except UnicodeDecodeError: return {"tie": "none"}
            try: back = hx(t.encode("utf-8"))
            except UnicodeEncodeError: back = "raise"
            return {"tie": f"{cps(t)} {back}"}
        if kind == "ip4":
            from ipaddress import IPv4Address
            try: t = str(IPv4Address(unhx(case["data_hex"])))
            except ValueError: return {"tie": "none"}
            try: back = hx(IPv4Address(t).packed)
            except ValueError: back = "raise"
            return {"tie": f"{cps(t)} {back}"}
        if kind == "ip6":
            from ipaddress import IPv6Address
            try: t = str(IPv6Address(unhx(case["data_hex"])))
            except ValueError: return {"tie": "none"}
            try: back = hx(IPv6Address(t).packed)
            except ValueError: back = "raise"
            return {"tie": f"{cps(t)} {back}"}
        if kind == "ip6e":
            from ipaddress import IPv6Address
            try: return {"tie": hx(IPv6Address(h2s(case["s_hex"])).packed)}
            except ValueError: return {"tie": "raise"}
        if kind == "ip4e":
            from ipaddress import IPv4Address
            try: return {"tie": hx(IPv4Address(h2s(case["s_hex"])).packed)}
            except ValueError: return {"tie": "raise"}
        if kind == "utf8e":
            try: return {"tie": hx(h2s(case["s_hex"]).encode("utf-8"))}
            except UnicodeEncodeError: return {"tie": "raise"}
        if kind == "name":
            from mitmproxy.net.dns import domain_names
            data = unhx(case["data_hex"])
            if b"xn--" in data: raise Skip()          # ACE labels: Python's idna codec, a parameter of the model
            try: n = domain_names.unpack(data)
            except Exception: return {"tie": "none"}
            try: back = hx(domain_names.pack(n))
            except Exception: back = "raise"
            return {"tie": f"{cps(n)} {back}"}
        if kind == "https":
            from mitmproxy.net.dns import https_records
            data = unhx(case["data_hex"])
            # is the TargetName inside the domain the model's ASCII name codec covers (no ACE label)?
            off, ace = 2, False
            while off < len(data) and 0 < data[off] < 64 and off + 1 + data[off] <= len(data):
                lab = data[off + 1: off + 1 + data[off]]
                if all(b < 128 and b != 0x2e for b in lab) and lab[:4].lower() == b"xn--": ace = True
                if not all(b < 128 and b != 0x2e for b in lab): break
                off += 1 + data[off]
            if ace: return {"https": "skip", "ok": True}
            try:
                r = https_records.unpack(data)
            except Exception:
                return {"https": "err", "ok": True}
            j = r.to_json()
            ps = ";".join(f"{k}:{hx(v.encode('ascii'))}" for k, v in j.items() if k not in ("target_name", "priority"))
            try:
                back = https_records.pack(dns.HTTPSRecord.from_json(dict(j)))
                bk = hx(back)
            except Exception:
                back, bk = None, "raise"
            return {"https": f"pri={j['priority']} name={cps(j['target_name'])} params={ps or '-'} back={bk}", "ok": back == data}
        if kind == "sym":
            n = case["n"]; out = {}
            for nm, mod in (("type", types), ("class", classes), ("op", op_codes), ("rcode", response_codes)):
                s = mod.to_str(n)
                try: back = mod.from_str(s)
                except Exception as e: back = "exc:" + type(e).__name__
                out[nm] = [cps(s), back]
            return out
        if kind == "render":
            message, flow = self.build_render(case)
            obs = {"exc": None}
            try:
                res = contentviews.prettify_message(message, flow, case["view"])
                obs.update({"text": cps(res.text), "view_name": res.view_name, "is_str": isinstance(res.text, str)})
                res2 = contentviews.prettify_message(message, flow, case["view"])      # HISTORY: rendered a second time
                obs["bad2"] = bad_chars(res2.text) if isinstance(res2.text, str) else [-1]
            except BaseException as e:  # property: "returns text without raising"
                obs["exc"] = type(e).__name__ + ": " + str(e)[:120]
                return obs
            # the inputs of the model: what the pieces prettify_message combines evaluate to
            data, enc = _utils.get_data(message)
            if data is None:
                obs["parts"] = {"missing": 1}
                return obs
            md = _utils.make_metadata(message, flow)
            view = contentviews.registry.get_view(data, md, case["view"])
            try:
                vt, raised = view.prettify(data, md), 0
            except Exception:
                vt, raised = "", 1
            obs["parts"] = {"missing": 0, "auto": int(case["view"] == "auto"), "raised": raised, "vt": cps(vt),
                            "rawt": cps(contentviews.raw.prettify(data, md)), "name": cps(view.name)}
            return obs
        if kind == "dns":
            # the wire form is packed by hand here (uncompressed, no mitmproxy code), so that a defect in
            # DNSMessage.packed cannot hide itself by corrupting the input of the experiment
            wire = self.hand_pack(case)
            if wire is None or len(wire) > 65535: raise Skip()
            try:
                m = self.build_dns(case); m0 = dns.DNSMessage.unpack(wire)
            except Exception: raise Skip()
            if self.key(m0)["rr"] != self.key(m)["rr"] or self.key(m0)["hdr"] != self.key(m)["hdr"]:
                raise Skip()       # mitmproxy.dns does not decode this wire form to the intended records (C25/C26, IDNA)
            # C25/C26: rdata with pointer-like bytes that mitmproxy.dns rewrites on a further pack/unpack is not C50's subject
            try:
                again = self.key(dns.DNSMessage.unpack(m0.packed))["rr"]
                for so, sb in zip(self.key(m0)["rr"], again):
                    for ro, rb in zip(so, sb):
                        if ro[:4] == rb[:4] and ro[4] != rb[4] and any(b >= 0xC0 for b in bytes.fromhex(ro[4])): raise Skip()
            except Skip: raise
            except Exception: pass
            mode = case["mode"]
            f = tflow.tdnsflow(req=m0)
            if mode == "dns": msg = m0
            elif mode == "udp": msg = udp.UDPMessage(True, wire)
            elif mode == "tcp": msg = tcp.TCPMessage(True, struct.pack("!H", len(wire)) + wire)
            else:
                hf = tflow.tflow(resp=True); hf.response.content = struct.pack("!H", len(wire)) + wire
                hf.response.headers["content-type"] = "application/dns-message"; msg, f = hf.response, hf
            obs = {"orig": self.key(m0), "exc": None, "stage": "prettify"}
            try:
                res = contentviews.prettify_message(msg, f, "dns")
                obs["text"] = cps(res.text); obs["bad"] = bad_chars(res.text)
                if res.text.startswith("Couldn't parse as"):
                    obs["stage"] = "prettify-error"; obs["err"] = res.text[-300:]; return obs
                obs["stage"] = "reencode"
                back = contentviews.reencode_message(res.text, msg, f, "dns")
                if mode in ("tcp", "http"):
                    if back[:2] != struct.pack("!H", len(back) - 2): obs["stage"] = "length-prefix"; return obs
                    back = back[2:]
                obs["stage"] = "decode"
                obs["back"] = self.key(dns.DNSMessage.unpack(back)); obs["stage"] = "done"
                # HISTORY: the same unedited rendering re-encoded again (and rendered again) must give the same message again
                try:
                    again = contentviews.reencode_message(res.text, msg, f, "dns")
                    res2 = contentviews.prettify_message(msg, f, "dns")
                    again2 = contentviews.reencode_message(res2.text, msg, f, "dns")
                    strip = (lambda b: b[2:]) if mode in ("tcp", "http") else (lambda b: b)
                    obs["again"] = "same" if strip(again) == back and strip(again2) == back else "differs"
                except Exception as e2:
                    obs["again"] = "raised " + type(e2).__name__ + ": " + str(e2)[:120]
            except Exception as e:
                obs["exc"] = type(e).__name__ + ": " + str(e)[:160]
            # model inputs per record: primitive decoder / setter results and what the code computed
            recs = []
            for r in list(m0.answers) + list(m0.authorities) + list(m0.additionals):
                dj = r._data_json()
                pd = self.prim_dec(r)
                pe = self.prim_enc(r.type, dj) if r.type in NAMED else None
                try: bk = dns.ResourceRecord.from_json(r.to_json()).data.hex() or "-"
                except Exception: bk = "raise"
                recs.append({"t": r.type, "data": hx(r.data), "tn": cps(types.to_str(r.type)),
                             "dec": "none" if pd is None else ("obj" if pd[0] == "obj" else "s:" + cps(pd[1])),
                             "dj": "obj" if isinstance(dj, dict) else "s:" + cps(dj),
                             "enc": "none" if pe is None else "b:" + hx(pe), "back": bk})
            obs["recs"] = recs
            obs["msg"] = self.msg_tie(m0)
            obs["diffs"] = [list(x) for x in self.dns_diffs(case, obs)]     # classified once, here
            return obs
        raise ValueError(kind)

    # ---------------------------------------------------------------- oracle
    def dns_diffs(self, case, obs):
        """(finding-id-or-None, description) for every way the decoded re-encoding differs from the original"""
        if "diffs" in obs: return [tuple(x) for x in obs["diffs"]]
        o, b = obs["orig"], obs.get("back")
        out = []
        if b is None:
            return [(None, f"DNS view round trip stopped at stage {obs['stage']}: {obs.get('exc') or obs.get('err')}")]
        if o["hdr"] != b["hdr"]: out.append((None, f"header fields differ: {o['hdr']} -> {b['hdr']}"))
        if o["z"] != b["z"]:
            out.append(("F-C50a" if o["z"] != 0 and b["z"] == 0 else None, f"reserved (Z) bits {o['z']} -> {b['z']}"))
        if o["qs"] != b["qs"]: out.append((None, f"questions differ: {o['qs']} -> {b['qs']}"))
        for so, sb in zip(o["rr"], b["rr"]):
            if len(so) != len(sb): out.append((None, "record count differs")); continue
            for ro, rb in zip(so, sb):
                if ro == rb: continue
                fid = None
                if ro[:4] == rb[:4]:
                    fid = self.classify_data_diff(ro, rb)
                out.append((fid, f"record {ro} -> {rb}"))
        return out

    # --- classifiers of the recorded findings: each returns its id only for (input in the recorded class) AND
    # --- (observed re-encoded data == the data the recorded mechanism predicts); anything else stays unexcused.
    @staticmethod
    def classify_data_diff(ro, rb):
        t, data, back = ro[1], bytes.fromhex(ro[4]), bytes.fromhex(rb[4])
        # F-C50b: NS/CNAME/PTR/TXT rdata the type-specific decoder rejects comes back as the bytes of the marker string
        if t in LOOSE and Check._undecodable(t, data):
            marker = f"0x{data.hex()} (invalid {NAMED[t]} data)".encode("ascii")
            if t == 16: expect = marker
            else: expect = (bytes([len(marker)]) + marker + b"\x00") if len(marker) < 64 else None   # one label (no dot in the marker)
            return "F-C50b" if expect is not None and back == expect else None
        if Check._undecodable(t, data) or t not in NAMED:
            return None
        # F-C50c / F-C50d: the YAML text pipeline alone (no DNS code) already alters this record's JSON data, and the
        # re-encoded data is exactly what that altered JSON encodes to
        if not Check._yaml_alters_json(ro):
            return None
        pred_c = Check._yaml_predict(ro, escape=True)
        pred_d = Check._yaml_predict(ro, escape=False)
        has_nel = t == 16 and "\x85" in data.decode("utf-8")
        if has_nel:
            return "F-C50c" if pred_c is not None and pred_c != data and back == pred_c else None
        if pred_d is not None and pred_d != data and back == pred_d and pred_c == pred_d:
            return "F-C50d"
        return None

    @staticmethod
    def _yaml_alters_json(ro):
        """JSON-level fact: dumping and loading (with the final escaping) this record's JSON form changes its `data` value"""
        from mitmproxy import dns
        from mitmproxy.contentviews._utils import yaml_dumps, yaml_loads
        from mitmproxy.utils import strutils
        j = dns.ResourceRecord(ro[0], ro[1], ro[2], ro[3], bytes.fromhex(ro[4])).to_json()
        try:
            return yaml_loads(strutils.escape_control_characters(yaml_dumps({"answers": [j]})))["answers"][0]["data"] != j["data"]
        except Exception:
            return True

    @staticmethod
    def _yaml_predict(ro, escape):
        """rdata that results when ONLY the YAML library (and, with escape, prettify_message's final escaping) handles
        this record's JSON form at the nesting it has in the DNS view; None if that pipeline raises"""
        from mitmproxy import dns
        from mitmproxy.contentviews._utils import yaml_dumps, yaml_loads
        from mitmproxy.utils import strutils
        j = dns.ResourceRecord(ro[0], ro[1], ro[2], ro[3], bytes.fromhex(ro[4])).to_json()
        try:
            text = yaml_dumps({"answers": [j]})
            if escape: text = strutils.escape_control_characters(text)
            d = yaml_loads(text)["answers"][0]["data"]
            if ro[1] == 16: return d.encode("utf-8") if isinstance(d, str) else None
            return dns.ResourceRecord.from_json({**j, "data": d}).data
        except Exception:
            return None

    @staticmethod
    def _undecodable(t, data):
        from mitmproxy import dns
        return Check.prim_dec(dns.ResourceRecord("x", t, 1, 0, data)) is None

    def oracle(self, case, obs):
        kind = case["kind"]
        if kind == "table":
            return []        # a raw return breaks `prettify_returns_escaped`; the failing rendering itself is what gets reported
        if kind in ("utf8", "utf8e", "name", "ip4", "ip4e", "ip6", "ip6e"):
            return []        # tie only: transcriptions of the TXT and name codecs against the real functions
        if kind == "https":
            # record-level reading of "re-encoding ... yields ... the same ... records": rdata the HTTPS decoder accepts must be
            # restored by to_json -> from_json -> pack
            return [] if obs["ok"] else [f"HTTPS rdata {case['data_hex']} is decoded but re-encoded differently: {obs['https']}"]
        if kind == "sym":
            return []        # symbol names are only tied to the model (their round trip is part of the DNS oracle)
        if kind == "render":
            # "rendering it with any content view, chosen automatically or explicitly, returns text without raising, and that
            #  text contains no control characters other than tab, newline and carriage return."
            if obs["exc"]: return [f"prettify_message raised {obs['exc']} (view {case['view']!r}, {case['msg']})"]
            if not obs["is_str"]: return ["prettify_message returned a non-str text"]
            t = "".join(chr(int(x)) for x in obs["text"].split(",")) if obs["text"] != "-" else ""
            bad = bad_chars(t) or obs.get("bad2", [])
            return [f"view {obs['view_name']!r} ({case['view']!r}, {case['msg']}) text contains control characters {[hex(b) for b in bad[:5]]}"] if bad else []
        # "Re-encoding an unedited DNS-view rendering of a DNS message yields a message with the same header fields,
        #  questions and records as the original."
        if obs.get("hang"): return [f"DNS view did not return: {obs['exc']}"]
        fails = [d for _, d in self.dns_diffs(case, obs)]
        if obs.get("again", "same") != "same":
            fails.append(f"re-encoding the same unedited DNS-view rendering a second time: {obs['again']}")
        if obs.get("bad"): fails.append(f"DNS view text contains control characters {[hex(b) for b in obs['bad'][:5]]}")
        return fails

    def known(self, case, obs, failure):
        if case["kind"] != "dns" or obs.get("hang") or "orig" not in obs: return None
        for fid, d in self.dns_diffs(case, obs):
            if d == failure: return fid
        return None

    # ---------------------------------------------------------------- model tie
    # The model's inputs are intermediate values of the implementation run (what the chosen view returned, what the
    # codec primitives returned), so impl() leaves its observable in a one-slot cache that model_lines() reads: the runner
    # always calls impl(case) immediately before model_lines(case) in the same process.
    _last = (None, None)

    def model_lines(self, case):
        key = json.dumps(case, sort_keys=True)
        if Check._last[0] != key:
            Check._last = (key, self.impl(case))
        return self.lines_for(case, Check._last[1])

    def model_obs(self, case, replies):
        return list(replies)

    def impl_view(self, case, obs):
        return self.expect_for(case, obs)

    def lines_for(self, case, obs):
        kind = case["kind"]
        if kind == "table": return ["table"]
        if kind == "sym": return [f"sym {nm} {case['n']}" for nm in ("type", "class", "op", "rcode")]
        if kind == "https": return [f"https {case['data_hex']}"]
        if kind in ("utf8", "name", "ip4", "ip6"): return [f"{kind} {case['data_hex']}"]
        if kind in ("utf8e", "ip4e", "ip6e"): return [f"{kind} {cps(h2s(case['s_hex']))}"]
        if kind == "render":
            if obs.get("exc") or "parts" not in obs: return None
            p = obs["parts"]
            if p["missing"]: return ["pm 1 0 0 - - -"]
            return [f"pm 0 {p['auto']} {p['raised']} {p['vt']} {p['rawt']} {p['name']}"]
        if kind == "dns":
            if obs.get("hang"): return None
            ls = []
            for r in obs.get("recs", []):
                ls.append(f"dj {r['t']} {r['data']} {r['dec']} {r['tn']}")
                ls.append(f"dd {r['t']} {r['dj']} {r['enc']}")
            if obs.get("msg"): ls.append(obs["msg"][0])
            return ls or None
        return None

    def expect_for(self, case, obs):
        kind = case["kind"]
        if kind == "table": return [obs["table"]]
        if kind == "sym": return [f"{obs[nm][0]} {obs[nm][1]}" for nm in ("type", "class", "op", "rcode")]
        if kind == "https": return [obs["https"]]
        if kind in ("utf8", "utf8e", "name", "ip4", "ip4e", "ip6", "ip6e"): return [obs["tie"]]
        if kind == "render":
            p = obs["parts"]
            if p["missing"] or not (p["raised"] and not p["auto"]): return ["full " + obs["text"]]
            # explicit view raised: the traceback text is not modelled, the tie compares the fixed head of the error text
            t = "".join(chr(int(x)) for x in obs["text"].split(","))
            n = len("Couldn't parse as ") + (0 if p["name"] == "-" else p["name"].count(",") + 1) + 2
            return ["head " + cps(t[:n])]
        if kind == "dns":
            out = []
            for r in obs["recs"]:
                out.append(r["dj"]); out.append("raise" if r["back"] == "raise" else "ok " + r["back"])
            if obs.get("msg"): out.append(obs["msg"][1])
            return out

    def classify(self, case, obs):
        if case["kind"] in ("table", "sym", "https", "utf8", "utf8e", "name", "ip4", "ip4e", "ip6", "ip6e"): return json.dumps(case, sort_keys=True)
        if case["kind"] == "render": return json.dumps(case, sort_keys=True) if case["data_hex"] != "-" else None
        return json.dumps(case, sort_keys=True)

    def branches(self, case, obs):
        k = case["kind"]
        if k in ("table", "sym"): return [k]
        if k in ("utf8", "utf8e", "name", "ip4", "ip4e", "ip6", "ip6e"): return ["codec-tie:" + k, f"codec-tie:{k}:" + ("none" if obs["tie"] in ("none", "raise") else "ok")]
        if k == "https": return ["https", "https:" + obs["https"].split("=")[0].split(" ")[0]]
        if k == "render":
            out = ["render", "msg:" + case["msg"], "view:" + (case["view"] if case["view"] in self._views() else "<unknown>")]
            if obs.get("parts"):
                p = obs["parts"]
                out.append("pm:missing" if p["missing"] else f"pm:auto{p['auto']}-raised{p['raised']}")
            if obs.get("view_name"): out.append("rendered-by:" + str(obs["view_name"]))
            return out
        if obs.get("hang"): return ["dns", "hang"]
        out = ["dns", "dns-mode:" + case["mode"], "dns-stage:" + obs["stage"]]
        if case.get("big"): out.append("dns-big(>16KiB)")
        for fid, _ in self.dns_diffs(case, obs):
            out.append("dns-diff:" + (fid or "UNKNOWN"))
        if obs["stage"] == "done" and obs["orig"] == obs["back"]: out.append("dns-roundtrip-ok")
        for r in obs.get("recs", []): out.append(f"rr:{NAMED.get(r['t'], 'other')}:{'dec' if r['dec'] != 'none' else 'nodec'}")
        out.append("msg-tie:" + ("yes" if obs.get("msg") else "outside-domain"))
        return out

    def neighbours(self, case, rng):
        if case["kind"] == "render":
            for v in self._views():
                c = dict(case); c["view"] = v; yield c
            for m in ["req", "resp", "tcp", "udp", "ws_text", "ws_bin", "dnsmsg"]:
                c = dict(case); c["msg"] = m; yield c
        elif case["kind"] == "dns":
            for mode in ("dns", "udp", "tcp", "http"):
                c = dict(case); c["mode"] = mode; yield c

    def exhaustive(self, tier):
        from common.prng import Rng
        rng = Rng(5050); views = self._views()
        for v in views:
            for _ in range(40):
                c = self.gen_render(rng, views); c["view"] = v; yield c
        for _ in range(6): yield self.gen_big_dns(rng)
        for _ in range(2000): yield self.gen_dns(rng)
