"""C51 — escaped binary text converts back to the same bytes (mitmproxy/utils/strutils.py)."""
import itertools, warnings
from common.check import PropertyCheck, hx, unhx
from mitmproxy.utils import strutils

warnings.simplefilter("ignore", DeprecationWarning)
ESC_ALPHABET = b"\\'\"xnrtbfva0178 9Ag\n\t\r\x00\x7f\xff\xc3\xa9"


class Check(PropertyCheck):
    prop = "C51"
    design_ref = "§5 C51"
    level_text = ("Lean theorems roundtrip / output_clean / output_no_control / enc_injective / enc_append / edit_roundtrip about the per-byte model of "
                  "bytes_to_escaped_str and the codecs.escape_decode model, for ALL byte strings and the four option "
                  "pairs (induction over the string); model tied to the code by exhaustive comparison on all strings "
                  "of length <= 2 (x4 options) plus random long strings, and the decoder on random escape soups.")
    level_note = ("trusted: Lean kernel; the model/implementation tie is differential (exhaustive <=2 bytes, random "
                  "beyond); Python's repr()/re/codecs.escape_decode are the modelled primitives.")
    technique = "Lean 4 proof (induction over bytes) + exhaustive/random model-vs-code correspondence"
    rule = ("enc cases: every byte string of length <=2 under each (keep_spacing, escape_single_quotes) pair, then "
            "random strings of length <=64 biased to quotes/backslashes/controls; dec cases: random texts over an "
            "escape-heavy alphabet. distinct = distinct (op, options, input); non-trivial = input non-empty.")
    budget = {"quick": 40000, "thorough": 1500000}
    time_budget = {"quick": 40, "thorough": 500}
    fingerprints = ["mitmproxy.utils.strutils:bytes_to_escaped_str", "mitmproxy.utils.strutils:escaped_str_to_bytes"]
    trusted_base = ["CPython repr(bytes), re.sub and codecs.escape_decode as the primitives the model transcribes"]
    parallel = True

    def generate(self, rng, tier):
        # exhaustive small scope first (quick: all 1-byte strings + a slice of 2-byte; thorough: all <=2)
        opts = [(k, q) for k in (0, 1) for q in (0, 1)]
        for k, q in opts:
            yield {"op": "enc", "k": k, "q": q, "data_hex": "-"}
            for a in range(256):
                yield {"op": "enc", "k": k, "q": q, "data_hex": hx(bytes([a]))}
        special = [0x5c, 0x27, 0x22, 9, 10, 13, 0, 0x1f, 0x20, 0x7e, 0x7f, 0x80, 0xff, 0x6e, 0x78]
        pairs = itertools.product(range(256), repeat=2) if tier == "thorough" else \
            ((a, b) for a in special for b in range(256))
        for a, b in pairs:
            for k, q in opts:
                yield {"op": "enc", "k": k, "q": q, "data_hex": hx(bytes([a, b]))}
        if tier == "thorough":
            alpha = bytes(special) + b"A0"
            for t in itertools.product(alpha, repeat=3):
                for k, q in opts:
                    yield {"op": "enc", "k": k, "q": q, "data_hex": hx(bytes(t))}
        while True:
            if rng.chance(0.6):
                n = rng.randint(1, 64)
                b = bytes(rng.pick(special) if rng.chance(0.5) else rng.getrandbits(8) for _ in range(n))
                yield {"op": "enc", "k": rng.randint(0, 1), "q": rng.randint(0, 1), "data_hex": hx(b)}
            else:
                n = rng.randint(1, 12)
                yield {"op": "dec", "data_hex": hx(bytes(rng.pick(ESC_ALPHABET) for _ in range(n)))}

    def impl(self, case):
        data = unhx(case["data_hex"])
        if case["op"] == "enc":
            s = strutils.bytes_to_escaped_str(data, bool(case["k"]), bool(case["q"]))
            try:
                back = hx(strutils.escaped_str_to_bytes(s))
            except ValueError:
                back = "err"
            enc = s.encode("utf-8", "surrogatepass")
            return {"text_hex": hx(enc), "back": back}
        text = self._text(data)
        try:
            return {"dec": "ok " + hx(strutils.escaped_str_to_bytes(text)), "text_hex": hx(text.encode())}
        except ValueError:
            return {"dec": "err", "text_hex": hx(text.encode())}

    def oracle(self, case, obs):
        if case["op"] != "enc": return []
        fails = []
        if obs["back"] != case["data_hex"]:
            fails.append(f"round trip: {case['data_hex']} -> text {obs['text_hex']} -> {obs['back']}")
        keep = {9, 10, 13} if case["k"] else set()
        bad = [c for c in unhx(obs["text_hex"]) if not (0x20 <= c <= 0x7e or c in keep)]
        if bad:
            fails.append(f"escaped text contains raw control/non-ASCII bytes {bad[:4]}")
        return fails

    def model_lines(self, case):
        if case["op"] == "enc":
            return [f"enc {case['k']} {case['q']} {case['data_hex']}"]
        return [f"dec {hx(self._text(unhx(case['data_hex'])).encode())}"]

    @staticmethod
    def _text(data):
        try:
            return data.decode("utf-8")
        except UnicodeDecodeError:
            return data.decode("latin-1")

    def model_obs(self, case, replies):
        return replies[0]

    def impl_view(self, case, obs):
        return obs["text_hex"] if case["op"] == "enc" else obs["dec"]

    def classify(self, case, obs):
        return None if case["data_hex"] == "-" else (case["op"], case.get("k"), case.get("q"), case["data_hex"])

    def branches(self, case, obs):
        if case["op"] == "dec": return ["dec:" + obs["dec"][:3]]
        d = unhx(case["data_hex"])
        out = [f"enc:k{case['k']}q{case['q']}"]
        if any(c < 0x20 or c > 0x7e for c in d): out.append("enc:has-escape")
        if 0x5c in d: out.append("enc:has-backslash")
        if 0x27 in d: out.append("enc:has-quote")
        return out

    def neighbours(self, case, rng):
        d = unhx(case["data_hex"])
        for i in range(len(d)):
            for v in (0x5c, 0x27, 0x0a, 0x00, 0xff):
                for k in (0, 1):
                    for q in (0, 1):
                        yield {"op": "enc", "k": k, "q": q, "data_hex": hx(d[:i] + bytes([v]) + d[i + 1:])}

    def exhaustive(self, tier):
        for n in (1, 2):
            for t in itertools.product(range(256), repeat=n):
                for k in (0, 1):
                    for q in (0, 1):
                        yield {"op": "enc", "k": k, "q": q, "data_hex": hx(bytes(t))}
