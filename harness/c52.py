"""C52 — server replay serves recorded responses only to matching requests, in order
(mitmproxy/addons/serverplayback.py)."""
import collections, itertools, json, logging, urllib.parse, warnings
from common.check import PropertyCheck, Skip, hx

from mitmproxy import http
from mitmproxy.addons import serverplayback
from mitmproxy.flow import Error
from mitmproxy.net.http import multipart
from mitmproxy.net.http import headers as mhdrs
from mitmproxy.test import taddons, tflow

warnings.simplefilter("ignore", DeprecationWarning)

HASH_KEYS = ["ignore_content", "ignore_host", "ignore_port", "ignore_params", "ignore_payload_params", "use_headers"]
MP_CT = "multipart/form-data; boundary=XX"


logging.disable(logging.CRITICAL)      # the addon only logs warnings about unmatched requests
_TCTX = None


class addon_context:
    """registers the addon with one long-lived taddons master per process (creating a master per case costs more
    than the case) and removes it again; `ctx.options` / `ctx.master` are that master's"""
    def __init__(self, addon): self.addon = addon
    def __enter__(self):
        global _TCTX
        if _TCTX is None: _TCTX = taddons.context()
        _TCTX.master.addons.add(self.addon)
        return _TCTX
    def __exit__(self, *a):
        _TCTX.master.addons.remove(self.addon)
        return False


def hashopts(o):
    return {"server_replay_" + k: (list(o[k]) if isinstance(o[k], list) else bool(o[k])) for k in HASH_KEYS}


# Content-Disposition spellings of one multipart part; (name, value, style).  CLEAR styles: RFC 7578 and every decoder
# agree on whether the part is a form field and what its name is.  UNCLEAR styles: legal, but mitmproxy's decoder is known
# to overlook them (unquoted token, name*=, upper-case parameter name, Content-Disposition not the first header) — how they
# are decoded is the multipart property's business; for replay only "identical parts are treated identically" is demanded.
CD_STYLES = {
    0: lambda n, fn: 'form-data; name="%s"' % n,
    1: lambda n, fn: 'form-data; filename="%s"; name="%s"' % (fn, n),          # filename BEFORE name
    2: lambda n, fn: 'form-data; name="%s"; filename="%s"' % (n, fn),
    3: lambda n, fn: 'form-data; x-note="%s"; name="%s"; size=3' % (fn, n),    # extra parameters around it
    4: lambda n, fn: 'form-data; filename="%s"' % fn,                           # no name at all: not a form field
    5: lambda n, fn: 'form-data; name=%s' % n,                                  # UNCLEAR: unquoted token
    6: lambda n, fn: "form-data; name*=UTF-8''%s; filename=\"%s\"" % (n, fn),     # UNCLEAR: extended parameter only
    7: lambda n, fn: 'form-data; Name="%s"' % n,                                # UNCLEAR: parameter names are case-insensitive
    8: lambda n, fn: 'form-data; name="%s"' % n,                                # UNCLEAR: another header comes first
}
UNCLEAR = {5, 6, 7, 8}


def raw_multipart(parts):
    out = []
    for n, v, st, fn in parts:
        cd = "Content-Disposition: " + CD_STYLES[st](n, fn)
        hdrs = ["Content-Type: text/plain", cd] if st == 8 else [cd, "Content-Type: text/plain"]
        out.append("--XX\r\n" + "\r\n".join(hdrs) + "\r\n\r\n" + v + "\r\n")
    return ("".join(out) + "--XX--\r\n").encode()


def read_parts(parts):
    """INDEPENDENT reading of the described parts (from the description, not from the bytes the decoder sees):
    the form fields every reader agrees on, and the parts whose reading is unclear"""
    fields = [(n, v) for n, v, st, fn in parts if st in (0, 1, 2, 3)]
    unclear = [(st, n, v, fn) for n, v, st, fn in parts if st in UNCLEAR]
    return fields, unclear


def build_request(rq):
    """a live HTTP flow whose request is described by `rq`"""
    f = tflow.tflow()
    r = f.request
    r.method, r.scheme, r.host, r.port = rq["m"], rq["s"], rq["h"], rq["p"]
    q = "&".join(k + ("=" + v if v is not None else "") for k, v in rq["q"])
    r.path = rq["path"] + ("?" + q if rq["q"] or rq.get("qmark") else "")
    r.headers.clear()
    for k, v in rq["hdrs"]:
        r.headers.add(k, v)
    if rq.get("hh"):
        r.headers["Host"] = rq["hh"]
    kind = rq["ct"]
    if kind == "form":
        r.urlencoded_form = [tuple(p) for p in rq["form"]]
    elif kind == "multi":
        r.headers["content-type"] = MP_CT
        r.content = multipart.encode_multipart(MP_CT, [(k.encode(), v.encode()) for k, v in rq["form"]])
    elif kind == "mraw":
        r.headers["content-type"] = MP_CT
        r.content = raw_multipart(rq["parts"])
    elif kind == "none":
        r.content = None
    else:
        if kind:
            r.headers["content-type"] = kind
        r.content = bytes.fromhex(rq["body_hex"]) if rq["body_hex"] != "-" else b""
    return f


REFRESHED = {"date", "expires", "last-modified", "set-cookie"}     # what Response.refresh() may rewrite
RS_DEFAULT = {"st": 200, "hd": [["date", "Mon, 01 Jan 2001 00:00:00 GMT"]], "b": ""}
EDITS = ["body", "header", "status", "all"]


def make_response(i, rs):
    """the recorded response of recording `i` as the case describes it"""
    return http.Response.make(rs["st"], b"rec-%d-%s" % (i, rs["b"].encode()), [(k.encode(), v.encode()) for k, v in rs["hd"]])


def response_facts(resp, refresh):
    """status, body and headers of a response; with server_replay_refresh the headers refresh() may rewrite are left out
    (the only part of a served response that is allowed to differ from the recording)"""
    return (resp.status_code, bytes(resp.content or b""),
            tuple((k.lower(), v) for k, v in resp.headers.items(multi=True) if not (refresh and k.lower() in REFRESHED)))


def edit_response(resp, how):
    """what a later addon (modify_body / modify_headers / a script's response hook) does to the response it was handed"""
    if how in ("body", "all"): resp.content = b"[" + (resp.content or b"") + b"]"
    if how in ("header", "all"): resp.headers["X-R"] = "edited"; resp.headers.add("X-Edited", "1")
    if how in ("status", "all"): resp.status_code = 299


def spec_key(o, rq, fine=False):
    """The statement's matching key, computed from the description of the request (not from the code):
    method, scheme, path, query parameters not ignored, and unless ignored the host, port, body or the
    non-ignored form fields, plus the configured headers.
    fine=False: exactly that (used for "served only if the keys are equal").
    fine=True: additionally tags form fields with the kind of form (multipart / urlencoded) — the code compares
    multipart fields as bytes and urlencoded fields as str, so it never matches across kinds; requests whose
    fine keys are equal are the ones the oracle insists must be treated as matching."""
    key = [rq["m"], rq["s"], rq["path"],
           tuple((k, v or "") for k, v in rq["q"] if k not in o["ignore_params"])]
    if not o["ignore_host"]:
        hh = rq.get("hh")
        key.append(("host", hh.rsplit(":", 1)[0] if hh and ":" in hh else (hh or rq["h"])))
    if not o["ignore_port"]:
        key.append(("port", rq["p"]))
    if not o["ignore_content"] and rq["ct"] == "mraw" and o["ignore_payload_params"]:
        fields, unclear = read_parts(rq["parts"])          # at least one clear field by construction
        key.append(("multi" if fine else "form", tuple((k, v) for k, v in fields if k not in o["ignore_payload_params"]))
                   + ((tuple(unclear),) if fine else ()))
    elif not o["ignore_content"]:
        if o["ignore_payload_params"] and rq["ct"] in ("form", "multi") and rq["form"]:
            key.append((rq["ct"] if fine else "form", tuple((k, v) for k, v in rq["form"] if k not in o["ignore_payload_params"])))
        else:
            key.append(("body", raw_body(rq)))
    if o["use_headers"]:
        hs = []
        for name in o["use_headers"]:
            vals = [v for k, v in rq["hdrs"] if k.lower() == name.lower()]
            if name.lower() == "host" and rq.get("hh"): vals = [rq["hh"]]
            if name.lower() == "content-type" and rq["ct"] not in ("none", None, ""):
                vals = [{"form": "application/x-www-form-urlencoded", "multi": MP_CT}.get(rq["ct"], rq["ct"])]
            hs.append((name.lower(), ", ".join(vals) if vals else None))
        key.append(tuple(hs))
    return tuple(key)


_BODY = {}


def raw_body(rq):
    """the bytes of the described request's body (None if it has none)"""
    k = (rq["ct"], rq["body_hex"], str(rq["form"]), str(rq.get("parts")))
    if k not in _BODY:
        _BODY[k] = build_request(dict(rq, q=[], hdrs=[], hh=None)).request.raw_content
    return _BODY[k]


def eb(b):
    return bytes(b).hex() if b else "_"


def epairs(ps):
    return ",".join(eb(k) + ":" + eb(v) for k, v in ps) if ps else "-"


def _b(x):
    return x if isinstance(x, bytes) else x.encode("utf8", "surrogateescape")


def opts_fields(o):
    bits = "".join("1" if o[k] else "0" for k in ("ignore_content", "ignore_host", "ignore_port"))
    names = lambda l: ",".join(eb(_b(x)) for x in l) if l else "-"
    return [bits, names(o["ignore_params"]), names(o["ignore_payload_params"]), names(o["use_headers"])]


def boundary_of(r):
    """the boundary parameter as Request._get_multipart_form / decode_multipart obtain it (parse_content_type is fed as
    data; splitting the body at the boundary and reading the parts is done by the Lean transcription of decode_multipart)"""
    ct = r.headers.get("content-type", "")
    if "multipart/form-data" not in ct.lower(): return "N"
    try:
        return eb(mhdrs.parse_content_type(ct)[2]["boundary"].encode("ascii"))
    except (KeyError, UnicodeError, TypeError):
        return "N"


def req_fields(f):
    """the request parts as the library parsers deliver them (urlparse / parse_qsl / multipart / urlencoded / Headers)"""
    r = f.request
    _, _, path, _, query, _ = urllib.parse.urlparse(r.url)
    qs = urllib.parse.parse_qsl(query, keep_blank_values=True)
    # the raw header fields, in order: the case-insensitive lookup and the ", " folding of Headers.get are done by the
    # Lean transcription hdrGet
    hdrs = [(bytes(k), bytes(v)) for k, v in r.headers.fields]
    return [eb(_b(str(r.scheme))), eb(_b(str(r.method))), eb(_b(str(path))),
            epairs([(_b(k), _b(v)) for k, v in qs]), eb(_b(r.pretty_host)), str(r.port),
            "N" if r.raw_content is None else eb(r.raw_content),
            boundary_of(r),
            epairs([(_b(k), _b(v)) for k, v in r.urlencoded_form.items(multi=True)]),
            epairs(hdrs)]


def key_line(o, f):
    """protocol line for the Lean `keyOf`"""
    return " ".join(["key"] + opts_fields(o) + req_fields(f))


class Check(PropertyCheck):
    prop = "C52"
    design_ref = "§5 C52"
    level_text = ("Lean theorems over ALL histories (loads, adds, clears, option changes, requests) of the model of "
                  "ServerPlayback. Generic in the key function: served_only_if_keys_equal, at_most_once_without_reuse, "
                  "equal_keys_in_recording_order, reuse_serves_first, serves_first_match (served r <=> r is the first pending "
                  "recording with a response and an equal key), unmatched_as_configured, reindex_preserves_multiset, "
                  "pending_in_recording_order, never_crashes (from the invariant `every flowmap bucket = the pending recordings "
                  "with that key, in recording order`). With the real key inside the model (keyOf = transcription of the field "
                  "selection of _hash for every combination of ignore_content/host/port/params/payload_params/use_headers and "
                  "multipart/urlencoded/raw bodies): key_eq_iff_fields, agreeing_parts_same_key, content_agree_cases, "
                  "header_lookup_spec (Headers.get inside the model: case-insensitive names, folding), decode_multipart inside keyOf "
                  "as well (C34's transcription: the model reads the form fields out of the raw body), "
                  "differing_field_different_key (requests differing in a non-ignored multipart field never share a key), agreeing_request_served_next (after any history a request is served exactly the first pending recording that "
                  "has a response and agrees with it on all non-ignored parts), served_only_if_parts_agree. Tie: random "
                  "histories run through the real addon and through the model twice — once with the equality classes of the "
                  "real _hash as key function, once with the model's own keyOf on the parsed request parts (the model predicts "
                  "which requests match) — comparing every outcome, count, the buckets in dict order and the recorded list; "
                  "plus _hash vs keyOf vs the statement's field list on request pairs. served_response_is_recorded: in every "
                  "history, including edits of served copies by later addons, what is served is a recording as it was loaded.")
    level_note = ("PROOF SIDE, what it does not say (cross-audit round 6): 'unmatched requests are forwarded, killed or answered "
                  "with the configured status' holds while replay is ACTIVE; once every recording has been served the flowmap is "
                  "empty, replay is inactive, and the next request is forwarded whatever server_replay_extra says (`if self.flowmap:`; "
                  "first conjunct of unmatched_as_configured) - consistent with the statement's 'while server replay is active'. "
                  "Conjunct 1 of served_response_is_recorded (an `edit` step leaves the addon's state unchanged) is true by the "
                  "definition of `step`: the model has no write path into a recording; conjuncts 2 and 3 (what is served is a loaded "
                  "recording; the pending list only shrinks) are the proved content, and that the real addon hands out copies is "
                  "checked by the oracle against the case's description of the recorded response. ORACLE LENIENCIES (all; each tried by known_selftest on hand-written observations at every run): (a) Skip() "
                  "only for cases with dangling indices (after shrinking); (b) `served only if keys equal` uses the statement's "
                  "key, `a matching recording must be served` uses the key refined by the kind of form — requests that differ "
                  "only in multipart-vs-urlencoded representation of the same non-ignored fields may or may not match (the code "
                  "compares bytes with str); (c) whether replay is still `active` is derived from the inputs (a pending recording "
                  "with a response => active; nothing pending => inactive) and read from the addon's own count only while nothing "
                  "but response-less recordings is pending (the statement does not say whether skipped response-less recordings "
                  "are discarded); (d) which recording is served and how many remain is never compared with the previous output "
                  "alone: every pending recording with a response must be indexed, nothing else may be, count() must agree; (e) a "
                  "served response is compared with the recorded one as the case describes it (status, body, every header) — with "
                  "server_replay_refresh on, and only then, the headers Response.refresh() may rewrite (date, expires, "
                  "last-modified, set-cookie) are left out; after every event every recording must still hold its response. "
                  "trusted: SHA-256/repr injectivity on the key lists built by _hash (keyOf is the list before repr); "
                  "urllib.parse.urlparse/parse_qsl, the urlencoded decoder and parse_content_type (boundary) deliver request parts "
                  "that keyOf consumes (fed as data); decode_multipart is inside the model (C34's transcription, imported: keyOf "
                  "reads the parts out of the raw body itself); Headers.get is transcribed (hdrGet: ASCII-case-insensitive names, \", \" folding; "
                  "header_lookup_spec) and consumes the raw header fields; `host` of the statement is read as pretty_host (Host header "
                  "preferred); (f) hand-written multipart parts whose Content-Disposition is legal but known to be overlooked by "
                  "mitmproxy's decoder (unquoted name token, name*=, upper-case parameter name, Content-Disposition not the first "
                  "header) are left out of `served only if keys equal` and of the decoder-vs-independent-reader clause; identical "
                  "parts must still be treated identically; all other spellings (name first / filename first / extra parameters / "
                  "repeated names / no name) are compared with an independent reading of the described parts; "
                  "response.copy()/refresh() not modelled (only which recording is served); recordings' requests are "
                  "not mutated while loaded; the tie is differential, not a proof; the table-mode tie feeds the model the "
                  "equality classes of the real _hash by design, the keyOf-mode tie lets the model predict them.")
    technique = "Lean 4 proof (invariant induction over histories) + differential model-vs-addon correspondence"
    rule = ("hist cases: a pool of <=6 request shapes drawn from small pools of method/scheme/host/port/path/query/body/"
            "form/header values (so keys collide and near-collide), <=8 recordings (some without response, some non-HTTP), "
            "a history of <=24 load/add/clear/option-change/request events with every combination of matching options, "
            "including option changes that only re-order a list-valued option or add a duplicate name after recordings were "
            "loaded (12 % of the cases are built around one such change); recorded responses vary in status/headers/body, and "
            "after requests a later addon may edit (body / headers / status) the response a request was given (10 % of the cases "
            "serve one recording repeatedly — reuse or the same flow loaded twice — with such edits in between, refresh on/off); "
            "multipart bodies are partly written by hand with every Content-Disposition spelling, repeated and missing names and "
            "filenames that collide with the ignore lists; pair cases: two request shapes + one option set. distinct = distinct case; non-trivial = at least one request "
            "served or a pair whose keys are equal for one side only.")
    budget = {"quick": 1500, "thorough": 40000}
    time_budget = {"quick": 20, "thorough": 380}
    fingerprints = ["mitmproxy.addons.serverplayback:ServerPlayback._hash",
                    "mitmproxy.addons.serverplayback:ServerPlayback.next_flow",
                    "mitmproxy.addons.serverplayback:ServerPlayback.recompute_hashes",
                    "mitmproxy.addons.serverplayback:ServerPlayback.request",
                    "mitmproxy.addons.serverplayback:ServerPlayback.add_flows",
                    "mitmproxy.addons.serverplayback:ServerPlayback.load_flows",
                    "mitmproxy.addons.serverplayback:ServerPlayback.clear",
                    "mitmproxy.addons.serverplayback:ServerPlayback.count",
                    "mitmproxy.addons.serverplayback:ServerPlayback.configure",
                    "mitmproxy.http:Headers._kconv", "mitmproxy.http:Headers._reduce_values",
                    "mitmproxy.coretypes.multidict:_MultiDict.get_all",
                    "mitmproxy.net.http.multipart:decode_multipart", "mitmproxy.http:Request._get_multipart_form"]
    trusted_base = ["hashlib.sha256 and repr() are injective on the key lists built by _hash",
                    "urllib.parse.urlparse/parse_qsl, mitmproxy.net.http.multipart/url decoders, Headers.get"]
    parallel = False

    def setup(self, tier):
        self.parallel = False      # serial in every tier: forked pool workers occasionally dead-lock under load (60 s case time-outs)
        self.known_selftest()

    def known_selftest(self):
        """The oracle's lenient branches on hand-written observations (no addon involved): correct ones pass, ones just
        outside the excused class are rejected.  AssertionError ends the run as INFRA."""
        a = {"m": "POST", "s": "http", "h": "a.com", "p": 80, "path": "/p", "q": [], "hh": None, "ct": "form", "body_hex": "-",
             "form": [["u", "1"], ["w", "2"]], "hdrs": []}
        m = dict(a, ct="multi")                         # same fields, other kind of form
        w3 = dict(a, form=[["u", "1"], ["w", "3"]])     # differs in a non-ignored field
        o = {"ignore_content": False, "ignore_host": False, "ignore_port": False, "ignore_params": [],
             "ignore_payload_params": ["u"], "use_headers": []}
        cfg = {"reuse": False, "nopop": False, "kill_extra": False, "extra": "404", "refresh": False}
        def run(reqs, recs, events, out, want_fail):
            case = {"kind": "hist", "reqs": reqs, "recs": recs, "opts": [o], "events": events}
            fails = self.oracle(case, {"out": out})
            if want_fail is None: assert not fails, f"selftest: correct observation rejected: {fails}"
            else: assert any(want_fail in f for f in fails), f"selftest: doctored observation not rejected for `{want_fail}`: {fails}"
        R = lambda req, resp=True: {"req": req, "resp": resp, "http": True}
        ld = "cnt=1 fm=0 rec=0"
        # (1) coarse vs fine key: multipart against urlencoded fields is the only excused disagreement
        run([a, m], [R(0)], [["load", [0]], ["req", 1, cfg]], [ld, "served:0 cnt=0 fm=- rec=-"], None)          # served: fine
        run([a, m], [R(0)], [["load", [0]], ["req", 1, cfg]], [ld, "status:404 cnt=1 fm=0 rec=0"], None)        # not served: fine
        run([a, w3], [R(0)], [["load", [0]], ["req", 1, cfg]], [ld, "served:0 cnt=0 fm=- rec=-"], "matching key differs")
        run([a, dict(a)], [R(0)], [["load", [0]], ["req", 1, cfg]], [ld, "status:404 cnt=1 fm=0 rec=0"], "not served")
        # (2) "active" is read from the addon's count only while nothing but response-less recordings is pending
        run([a, w3], [R(0)], [["load", [0]], ["req", 1, cfg]], [ld, "forwarded cnt=1 fm=0 rec=0"], "configured status:404")
        run([a, w3], [R(0, False)], [["load", [0]], ["req", 1, cfg]], [ld, "status:404 cnt=1 fm=0 rec=0"], None)
        run([a, w3], [R(0, False)], [["load", [0]], ["req", 0, cfg], ["req", 1, cfg]],
            [ld, "status:404 cnt=0 fm=- rec=-", "forwarded cnt=0 fm=- rec=-"], None)
        run([a], [R(0)], [["clear"], ["req", 0, cfg]], ["cnt=0 fm=- rec=-", "status:404 cnt=0 fm=- rec=-"], "replay inactive")
        # (3) input-derived: nothing lost or duplicated, at every event (not only compared with the previous output)
        run([a], [R(0), R(0)], [["load", [0, 1]], ["conf", 0]], ["cnt=2 fm=0,1 rec=0,1", "cnt=1 fm=0 rec=0"], "re-index changed")
        run([a], [R(0), R(0)], [["load", [0, 1]]], ["cnt=1 fm=0 rec=0"], "are lost")
        run([a], [R(0)], [["load", [0]]], ["cnt=2 fm=0,0 rec=0,0"], "not pending / duplicated")
        run([a], [R(0)], [["load", [0]], ["req", 0, cfg], ["req", 0, cfg]],
            [ld, "served:0 cnt=0 fm=- rec=-", "served:0 cnt=0 fm=- rec=-"], "not (any more) among the unserved")
        # (5) multipart: a decoder that takes filename= for the name is rejected; unclear spellings are the only excuse
        mp = dict(a, ct="mraw", parts=[["w", "1", 1, "u"]]); mp2 = dict(mp, parts=[["w", "2", 1, "u"]])
        op = dict(o, ignore_payload_params=["u"])
        pr = {"kind": "pair", "a": mp, "b": mp2, "o": op}
        assert not self.oracle(pr, {"eq": False, "da": [["w", "1"]], "db": [["w", "2"]]}), "selftest: correct multipart reading rejected"
        assert any("key is computed from" in f for f in self.oracle(pr, {"eq": True, "da": [["u", "1"]], "db": [["u", "2"]]}))
        assert any("keys differ" in f for f in self.oracle(pr, {"eq": True, "da": [["w", "1"]], "db": [["w", "2"]]}))
        un = {"kind": "pair", "a": dict(mp, parts=[["w", "1", 0, "u"], ["v", "1", 5, "u"]]),
              "b": dict(mp, parts=[["w", "1", 0, "u"], ["v", "2", 5, "u"]]), "o": op}
        assert not self.oracle(un, {"eq": True, "da": [["w", "1"]], "db": [["w", "1"]]}) and \
            not self.oracle(un, {"eq": False, "da": [["w", "1"], ["v", "1"]], "db": [["w", "1"], ["v", "2"]]}), "selftest: unclear part not excused"
        # (4) the served response is the recorded one; only what refresh() may rewrite is left out, and only with refresh on
        run([a], [R(0)], [["load", [0]], ["req", 0, cfg]], [ld, "served:0!altered cnt=0 fm=- rec=-"], "is not the recorded response")
        case = {"kind": "hist", "reqs": [a], "recs": [R(0)], "opts": [o], "events": [["load", [0]], ["edit", "body", 0]]}
        assert any("no longer hold" in f for f in self.oracle(case, {"out": [ld, ld], "alt": [[], [0]]})), "selftest: altered recording accepted"
        r0 = make_response(0, RS_DEFAULT); r1 = make_response(0, RS_DEFAULT); r1.headers["date"] = "Tue, 02 Jan 2001 00:00:00 GMT"
        assert response_facts(r0, True) == response_facts(r1, True) and response_facts(r0, False) != response_facts(r1, False)
        r2 = make_response(0, RS_DEFAULT); r2.headers["X-R"] = "edited"
        assert response_facts(r0, True) != response_facts(r2, True)
        r3 = make_response(0, RS_DEFAULT); edit_response(r3, "body"); r4 = make_response(0, RS_DEFAULT); edit_response(r4, "status")
        assert response_facts(r0, True) != response_facts(r3, True) and response_facts(r0, True) != response_facts(r4, True)

    # ---------------------------------------------------------------- generation
    M = ["GET", "POST"]; S = ["http", "https"]; H = ["a.com", "b.com"]; P = [80, 8080]; PATH = ["/p", "/q", "/"]
    QK = ["x", "y", "z"]; QV = ["1", "2", "", None]; FK = ["u", "v", "w"]; FV = ["1", "2"]
    BODY = ["-", "41", "42", "753d31"]        # b"", b"A", b"B", b"u=1"
    HN = ["X-A", "x-b", "X-C"]; HV = ["1", "2"]

    def gen_req(self, rng, base=None):
        if base is not None and rng.chance(0.75):
            rq = {k: (list(map(list, v)) if isinstance(v, list) else v) for k, v in base.items()}
            f = rng.pick(["m", "s", "h", "p", "path", "q", "body", "hdrs", "hh", "form", "ct"] + (["parts"] * 6 if rq["ct"] == "mraw" else []))
            if f == "m": rq["m"] = rng.pick(self.M)
            elif f == "s": rq["s"] = rng.pick(self.S)
            elif f == "h": rq["h"] = rng.pick(self.H)
            elif f == "p": rq["p"] = rng.pick(self.P)
            elif f == "path": rq["path"] = rng.pick(self.PATH)
            elif f == "q": rq["q"] = self.gen_q(rng)
            elif f == "body": rq["body_hex"] = rng.pick(self.BODY)
            elif f == "hdrs": rq["hdrs"] = self.gen_h(rng)
            elif f == "hh": rq["hh"] = rng.pick([None, "a.com", "b.com", "a.com:8080"])
            elif f == "form": rq["form"] = self.gen_f(rng)
            elif f == "parts":
                ps = [list(p) for p in rq["parts"]]; i = rng.randrange(len(ps)); w = rng.randrange(4)
                if w == 0: ps[i][1] = rng.pick(self.FV + ["3"])                       # another value
                elif w == 1: ps[i][2] = rng.pick([0, 1, 2, 3]) if ps[i][2] in (0, 1, 2, 3) else ps[i][2]   # another spelling
                elif w == 2: ps[i][3] = rng.pick(self.FK + ["f.txt"])                   # another filename
                else: ps[i][0] = rng.pick(self.FK)
                rq["parts"] = ps
            else: rq["ct"] = rng.pick(["", "form", "multi", "none", "text/plain"] + (["mraw"] if rq.get("parts") else []))
            return rq
        return {"m": rng.pick(self.M), "s": rng.pick(self.S), "h": rng.pick(self.H), "p": rng.pick(self.P),
                "path": rng.pick(self.PATH), "q": self.gen_q(rng), "hh": rng.weighted([(6, None), (1, "a.com"), (1, "b.com:8080")]),
                "ct": rng.weighted([(4, ""), (3, "form"), (2, "multi"), (3, "mraw"), (1, "none"), (1, "text/plain")]),
                "body_hex": rng.pick(self.BODY), "form": self.gen_f(rng), "hdrs": self.gen_h(rng), "parts": self.gen_parts(rng)}

    def gen_q(self, rng):
        return [[rng.pick(self.QK), rng.pick(self.QV)] for _ in range(rng.weighted([(3, 0), (3, 1), (3, 2), (1, 3)]))]

    def gen_f(self, rng):
        return [[rng.pick(self.FK), rng.pick(self.FV)] for _ in range(rng.weighted([(1, 0), (3, 1), (3, 2), (1, 3)]))]

    def gen_parts(self, rng):
        """multipart parts written by hand: every Content-Disposition spelling, repeated names, parts without a name;
        filenames come from the same pool as the field names so that they collide with the ignore lists"""
        ps = [[rng.pick(self.FK), rng.pick(self.FV), rng.weighted([(4, 0), (5, 1), (2, 2), (2, 3), (1, 4), (1, 5), (1, 6), (1, 7), (1, 8)]),
               rng.pick(self.FK + ["f.txt"])] for _ in range(rng.weighted([(3, 1), (4, 2), (2, 3)]))]
        if not any(p[2] in (0, 1, 2, 3) for p in ps): ps[0][2] = rng.pick([0, 1])
        return ps

    def gen_h(self, rng):
        return [[rng.pick(self.HN + ["X-a"]), rng.pick(self.HV)] for _ in range(rng.weighted([(4, 0), (3, 1), (1, 2)]))]

    def gen_opts(self, rng):
        sub = lambda pool: [x for x in pool if rng.chance(0.4)]
        return {"ignore_content": rng.chance(0.4), "ignore_host": rng.chance(0.4), "ignore_port": rng.chance(0.4),
                "ignore_params": sub(self.QK[:2]), "ignore_payload_params": sub(self.FK[:2]),
                "use_headers": sub(self.HN) if rng.chance(0.5) else []}

    def permute_opts(self, rng, o):
        """the same option set with one list-valued option re-ordered / given a duplicate: the ignore lists are sets as far
        as the key is concerned, but the ORDER (and multiplicity) of server_replay_use_headers enters the key"""
        o = dict(o)
        fs = [f for f in ("use_headers", "use_headers", "ignore_params", "ignore_payload_params") if o[f]]
        if not fs:
            o["use_headers"] = rng.sample(self.HN, 2); return o
        f = rng.pick(fs); l = list(o[f])
        how = rng.randrange(4)
        if how == 0 and len(l) > 1: l.reverse()
        elif how == 1 and len(l) > 1: rng.shuffle(l)
        elif how == 2: l.append(l[0])
        else: l.insert(0, l[-1])
        o[f] = l
        return o

    def gen_rs(self, rng):
        hd = [h for h in ([["X-R", rng.pick(["1", "2"])]], [["date", "Mon, 01 Jan 2001 00:00:00 GMT"]],
                          [["set-cookie", "a=b; Expires=Mon, 01 Jan 2031 00:00:00 GMT"]], [["X-S", "s"]]) if rng.chance(0.5)]
        return {"st": rng.pick([200, 200, 201, 404]), "hd": [x for h in hd for x in h], "b": rng.pick(["", "x", "yy"])}

    def gen_cfg(self, rng):
        return {"reuse": rng.chance(0.25), "nopop": rng.chance(0.05), "kill_extra": rng.chance(0.1),
                "extra": rng.pick(["forward", "kill", "204", "400", "404", "500"]), "refresh": rng.chance(0.5)}

    def gen_hist(self, rng):
        base = self.gen_req(rng)
        reqs = [base] + [self.gen_req(rng, base) for _ in range(rng.randint(1, 5))]
        nrec = rng.randint(1, 8)
        recs = [{"req": rng.randrange(len(reqs)), "resp": not rng.chance(0.2), "http": not rng.chance(0.07), "rs": self.gen_rs(rng)}
                for _ in range(nrec)]
        opts = [self.gen_opts(rng)]
        ids = list(range(nrec))
        first = [i for i in ids if rng.chance(0.8)]
        if rng.chance(0.3): rng.shuffle(first)
        ev = [["load", first]]
        for _ in range(rng.randint(2, 23)):
            k = rng.weighted([(60, "req"), (15, "conf"), (10, "add"), (5, "load"), (3, "clear")])
            if k == "req":
                ev.append(["req", rng.randrange(len(reqs)), self.gen_cfg(rng)])
                # a later addon edits the response this (or an earlier) request was given
                if rng.chance(0.35): ev.append(["edit", rng.pick(EDITS), rng.weighted([(6, 0), (2, 1), (1, 2)])])
            elif k == "conf":
                if rng.chance(0.4) or len(opts) > 5:
                    ev.append(["conf", rng.randrange(len(opts))])
                elif rng.chance(0.4):
                    opts.append(self.permute_opts(rng, opts[-1])); ev.append(["conf", len(opts) - 1])
                else:
                    o = dict(opts[-1]); f = rng.pick(HASH_KEYS); o[f] = self.gen_opts(rng)[f]
                    opts.append(o); ev.append(["conf", len(opts) - 1])
            elif k in ("add", "load"):
                ev.append([k, [rng.pick(ids) for _ in range(rng.randint(0, 3))] if k == "add" else [i for i in ids if rng.chance(0.6)]])
            else: ev.append(["clear"])
        return {"kind": "hist", "reqs": reqs, "recs": recs, "opts": opts, "events": ev}

    def gen_reorder(self, rng):
        """a history around one re-ordering of a list-valued option AFTER recordings were loaded: the index is built with the
        first option set, the option is changed to the same names in another order / with a duplicate, then requests
        equal to pending recordings arrive"""
        c = self.gen_hist(rng)
        o0 = dict(c["opts"][0]); o0["use_headers"] = rng.sample(self.HN, rng.randint(2, 3))
        if rng.chance(0.3): o0["ignore_params"] = ["x", "y"]
        opts = [o0, self.permute_opts(rng, o0)]
        ids = [i for i, r in enumerate(c["recs"])]
        ev = [["conf", 0], ["load", ids]]
        if rng.chance(0.3): ev.append(["req", c["recs"][rng.pick(ids)]["req"], self.gen_cfg(rng)])
        ev.append(["conf", 1])
        for _ in range(rng.randint(1, 5)):
            ev.append(["req", c["recs"][rng.pick(ids)]["req"] if rng.chance(0.8) else rng.randrange(len(c["reqs"])), self.gen_cfg(rng)])
            if rng.chance(0.3): ev.append(["edit", rng.pick(EDITS), 0])
        if rng.chance(0.3): ev += [["conf", 0], ["req", c["recs"][rng.pick(ids)]["req"], self.gen_cfg(rng)]]
        return {**c, "opts": opts, "events": ev}

    def gen_edits(self, rng):
        """serve the same recording several times (reuse, or the same flow loaded twice) with edits of the served copies in
        between, refresh on and off"""
        c = self.gen_hist(rng)
        ids = [i for i, r in enumerate(c["recs"]) if r["http"] and r["resp"]] or [0]
        i = rng.pick(ids)
        c["recs"][i] = dict(c["recs"][i], http=True, resp=True)
        ev = [["load", [i, i] if rng.chance(0.5) else [i] + [x for x in ids if x != i][:1]]]
        for _ in range(rng.randint(2, 5)):
            cfg = dict(self.gen_cfg(rng), reuse=rng.chance(0.6), refresh=rng.chance(0.5))
            ev.append(["req", c["recs"][i]["req"], cfg])
            if rng.chance(0.8): ev.append(["edit", rng.pick(EDITS), rng.weighted([(5, 0), (1, 1)])])
            if rng.chance(0.15): ev.append(["add", [i]])
        return {**c, "opts": c["opts"][:1], "events": ev}

    def generate(self, rng, tier):
        while True:
            if rng.chance(0.1):
                yield self.gen_edits(rng)
            elif rng.chance(0.12):
                yield self.gen_reorder(rng)
            elif rng.chance(0.75):
                yield self.gen_hist(rng)
            else:
                a = self.gen_req(rng)
                o = self.gen_opts(rng)
                if a["ct"] == "mraw" and rng.chance(0.7):
                    o["ignore_content"] = False; o["ignore_payload_params"] = rng.pick([["u"], ["v"], ["u", "v"], ["w"], ["f.txt"]])
                yield {"kind": "pair", "a": a, "b": self.gen_req(rng, a), "o": o}

    # ---------------------------------------------------------------- running the real addon
    def _table(self, case, sp=None, tctx=None):
        """key class of every request shape under every option set, from the real `_hash`
        (which reads only ctx.options and the request)"""
        key = json.dumps([case["reqs"], case["opts"]], sort_keys=True)
        if getattr(self, "_stash", (None, None))[0] == key: return self._stash[1]
        if sp is None:
            sp = serverplayback.ServerPlayback()
            with addon_context(sp) as tctx:
                return self._table(case, sp, tctx)
        flows = [build_request(rq) for rq in case["reqs"]]
        rows, classes = [], {}
        for o in case["opts"]:
            tctx.options.update(**hashopts(o))
            rows.append([classes.setdefault(sp._hash(f), len(classes)) for f in flows])
        self._stash = (key, rows)
        return rows

    @staticmethod
    def _dump(sp, ident):
        ids = lambda l: ",".join(str(ident.get(id(f), "?")) for f in l) if l else "-"
        fm = ";".join(ids(l) for l in sp.flowmap.values()) if sp.flowmap else "-"
        rec = ids(sp.recorded) if hasattr(sp, "recorded") else "?"
        return f"cnt={sp.count()} fm={fm} rec={rec}"

    @staticmethod
    def _valid(case):
        if case["kind"] == "pair": return True
        nq, nr, no = len(case["reqs"]), len(case["recs"]), len(case["opts"])
        if no == 0 or any(rc["req"] >= nq for rc in case["recs"] if rc["http"]): return False
        for ev in case["events"]:
            if ev[0] in ("load", "add") and any(i >= nr for i in ev[1]): return False
            if ev[0] == "conf" and ev[1] >= no: return False
            if ev[0] == "req" and ev[1] >= nq: return False
        return True

    def shrink_candidates(self, case):
        if case["kind"] != "hist": return
        ev = case["events"]
        for i in range(len(ev)):
            yield {**case, "events": ev[:i] + ev[i + 1:]}
        for i, e in enumerate(ev):
            if e[0] in ("load", "add"):
                for j in range(len(e[1])):
                    yield {**case, "events": ev[:i] + [[e[0], e[1][:j] + e[1][j + 1:]]] + ev[i + 1:]}

    def impl(self, case):
        if not self._valid(case): raise Skip()
        if case["kind"] == "pair":
            sp = serverplayback.ServerPlayback()
            with addon_context(sp) as tctx:
                tctx.options.update(**hashopts(case["o"]))
                fa, fb = build_request(case["a"]), build_request(case["b"])
                dec = lambda f: [[k.decode("latin1"), v.decode("latin1")] for k, v in f.request.multipart_form.items(multi=True)]
                return {"eq": sp._hash(fa) == sp._hash(fb), "la": key_line(case["o"], fa), "lb": key_line(case["o"], fb),
                        "da": dec(fa), "db": dec(fb)}
        sp = serverplayback.ServerPlayback()
        recs, ident = [], {}
        for i, rc in enumerate(case["recs"]):
            if rc["http"]:
                f = build_request(case["reqs"][rc["req"]])
                if rc["resp"]:
                    f.response = make_response(i, rc.get("rs", RS_DEFAULT))
            else:
                f = tflow.ttcpflow()
            recs.append(f); ident[id(f)] = i
        out, alt, asked = [], [], []
        # the recorded responses as the case describes them (a snapshot that does not depend on any object the addon or a
        # later addon can touch)
        snap = {i: response_facts(make_response(i, rc.get("rs", RS_DEFAULT)), False)
                for i, rc in enumerate(case["recs"]) if rc["http"] and rc["resp"]}
        snap_r = {i: response_facts(make_response(i, rc.get("rs", RS_DEFAULT)), True)
                  for i, rc in enumerate(case["recs"]) if rc["http"] and rc["resp"]}
        with addon_context(sp) as tctx:
            table = self._table(case, sp, tctx)
            tctx.options.update(**hashopts(case["opts"][0]))
            for ev in case["events"]:
              try:
                k = ev[0]
                if k == "load": sp.load_flows([recs[i] for i in ev[1]]); out.append(self._dump(sp, ident))
                elif k == "add": sp.add_flows([recs[i] for i in ev[1]]); out.append(self._dump(sp, ident))
                elif k == "clear": sp.clear(); out.append(self._dump(sp, ident))
                elif k == "conf": tctx.options.update(**hashopts(case["opts"][ev[1]])); out.append(self._dump(sp, ident))
                elif k == "edit":
                    if len(asked) > ev[2] and asked[-1 - ev[2]].response is not None: edit_response(asked[-1 - ev[2]].response, ev[1])
                    out.append(self._dump(sp, ident))
                else:
                    c = ev[2]
                    tctx.options.update(server_replay_reuse=c["reuse"], server_replay_nopop=c["nopop"],
                                        server_replay_kill_extra=c["kill_extra"], server_replay_extra=c["extra"],
                                        server_replay_refresh=c["refresh"])
                    q = build_request(case["reqs"][ev[1]])
                    sp.request(q); asked.append(q)
                    if q.response is not None:
                        body = bytes(q.response.content or b"").lstrip(b"[")
                        if body.startswith(b"rec-"):
                            i = int(body[4:].split(b"-")[0])
                            res = f"served:{i}"
                            # "receives a recorded response": the response as it was recorded (loaded), whatever has been
                            # done to copies served earlier
                            want = (snap_r if c["refresh"] else snap).get(i)
                            if response_facts(q.response, c["refresh"]) != want: res += "!altered"
                        else:
                            res = "status:%d" % q.response.status_code
                        if q.is_replay != "response": res += "!not-marked-replay"
                    elif q.error is not None:
                        res = "killed" if q.error.msg == Error.KILLED_MESSAGE else "error"
                    else:
                        res = "forwarded"
                    out.append(res + " " + self._dump(sp, ident))
              except Exception as e:      # no event of a history may make the addon raise
                out.append("exc:" + type(e).__name__); break
              # serving (and what happens to served copies) never changes a recording
              alt.append([i for i, f in enumerate(recs) if i in snap and response_facts(f.response, False) != snap[i]])
        return {"out": out, "table": table, "alt": alt}

    # ---------------------------------------------------------------- the property as a predicate
    def oracle(self, case, obs):
        if "__exc__" in obs: return []
        if case["kind"] == "pair":
            # "receives a recorded response only if its matching key ... equals that of the recorded request"
            # (and a request whose key equals is a matching request)
            # the form fields that enter the key are the fields of the request: for hand-written multipart bodies whose
            # every part is spelled unambiguously, what the decoder hands to _hash must be what an independent reading gives
            for side, dec in (("a", obs.get("da")), ("b", obs.get("db"))):
                rq = case[side]
                if rq["ct"] == "mraw" and dec is not None:
                    fields, unclear = read_parts(rq["parts"])
                    if not unclear and [list(x) for x in fields] != dec:
                        return [f"pair: multipart fields of request {side} are {fields} but the key is computed from {dec}"]
            ka, kb = spec_key(case["o"], case["a"]), spec_key(case["o"], case["b"])
            if obs["eq"] and ka != kb:
                return [f"pair: _hash equal but the statement's keys differ: {ka} / {kb}"]
            if not obs["eq"] and spec_key(case["o"], case["a"], True) == spec_key(case["o"], case["b"], True):
                return [f"pair: the statement's keys are equal but _hash differs: {ka} / {kb}"]
            return []
        fails = []
        recs, reqs = case["recs"], case["reqs"]
        o = case["opts"][0]
        pending = []            # recording order; entries not yet served without reuse
        prev_cnt, prev_ms = 0, []
        for n, (ev, line) in enumerate(zip(case["events"], obs["out"])):
            if line.startswith("exc:"):
                fails.append(f"event {n} ({ev[0]}): the addon raised {line[4:]}"); break
            parts = line.split(" ")
            d = dict(p.split("=", 1) for p in parts if "=" in p)
            cnt = int(d["cnt"])
            ms = sorted(x for b in d["fm"].split(";") for x in b.split(",") if x != "-") if d["fm"] != "-" else []
            k = ev[0]
            if n < len(obs.get("alt", [])) and obs["alt"][n]:
                fails.append(f"event {n} ({k}): recordings {obs['alt'][n]} no longer hold the response that was loaded")
            if k == "edit":
                pass
            elif k in ("load", "add", "clear"):
                if k != "add": pending = []
                if k != "clear": pending += [i for i in ev[1] if recs[i]["http"]]
            elif k == "conf":
                o = case["opts"][ev[1]]
                # "changing matching options re-indexes the not-yet-served recordings without losing or duplicating any"
                if cnt != prev_cnt or ms != prev_ms:
                    fails.append(f"event {n}: re-index changed the remaining recordings {prev_ms} -> {ms}")
            else:
                res, c, q = parts[0], ev[2], reqs[ev[1]]
                pending_before = list(pending); with_resp_before = [i for i in pending if recs[i]["resp"]]
                kq = spec_key(o, q)
                reuse = c["reuse"] or c["nopop"]
                kqf = spec_key(o, q, True)
                cand = [i for i in pending if recs[i]["resp"] and spec_key(o, reqs[recs[i]["req"]], True) == kqf]
                if res.startswith("served:"):
                    i = int(res[7:].split("!")[0])
                    if "!altered" in res: fails.append(f"event {n}: the response served for recording {i} is not the recorded response")
                    if "!not-marked" in res: fails.append(f"event {n}: response served without is_replay")
                    # served only if keys equal; at most once without reuse; recording order; reuse serves the first
                    if spec_key(o, reqs[recs[i]["req"]]) != kq:
                        fails.append(f"event {n}: request {ev[1]} was served recording {i} whose matching key differs")
                    elif i not in pending:
                        fails.append(f"event {n}: recording {i} served although it is not (any more) among the unserved recordings")
                    elif cand and pending.index(cand[0]) < pending.index(i):
                        fails.append(f"event {n}: served recording {i}, but {cand[0]} was recorded earlier with an equal key (reuse={reuse})")
                    if not reuse and i in pending: pending.remove(i)
                else:
                    # "while server replay is active": from the inputs — active while a recording with a response is
                    # pending, inactive when nothing is; only when all that is left are response-less recordings (which
                    # the addon may or may not have discarded while skipping them) is the addon's own count consulted
                    active = True if with_resp_before else (False if not pending_before else prev_cnt > 0)
                    if active and cand:
                        fails.append(f"event {n}: matching recording {cand[0]} not served ({res})")
                    elif active:
                        want = "killed" if (c["kill_extra"] or c["extra"] == "kill") else \
                            ("forwarded" if c["extra"] == "forward" else "status:" + c["extra"])
                        if res != want: fails.append(f"event {n}: unmatched request got {res}, configured {want}")
                    elif res != "forwarded":
                        fails.append(f"event {n}: replay inactive but request got {res}")
            # "without losing or duplicating any" (input-derived, after every event): every pending recording that has a
            # response is still indexed, nothing is indexed that is not pending, and count() counts what is indexed
            have, lo, hi = collections.Counter(ms), collections.Counter(str(i) for i in pending if recs[i]["resp"]), \
                collections.Counter(str(i) for i in pending)
            if lo - have:
                fails.append(f"event {n} ({k}): pending recordings {sorted((lo - have).elements())} are lost (indexed: {ms})")
            elif have - hi:
                fails.append(f"event {n} ({k}): recordings {sorted((have - hi).elements())} are indexed but not pending / duplicated (indexed: {ms})")
            elif cnt != len(ms):
                fails.append(f"event {n} ({k}): count() = {cnt} but {len(ms)} recordings are indexed")
            prev_cnt, prev_ms = cnt, ms
            if fails: break
        return fails

    # ---------------------------------------------------------------- model tie
    def model_lines(self, case):
        if not self._valid(case): raise Skip()
        if case["kind"] == "pair":
            sp = serverplayback.ServerPlayback()
            with addon_context(sp):
                return [key_line(case["o"], build_request(case["a"])), key_line(case["o"], build_request(case["b"]))]
        table = self._table(case)
        rl = lambda l: ",".join(f"{i}:{case['recs'][i]['req']}:{int(case['recs'][i]['resp'])}:{int(case['recs'][i]['http'])}" for i in l) if l else "-"
        def events(pre):
            out = []
            for ev in case["events"]:
                k = ev[0]
                if k in ("load", "add"): out.append(f"{pre}{k} {rl(ev[1])}")
                elif k == "clear": out.append(pre + "clear")
                elif k == "edit": out.append(pre + "edit")
                elif k == "conf": out.append(f"{pre}conf {ev[1]}")
                else:
                    c = ev[2]
                    out.append(f"{pre}req {ev[1]} {int(c['reuse'])} {int(c['nopop'])} {int(c['kill_extra'])} {c['extra']}")
            return out
        # (1) the flowmap logic with the equality classes of the real _hash as the key function
        lines = ["reset " + ";".join(",".join(map(str, row)) for row in table) + " 0"] + events("")
        # (2) the same history with the model's own key function keyOf on the parsed request parts: the model
        #     predicts which requests match instead of being told
        lines.append("kreset")
        lines += ["kopt " + " ".join(opts_fields(o)) for o in case["opts"]]
        lines += ["kdef " + " ".join(req_fields(build_request(rq))) for rq in case["reqs"]]
        lines.append("kstart 0")
        return lines + events("k")

    def model_obs(self, case, replies):
        if case["kind"] == "pair": return {"eq": replies[0] == replies[1], "ok": "bad-op" not in replies}
        n = len(case["events"])
        setup = replies[1 + n:len(replies) - n]
        return {"table": replies[1:1 + n], "keyOf": replies[len(replies) - n:], "setup-ok": all(r == "ok" for r in setup)}

    def impl_view(self, case, obs):
        if "__exc__" in obs: return obs
        if case["kind"] == "pair": return {"eq": obs["eq"], "ok": True}
        if len(obs["out"]) < len(case["events"]): return {"raised": obs["out"]}
        return {"table": obs["out"], "keyOf": obs["out"], "setup-ok": True}

    def classify(self, case, obs):
        if "__exc__" in obs: return None
        if case["kind"] == "pair":
            return ("pair", obs["la"], obs["lb"])
        if not any(l.startswith("served:") for l in obs["out"]): return None
        return ("hist", tuple(obs["out"]), str(obs["table"]))

    def branches(self, case, obs):
        if "__exc__" in obs: return ["impl-raised"]
        if case["kind"] == "pair": return ["pair:eq" if obs["eq"] else "pair:ne"]
        out = []
        for ev, l in zip(case["events"], obs["out"]):
            if ev[0] == "edit": out.append("ev:edit:" + ev[1])
            elif ev[0] == "req":
                c = ev[2]
                out.append(("req:reuse:" if c["reuse"] or c["nopop"] else "req:") + l.split(" ")[0].split(":")[0])
            else:
                out.append("ev:" + ev[0])
        if any(not r["resp"] for r in case["recs"]): out.append("has-response-less")
        if len(case["opts"]) > 1: out.append("has-option-change")
        return out

    def neighbours(self, case, rng):
        if case["kind"] != "hist": return
        for _ in range(300):
            c = {**case, "events": [list(e) for e in case["events"]]}
            i = rng.randrange(len(c["events"]))
            if rng.chance(0.5):
                c["events"].insert(i, ["req", rng.randrange(len(case["reqs"])), self.gen_cfg(rng)])
            else:
                c["events"].insert(i, ["conf", rng.randrange(len(case["opts"]))])
            yield c

    def exhaustive(self, tier):
        # small scope: three recordings over two request shapes differing in host, every order of
        # (option change, three requests), with/without reuse
        a = {"m": "GET", "s": "http", "h": "a.com", "p": 80, "path": "/p", "q": [], "hh": None, "ct": "", "body_hex": "-", "form": [], "hdrs": []}
        b = dict(a, h="b.com")
        o0 = {"ignore_content": False, "ignore_host": False, "ignore_port": False, "ignore_params": [], "ignore_payload_params": [], "use_headers": []}
        o1 = dict(o0, ignore_host=True)
        for shape in itertools.product([0, 1], repeat=3):
            for resp in itertools.product([True, False], repeat=3):
                recs = [{"req": s, "resp": r, "http": True} for s, r in zip(shape, resp)]
                for reuse in (False, True):
                    cfg = {"reuse": reuse, "nopop": False, "kill_extra": False, "extra": "404", "refresh": False}
                    for pos in range(4):
                        ev = [["load", [0, 1, 2]]] + [["req", 0, cfg]] * 3
                        ev.insert(1 + pos, ["conf", 1])
                        yield {"kind": "hist", "reqs": [a, b], "recs": recs, "opts": [o0, o1], "events": ev + [["req", 1, cfg]]}
